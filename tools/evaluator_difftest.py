#!/venv/bin/python
"""Differential test of the machinery's own-arithmetic evaluator (kvstatic.constfold.Folder) against torch.

This tests the *verification machinery*, not the repository: each expression template is evaluated by the Folder on nested
lists and by torch on the same data; a template the Folder refuses (Unfoldable) is counted as `refused` (no verdict is ever
based on it), a template on which both give a value must agree.  Run with the repository's interpreter:

    /venv/bin/python /verif/tools/evaluator_difftest.py
"""
from __future__ import annotations

import ast
import itertools
import os
import random
import sys

sys.path.insert(0, os.path.dirname(os.path.dirname(os.path.abspath(__file__))))

import torch  # noqa: E402

from kvstatic.constfold import Folder, PySeq, Unfoldable  # noqa: E402

UNARY = [
    "t.any(dim={d})", "t.all(dim={d})", "torch.any(t, dim={d})", "t.any(dim={d}, keepdim=True)", "t.sum(dim={d})", "torch.sum(t, dim={d})", "t.sum(dim={d}, keepdim=True)",
    "t.mean(dim={d})", "torch.mean(t, dim={d}, keepdim=True)", "t.sum()", "t.mean()", "t.any()", "t.all()", "t.numel()", "t.dim()", "t.abs()", "torch.abs(t)", "t.flatten()", "t.reshape(-1)",
    "t.argmax(dim={d})", "t.argmin(dim={d})", "torch.argmax(t, dim={d})", "t.max(dim={d})[0]", "t.min(dim={d})[0]", "t.max()", "t.min()", "t.amax(dim={d})", "t.amin(dim={d})",
    "t.flip({d})", "torch.flip(t, [{d}])", "t.unsqueeze({d})", "t.squeeze()", "t.transpose(0, -1)", "t.T", "t.t()", "t.permute(*reversed(range(t.dim())))",
    "t[0]", "t[-1]", "t[..., 0]", "t[:, 0]", "t[1:]", "t[:, 1:]", "t[::2]", "t[..., ::2]", "t[..., -1]", "t[t > 0]", "(t > 0).sum()", "(t > 0).float().mean()", "t.clamp(min=0)", "torch.clamp(t, -1, 1)", "t.clamp(max=1)",
    "t * 2 + 1", "t ** 2", "-t", "t % 2", "t // 2", "torch.remainder(t, 3)", "torch.sign(t)", "t.sign()", "(t > 0) & (t < 2)", "(t > 0) | (t < -1)", "~(t > 0)", "torch.where(t > 0, t, -t)", "torch.where(t > 0, 1.0, 0.0)",
    "t.repeat(2, *[1] * (t.dim() - 1))", "torch.stack([t, t])", "torch.stack([t, t], dim=-1)", "torch.cat([t, t])", "torch.cat([t, t], dim=-1)", "t.repeat_interleave(2, dim={d})", "torch.repeat_interleave(t, 2, dim={d})",
    "t.index_select({d}, torch.tensor([0]))", "t.index_select(0, torch.tensor([1, 0, 1]))", "torch.index_select(t, {d}, torch.tensor([0, 0]))", "t.index_select(-1, torch.tensor([1, 0]))", "torch.count_nonzero(t)", "torch.count_nonzero(t, dim={d})", "t.count_nonzero()", "t.count_nonzero(dim={d})", "torch.count_nonzero(t - t)", "torch.count_nonzero(torch.sum(t, dim=-1))", "torch.full_like(t, 0.5)", "torch.full_like(t.long(), 0.5)", "torch.full_like(t.long(), -1.7)", "torch.full_like(t > 0, 2)", "torch.full_like(t > 0, 0.0)", "torch.full_like(t.long(), 2.5, dtype=torch.float32)", "torch.full_like(t, -1)", "torch.where(t > 0, torch.full_like(t.long(), 0.5), t.long()).float()", "t.cumsum(dim={d})", "torch.cumsum(t, dim={d})", "torch.cumsum(t, {d})", "torch.cumsum(t, dim=-1)", "torch.cumprod(t, dim={d})", "t.cumprod({d})", "t.cumprod(dim=-1)", "t.prod()", "t[..., 1::2]", "t[..., ::2]", "t[..., 1:]", "t[..., :-1]", "t[..., 0:2:1]", "torch.atleast_2d(t)", "torch.atleast_3d(t)", "torch.atleast_1d(t)", "torch.atleast_2d(t.flatten())", "torch.atleast_3d(t.flatten())", "torch.atleast_3d(t.flatten()[0])", "torch.atleast_2d(t.flatten()[0])", "torch.atleast_3d(t.reshape(t.shape[0], -1))", "torch.kron(t, t)", "torch.kron(t, t[:1])", "torch.kron(t[:, :1], t)", "t.prod(dim={d})", "t.prod(dim={d}, keepdim=True)", "torch.prod(t, {d})", "t[[0, 1]].prod(dim=0)", "t[[1]].prod(dim=0)", "t.nonzero()", "torch.nonzero(t > 0)", "t.shape", "t.shape[0]", "t.size(-1)", "t.size()", "len(t)", "t.tolist()",
    "t.view(-1)", "t.reshape(t.shape[0], -1)", "t.reshape(-1, t.shape[-1])", "t.unsqueeze(0).expand(2, *t.shape)", "t.bool()", "t.bool().any(dim={d})", "(t != 0).long()", "t.float().floor()", "torch.floor(t / 2)", "torch.round(t / 2)",
    "t.sort(dim={d})[0]", "torch.sort(t, dim={d})[1]", "t.topk(1, dim={d})[1]", "torch.argsort(t, dim={d})", "t.roll(1, {d})", "torch.roll(t, 1, dims={d})", "t.flatten().unique()", "torch.count_nonzero(t)",
    "t.abs().max(dim={d}, keepdim=True)[0]", "torch.maximum(t, -t)", "torch.minimum(t, -t)", "t.masked_fill(t > 0, 9)", "torch.zeros_like(t)", "torch.ones_like(t) * 3", "t.new_zeros(2)", "torch.full_like(t, 2)",
    "t.chunk(2, dim={d})[0]", "t.split(1, dim={d})[0]", "torch.split(t, 1, dim={d})[-1]", "t.narrow({d}, 0, 1)", "torch.diag(t.flatten())", "t.flatten().dot(t.flatten())", "torch.outer(t.flatten(), t.flatten())",
    "t.sum(dim=({d},))", "t.sum(dim=[0, -1])" , "t.mean(dim=(0, -1), keepdim=True)", "t.norm()", "torch.linalg.norm(t.float())", "t.float().std()", "t.float().var()", "t.median()", "t.float().sqrt()", "torch.exp(t.float())",
    "(t / 2).long()", "(t * 0.75).int()", "t.long() % 2", "(t * 1.5).to(torch.long)", "(t / 4).to(dtype=torch.int64)", "t.long() ^ 1", "(t.long() & 1) ^ (t.long() >> 1 & 1)", "t[::2]", "t[1::2]", "t[..., 1::2]", "t.flatten()[::3]",
    "t.permute(*range(t.dim() - 1, -1, -1))", "t.transpose(0, -1).transpose(0, -1)", "t.unsqueeze(-1)", "t.unsqueeze(1)", "t.unsqueeze(t.dim())", "t.repeat(*([2] * t.dim()))", "t.repeat(2, *([1] * t.dim()))", "t.cumsum({d})", "t.cumsum(dim={d})",
    "torch.where(t > 0, t, torch.zeros_like(t))", "torch.where(t.abs() > 1, torch.ones_like(t), -torch.ones_like(t))", "t @ t.transpose(-1, -2) if t.dim() >= 2 else t @ t", "t.swapaxes(0, -1)",
    "torch.view_as_real(torch.complex(t, -t))", "torch.abs(torch.view_as_real(torch.complex(t, 2 * t))).any(dim=-1)", "(torch.abs(torch.view_as_real(torch.complex(t, t))) > 1).any(dim=-1).sum()",
    "torch.real(torch.complex(t, -t) * torch.conj(torch.complex(t, -t)))", "torch.imag(torch.complex(t, 2 * t))", "torch.complex(t, -t).real + torch.complex(t, -t).imag", "torch.abs(torch.complex(t, t)) ** 2", "torch.complex(t, -t).conj().imag",
    "t.masked_fill(t > 0, float('inf')).amin(dim={d})", "t.masked_fill(t <= 0, float('-inf')).amax(dim={d})", "torch.amin(t, dim={d})", "t.amax(dim={d}, keepdim=True)", "t.masked_fill(t == 0, 5)", "(t.unsqueeze(-1) - t.flatten()[:2]) ** 2",
    "(t.flatten() > 0).nonzero().squeeze(1)", "t.flatten().nonzero().squeeze(-1)", "t.unsqueeze(0).squeeze(0)", "t.unsqueeze(-1).squeeze(-1)", "t.unsqueeze(1).squeeze(1)", "t.squeeze({d})", "t.unsqueeze({d}).squeeze({d})",
    "t.unbind(dim={d})[0]", "t.unbind({d})[-1]", "len(t.unbind(dim={d}))", "t.unbind()[0]",
    "t.any(dim={d}).numel()", "t.all(dim={d}, keepdim=True).sum()", "t.logical_not()", "torch.logical_and(t > 0, t < 2)", "torch.logical_xor(t > 0, t < 2)", "t.eq(1)", "t.ne(1)", "t.gt(0)", "t.le(0)", "torch.eq(t, 1)",
]
BINARY = ["a + b", "a - b", "a * b", "a == b", "a != b", "(a - b).abs() > 1", "torch.abs(a - b) > 0", "(a != b).any(dim=-1)", "(a != b).float().sum()", "torch.stack([a, b], dim=0)", "torch.cat([a, b], dim=-1)", "torch.where(a > b, a, b)", "a @ b.T if a.dim() == 2 else (a * b).sum()", "torch.matmul(a, b.transpose(-1, -2))", "a[b > 0]", "(a > 0) == (b > 0)", "torch.bitwise_xor(a.long(), b.long())", "a.long() ^ b.long()", "a.long() & b.long()", "torch.maximum(a, b)", "a.float() / (b.float().abs() + 1)", "a % (b.abs() + 1)", "torch.equal(a, b)", "torch.allclose(a.float(), b.float())"]


#: statement fragments (executed by frag.run_fragment and by python+torch); the value compared is the variable `r`
FRAGMENTS = [
    "out = torch.zeros(2, 3)\nout[0] = t[0]\nout[:, 1] = 5\nr = out",
    "out = torch.zeros(2, 3)\nfor i in range(2):\n    for j in range(3):\n        out[i, j] = t[i, j] * (i + 1) + j\nr = out",
    "y = t.clone()\ny[t > 0] = 7\nr = y",
    "y = t.clone()\nmask = t > 0\ny[mask] = -y[mask]\nr = y",
    "idx = [2, 0, 1]\nr = t[:, idx]",
    "idx = torch.tensor([1, 0])\nr = t[idx]",
    "idx = torch.arange(3) // 2\nr = t[:, idx]",
    "r = t[:, [0, 2]].sum(dim=1)",
    "acc = 0\nfor row in t:\n    acc = acc + row.sum()\nr = acc",
    "rows = []\nfor i in range(t.shape[0]):\n    rows.append(t[i] * 2)\nr = torch.stack(rows)",
    "parts = [t[:, :1], t[:, 1:]]\nr = torch.cat(parts, dim=1)",
    "r = t.reshape(-1)[::2]",
    "r = t.gather(1, torch.tensor([[2, 0, 0, 1], [1, 1, 2, 0]]))",
    "r = t.gather(0, torch.tensor([[1, 0, 0]]))",
    "ix = torch.tensor([0, 1, 1, 2]).unsqueeze(0).repeat_interleave(2, dim=0)\nr = t.gather(1, ix) - 1",
    "c = torch.tensor([10.0, 20.0, 30.0, 40.0])\nidx = (t.abs().long() % 4)\nr = c[idx]",
    "c = torch.tensor([[1.0, 2.0], [3.0, 4.0], [5.0, 6.0]])\nidx = (t.abs().long() % 3)\nr = c[idx]",
    "z = torch.zeros(*t.shape[:-1], 2)\nr = z.shape",
    "z = torch.ones(*t.shape, 2)\nr = z.sum(dim=-1) + t",
    "m = torch.zeros(3, dtype=torch.bool)\nm[torch.tensor([2, 0])] = True\nr = t[:, m]",
    "m = torch.zeros(3, dtype=torch.bool)\nm[[1]] = True\ny = t.clone()\ny[:, m] = 9\ny[:, ~m] = t[:, ~m] * 2\nr = y",
    "m = torch.zeros(3, dtype=torch.bool)\nm[torch.tensor([2, 0])] = True\ny = torch.zeros(2, 3)\ny[:, m] = torch.eye(2)\nr = y",
    "m = torch.ones(2, dtype=torch.bool)\nm[0] = False\nr = t[m]",
    "m = t[0] > 0\nr = t[:, m].sum()",
    "y = torch.zeros(2, 4)\ny[:, [3, 0, 1]] = t\nr = y",
    "y = torch.zeros(2, 4)\ny[:, torch.tensor([2, 0])] = torch.eye(2)\nr = y",
    "y = torch.zeros(3, 3)\ny[[0, 2], [1, 0]] = torch.tensor([5.0, 7.0])\nr = y",
    "y = torch.zeros(2, 3)\ny[:, [0, 2]] = t[0, :2]\nr = y",
    "y = t.clone()\ny[0:2, [1]] = 4\nr = y",
    "a = t\nb = a\nb[0] = 9\nr = a",
    "a = t.clone()\nv = a[0]\na[0, 0] = 5\nr = v",
    "a = t.clone()\nv = a[0]\nv[1] = 7\nr = a",
    "a = t.clone()\nv = a[0]\na[1] = 0\nv = a[0]\nr = v + a[1]",
    "a = t.clone()\nw = a.reshape(-1)\nw[2] = 4\nr = a",
    "a = t.clone()\nw = a.T\na[0, 1] = 3\nr = w",
    "a = t.clone()\nb = a.clone()\nb[0] = 1\nr = a + b",
    "rows = []\nfor i in range(2):\n    m = t[i].unsqueeze(0)\n    rows.append(m.squeeze(0) * 2)\nr = torch.stack(rows)",
    "a = torch.zeros(2, 3)\nfor i in range(2):\n    for j in range(3):\n        a[i, j] = t[i, j]\n    row = a[i].unsqueeze(0)\nr = a + row",
    "r = t[::2, 1]",
    "r = t[:, ::2]",
    "r = t[1:, 1::2]",
    "r = t[::1, -1]",
    "r = t.reshape(3, 2).T",
    "r = t.reshape(1, 2, 3).permute(0, 2, 1).reshape(-1)",
    "r = t.reshape(2, 3, 1).squeeze(-1)",
    "r = t.unsqueeze(1).expand(2, 2, 3).reshape(4, 3)",
    "n = t.shape[-1]\nr = torch.arange(n).reshape(1, n).expand(2, n) + t",
    "a = t.long()\nr = torch.bitwise_xor(a[:, 0], a[:, 1])",
    "a = (t > 0).long()\nr = (a.sum(dim=1) % 2)",
    "r = torch.where(t.abs() > 1, torch.ones_like(t), torch.zeros_like(t))",
    "s = t.sum(dim=1, keepdim=True)\nr = t - s",
    "m = t.abs().max(dim=1, keepdim=True)[0]\nr = t / (m + 1)",
    "vals, idx = t.min(dim=1)\nr = idx",
    "vals, idx = torch.max(t, dim=0)\nr = vals",
    "r = (t == t.max(dim=1, keepdim=True)[0]).float()",
    "y = t.clone()\ny[:, 0], y[:, 1] = t[:, 1], t[:, 0]\nr = y",
    "y = t.clone()\ny[0, :] += y[1, :]\nr = y",
    "y = t.clone()\ny[1] = y[1] - y[0]\ny[0] = y[0] * 2\nr = y",
    "d = {}\nfor i in range(3):\n    d[i] = t[:, i].sum()\nr = [d[k] for k in sorted(d)]",
    "r = [int(v) for v in t.flatten().tolist() if v > 0]",
    "r = sum(1 for v in t.flatten().tolist() if v != 0)",
    "k = 0\nwhile k < 3 and t[0, k] <= 0:\n    k += 1\nr = k",
    "r = int(t.abs().sum().item()) // 2",
    "r = float(t.sum()) / max(t.numel(), 1)",
    "b = t.shape[0]\nr = t.reshape(b, -1, 1).repeat(1, 1, 2).reshape(b, -1)",
    "r = torch.stack([t[:, 0], t[:, 2]], dim=1).flip(1)",
    "r = t[..., None] * t[:, None, :]",
    "r = (t[:, :, None] == t[:, None, :]).sum(dim=-1)",
    "r = t.flatten()[torch.tensor([0, 5, 2])]",
    "z = torch.zeros(6)\nz[torch.tensor([1, 3])] = 1\nr = z.reshape(2, 3) + t",
    "r = torch.tensor([[1.0 if i == j else 0.0 for j in range(3)] for i in range(2)]) * t",
    "r = torch.eye(3)[:2] + t",
    "a = t.long() % 2\nr = a @ a.T % 2",
    "a = t.long() % 2\nr = (a[0] ^ a[1]) & 1",
    "r = torch.nonzero(t.flatten() > 0).flatten()",
    "r = torch.where(t.flatten() > 0)[0]",
    "r = len(torch.where(t.flatten() > 0)[0])",
    "r = t.sort(dim=1)[0]",
    "r = torch.argsort(t.flatten())",
    "r = t.cumsum(dim=1)",
    "r = t.any(dim=0) | t.all(dim=0)",
    "r = bool((t == t).all())",
    "r = t.tolist()[1][2]",
    "x = t.clone()\nx = (x + 1) / 2 if (x == -1).any() else x\nr = x",
]


#: fragments that make sense for any rank (run on 1-D, 2-D and 3-D inputs)
FRAGMENTS_ANY = [
    "r = 0\nfor v in t.flatten().tolist():\n    if v < -1.5:\n        r = -1\n        break\nelse:\n    r = 7",
    "k = 0\nr = 0\nwhile k < 3:\n    k += 1\n    if t.flatten()[0] > 100:\n        break\nelse:\n    r = k + 10",
    "y = torch.zeros(3, 4)\ny.scatter_(1, torch.tensor([[0, 2], [1, 3], [3, 0]]), 1)\nr = y * t.flatten()[0]",
    "y = torch.zeros(2, 3)\ny.scatter_(0, torch.tensor([[1, 0, 1]]), torch.tensor([[5.0, 6.0, 7.0]]))\nr = y + t.flatten()[0]",
    "y = torch.zeros(2, 3)\ny[1][2] = t.flatten()[0]\ny[0][0] = 4\nr = y",
    "y = torch.zeros(2, 2, 2)\ny[1][0][1] = t.flatten()[0]\nr = y",
    "c = torch.complex(t, t * 2)\nd = t.dtype\nr = torch.as_tensor(c, dtype=d) + 1",
    "c = torch.complex(t, -t)\nr = c.to(t.dtype) * 2",
    "c = torch.complex(t, t + 1)\nr = c.to(torch.complex128).imag + c.real",
    "r = torch.as_tensor(t * 1.7, dtype=torch.int64) + torch.tensor(2.9, dtype=torch.long)",
    "r = (t * 1.5).to(dtype=torch.float64) + t.double()",
    "nz = torch.nonzero(t > 0, as_tuple=False)\nr = nz.sum() + len(nz)",
    "acc = torch.zeros(1)\nfor idx in torch.nonzero(t > 0, as_tuple=False):\n    pos = tuple(idx.tolist())\n    acc = acc + t[pos]\nr = acc",
    "w = torch.where(t > 0)\nr = len(w) + w[0].sum()",
    "r = t.sum().view(1) + t.flatten()[:1]",
    "r = t.flatten()[0].reshape(1, 1) * t.flatten()[:2]",
    "r = t.mean().view(-1)",
    "r = t[(None,) * 2] + t.flatten()[0]",
    "k = max(t.dim() - 1, 1)\nr = t.flatten()[:1][(None,) * k] * t",
    "s0 = t.flatten()[0]\nr = torch.cat([s0.unsqueeze(-1), t.flatten()[:2]], dim=-1)",
    "s0 = t.sum().expand(())\nr = s0.unsqueeze(-1) + t.flatten()[:1]",
    "y = torch.zeros((2, *t.shape))\ny[0] = t.unsqueeze(0)\ny[1] = t.unsqueeze(0).unsqueeze(0) * 2\nr = y",
    "idx = [1, 0]\nr = t[idx] if t.shape[0] > 1 else t",
    "y = t.clone()\nidx = [0]\ny[idx] = 5\nr = y",
    "idx = list(range(t.shape[0]))[::-1]\nr = t[idx]",
    "tp = tuple([0] * t.dim())\nr = t[tp]",
    "sh = t.shape\nr = torch.zeros(sh) + t[(0,) * len(sh)]",
    "pos = (0,) * t.dim()\nr = t[pos] + t[pos[:-1]].sum()",
    "y = t.clone()\npos = (0,) * (t.dim() - 1)\ny[pos + (1,)] = 7\nr = y",
    "y = torch.zeros((*t.shape, 2))\nimport itertools\nfor pos in itertools.product(*[range(s) for s in t.shape]):\n    for b in range(2):\n        y[pos + (b,)] = t[pos] * (b + 1)\nr = y",
    "pos = ()\nr = t[pos]",
    "k = 3\ndef scale(v):\n    return v * k\ndef apply(fn, v):\n    k = 100\n    return fn(v) + k\nr = apply(scale, t)",
    "flag = True\ndef pick(v):\n    return v if flag else -v\ndef twice(g, v):\n    flag = False\n    return g(g(v))\nr = twice(pick, t)",
    "buf = torch.zeros(3)\ndef setk(b, k):\n    b[k] = 1\n    return k\nsetk(buf, 1)\nz = setk(buf, 2)\nr = buf + t.flatten()[0] + z",
    "buf = torch.zeros(3)\nout = []\ndef walk(cur, k, s):\n    if k == 0:\n        out.append(cur.clone())\n        return\n    for p in range(s, 3 - k + 1):\n        cur[p] = 1\n        walk(cur, k - 1, p + 1)\n        cur[p] = 0\nwalk(buf, 2, 0)\nr = torch.stack(out) + t.flatten()[0]",
    "buf = torch.zeros(3)\ndef bad(b):\n    b[0] = 5\n    return buf[0]\nr = bad(buf) + t.flatten()[0]",
    "buf = torch.zeros(3)\ndef reb(b):\n    b = b.clone()\n    b[0] = 5\n    return b\nr = reb(buf) + buf + t.flatten()[0]",
    "y = t.clone()\ny.mul_(2)\nr = y",
    "y = t.clone()\ny.clamp_(min=0)\nr = y + 1",
    "y = t.clone()\ny[0].zero_()\nr = y",
    "y = t.clone()\ny.add_(1)\ny = t * 3\nr = y",
    "acc = []\nbuf = torch.zeros(4)\ndef rec(k, start):\n    if k == 0:\n        acc.append(buf.clone())\n        return\n    last = 4 - k\n    for pos in range(start, last + 1):\n        buf[pos] = 1\n        rec(k - 1, pos + 1)\n        buf[pos] = 0\nrec(2, 0)\nr = torch.stack(acc) * t.flatten()[0]",
    "acc = []\nbuf = torch.zeros(3)\ndef rec(k, start):\n    if k == 0:\n        acc.append(buf.clone())\n        return None\n    for pos in range(start, 3 - k + 1):\n        buf[pos] = t.flatten()[pos]\n        rec(k - 1, pos + 1)\n        buf[pos] = 0\nrec(1, 0)\nrec(3, 0)\nr = torch.stack(acc)",
    "seen = []\ntotal = torch.zeros(2)\ndef note(v):\n    seen.append(v)\n    total[0] = total[0] + v\n    return len(seen)\nk = note(2.0) + note(3.0)\nr = total * k + t.flatten()[:2]",
    "y = torch.zeros((*t.shape, 2, 3))\ny[..., 1, 2] = t\ny[..., 0, 0] = 4\nr = y",
    "y = torch.zeros((*t.shape, 2, 3))\ny[..., 1, :] = t.unsqueeze(-1)\ny[..., 0, :] = torch.tensor([1.0, 2.0, 3.0])\nr = y",
    "y = torch.zeros((*t.shape, 2))\nfor k in range(2):\n    y[..., 0, k] = t[..., 0] + k\nr = y",
    "y = torch.stack([t, -t], dim=-1)\nr = y[..., 0, 1] + y[..., -1, 0]",
    "y = torch.stack([t, -t, 2 * t], dim=-1)\nr = y[..., 0, :] - y[..., :, 1].sum()",
    "y = torch.stack([t, -t], dim=-1)\nr = y[..., :, 1]",
    "y = t.clone()\ny[..., 0] = 9\nr = y",
    "y = t.clone()\ny[..., -1] = t[..., 0] * 2\nr = y",
    "y = torch.zeros((*t.shape, 2))\ny[..., 0] = t\ny[..., 1] = -t\nr = y",
    "y = torch.zeros((*t.shape, 2))\nfor k in range(2):\n    y[..., k] = t + k\nr = y.reshape(*t.shape[:-1], -1)",
    "y = t.clone()\ny[t > 0] = 7\nr = y",
    "y = t.clone()\nm = t > 0\ny[m] = -y[m]\nr = y",
    "y = t.clone()\nm = t > 0\ny[m] = torch.where(y[m] > 1, torch.zeros_like(y[m]), y[m])\nr = y",
    "y = torch.zeros_like(t)\ny[t == 1] = 5\ny[t == 0] = -5\nr = y",
    "r = t[t > 0]",
    "m = t > 0\nr = t[0][m[0]]",
    "m = (t > 0)[-1]\nr = t[-1][m].sum()",
    "m = ~(t > 0)\nr = t[0][m[0]]",
    "m = (t > 0).any(dim=0)\nr = t[0][m] if t.dim() == 2 else m.sum()",
    "m = torch.logical_and(t > 0, t < 3)\nr = t[m]",
    "m = torch.logical_or(t > 1, t < 0)\nr = t[m].sum()",
    "m = torch.logical_not(t > 0)\nr = t[m].sum()",
    "m = t.bool()\nr = t[m].sum()",
    "m = t.gt(0)\nr = t[m].sum()",
    "m = torch.eq(t, 1)\nr = t[m].sum() + m.sum()",
    "m = (t > 0).reshape(-1)\nr = t.reshape(-1)[m]",
    "m = (t > 0).flatten()\nr = t.flatten()[m]",
    "m = (t > 0).clone()\nr = t[m]",
    "m = (t > 0)[..., 0]\nr = m.sum()",
    "m = torch.stack([t > 0, t < 0])\nr = m.sum(dim=0)",
    "m = (t > 0).float()\nr = (t * m).sum()",
    "m = (t > 0).long()\nr = m.flatten()[:2]",
    "idx = (t > 0).long().flatten()\nr = t.flatten()[idx]",
    "idx = (t > 0).int().flatten()\nr = t.flatten()[idx.long()]",
    "m = t > 0\nr = torch.where(m)[0] if t.dim() == 1 else m.sum()",
    "m = (t > 0) == (t > 1)\nr = t[m].sum()",
    "m = (t > 0) != (t > 1)\nr = t[m].sum()",
    "r = t[t != t]",
    "r = t[(t > 0) & (t < 3)].sum()",
    "m = t > 0\nr = m.sum() + (~m).sum()",
    "y = t.clone()\ny[t.abs() > 1] = 0\nr = y.abs().sum()",
    "y = t.clone().float()\ny[torch.zeros_like(t) > 1] = 9\nr = y",
    "m = t[0] > 0\ny = t.clone()\ny[0][m] = 4\nr = y" ,
    "m = t.flatten() > 0\ny = t.flatten().clone()\ny[m] = torch.arange(int(m.sum())).float()\nr = y",
    "r = torch.eq(t, 1).sum() + torch.ne(t, 1).sum() + torch.gt(t, 0).sum() + torch.lt(t, 0).sum() + torch.ge(t, 0).sum() + torch.le(t, 0).sum()",
    "r = torch.all(torch.eq(t, t), dim=-1)",
    "z = torch.zeros(t.shape)\nz[t > 0] = 1\nr = z",
    "z = torch.zeros(*t.shape)\nr = z + t",
    "z = torch.zeros((*t.shape[:-1], 2))\nr = z.shape",
]


#: plain python expressions (evaluated by python itself and by the Folder; n, m ints, xs a list of ints, w a bit list)
PY_TEMPLATES = [
    "n == 0 or xs[0] // n >= 0", "n > 0 and xs[0] % n >= 0", "xs and xs[0]", "[] or xs", "xs or n", "(n - n) or m", "None or n", "n and None", "not (n and m)", "(n > 100) and (1 // (n - n))", "(n >= 0) or (1 // (n - n))",
    "0 <= n <= 20", "0 < m < n < 30", "m <= n <= m", "1 < m <= 3 != n", "not 0 <= n - 5 <= 1", "n // m", "n % m", "-n // m", "-n % m", "n ** 2", "n << 2", "n >> 1", "n & m", "n | m", "n ^ m", "~n", "n.bit_length()", "int(n / m)", "int(-n / m)", "int(n / 2.5)", "float(n)", "abs(-n)", "bool(n - n)", "min(n, m)", "max(n, m, 3)",
    "divmod(n, m)", "round(n / m)", "round(n / m, 2)", "n / m", "2 ** (n % 5)", "10 ** (-(n % 3))", "bin(n)", "bin(n)[2:]", "bin(n)[2:].zfill(8)", "format(n, 'b')", "format(n, '08b')", "f'{n:05b}'", "f'{n}-{m}'", "str(n) + str(m)", "int('101', 2)", "int(bin(n)[2:], 2)",
    "[int(c) for c in format(n, '06b')]", "[(n >> i) & 1 for i in range(6)]", "[(n >> i) & 1 for i in reversed(range(6))]", "sum((n >> i) & 1 for i in range(8))", "list(range(m))", "list(range(1, m))", "list(range(m, 0, -1))", "list(range(0, n, m))", "len(range(n))",
    "xs[0]", "xs[-1]", "xs[1:3]", "xs[::-1]", "xs[::2]", "xs[1::2]", "xs + [n]", "xs * 2", "[0] * m", "len(xs)", "sum(xs)", "min(xs)", "max(xs)", "sorted(xs)", "sorted(xs, reverse=True)", "list(reversed(xs))", "list(enumerate(xs))", "list(zip(xs, xs[1:]))", "xs.index(max(xs))", "xs.count(xs[0])",
    "n in xs", "n not in xs", "any(x > n for x in xs)", "all(x >= 0 for x in xs)", "[x for x in xs if x % 2]", "[x * x for x in xs]", "{x: x % 3 for x in xs}", "{x % 3 for x in xs}", "sorted({x % 3 for x in xs})", "[i for i, x in enumerate(xs) if x > n]", "[a + b for a, b in zip(xs, w)]",
    "tuple(xs)", "list(tuple(xs))", "(n, m) == (n, m)", "(n, m) < (m, n)", "xs == list(xs)", "xs != xs[::-1]", "n == m or n > m", "n and m", "n or m", "not n", "n if n > m else m", "(n > m) + (n < m)", "1 if xs else 0", "0 if [] else 1", "len([]) == 0",
    "sum(b << i for i, b in enumerate(w))", "sum(b << i for i, b in enumerate(reversed(w)))", "int(''.join(str(b) for b in w), 2)", "w[::-1]", "[1 - b for b in w]", "[a ^ b for a, b in zip(w, w[1:] + w[:1])]", "sum(w) % 2", "w.count(1)", "[w[i] for i in range(len(w)) if i % 2 == 0]",
    "math.log2(2 ** (n % 7))", "int(math.log2(2 ** (n % 7)))", "math.ceil(n / m)", "math.floor(n / m)", "math.sqrt(n * n)", "math.comb(6, n % 6)", "math.pi > 3", "math.gcd(n, m)", "(n + m - 1) // m", "-(-n // m)", "n * (n + 1) // 2", "(1 << m) - 1", "n & ((1 << 3) - 1)", "(n >> 1) ^ n",
]


def rnd_tensor(rng: random.Random, shape):
    n = 1
    for s in shape:
        n *= s
    vals = [rng.choice([-2, -1, 0, 0, 1, 1, 2, 3]) for _ in range(n)]
    return torch.tensor(vals, dtype=torch.float32).reshape(shape)


def norm(v):
    """Common form of a torch value and a Folder value: nested lists of floats / python scalars."""
    if isinstance(v, torch.Tensor):
        return norm(v.tolist())
    if isinstance(v, torch.Size):
        return [int(x) for x in v]
    if isinstance(v, (list, tuple)):
        return [norm(x) for x in v]
    if isinstance(v, bool):
        return float(v)
    if isinstance(v, (int, float)):
        return float(v)
    return v


def same(a, b) -> bool:
    if isinstance(a, list) and isinstance(b, list):
        return len(a) == len(b) and all(same(x, y) for x, y in zip(a, b))
    if isinstance(a, float) and isinstance(b, float):
        if a == b:
            return True
        return abs(a - b) <= 1e-5 * max(1.0, abs(a), abs(b)) or (a != a and b != b)
    return a == b


def main() -> int:
    rng = random.Random(20261003)
    shapes = [(3,), (4,), (2, 3), (3, 2), (1, 4), (2, 2, 3), (3, 1, 2), (2, 3, 2), (2, 2, 2, 2)]
    agree = refused = torch_err = 0
    bad = []
    cases = []
    for tpl in UNARY:
        for shp in shapes:
            dims = sorted({-1, 0, len(shp) - 1, 1 if len(shp) > 1 else 0, -2 if len(shp) > 1 else -1}) if "{d}" in tpl else [None]
            for d in dims:
                cases.append((tpl.format(d=d) if d is not None else tpl, {"t": rnd_tensor(rng, shp)}))
    for tpl in BINARY:
        for shp in shapes:
            cases.append((tpl, {"a": rnd_tensor(rng, shp), "b": rnd_tensor(rng, shp)}))
    for src, tens in cases:
        node = ast.parse(src, mode="eval").body
        try:
            want = eval(compile(ast.Expression(node), "<t>", "eval"), {"torch": torch, "len": len, "reversed": reversed, "range": range}, dict(tens))
        except Exception:
            torch_err += 1
            want = None
        try:
            got = Folder({k: v.tolist() for k, v in tens.items()}, {}).fold(node)
        except Unfoldable:
            refused += 1
            continue
        except Exception as exc:  # a crash of the evaluator is a defect of the machinery too
            bad.append((src, {k: v.tolist() for k, v in tens.items()}, f"CRASH {type(exc).__name__}: {exc}", None))
            continue
        if want is None:
            bad.append((src, {k: v.tolist() for k, v in tens.items()}, f"torch raises, evaluator gives {got!r}", None))
            continue
        if same(norm(got), norm(want)):
            agree += 1
        else:
            bad.append((src, {k: v.tolist() for k, v in tens.items()}, norm(got), norm(want)))
    from kvstatic.frag import FragReturn, run_fragment

    fcases = 0
    for src in FRAGMENTS + FRAGMENTS_ANY:
        for rep_ in range(6 if src in FRAGMENTS_ANY else 4):
            t = rnd_tensor(rng, (2, 3) if src in FRAGMENTS else [(4,), (2, 3), (2, 2, 2)][rep_ % 3])
            fcases += 1
            tree = ast.parse(src)
            g = {"torch": torch, "t": t.clone()}
            loc = g  # one namespace: functions defined in the fragment see its other names, as inside a function body
            try:
                exec(compile(tree, "<f>", "exec"), g)
                want = loc["r"]
            except Exception:
                torch_err += 1
                want = None
            try:
                env = run_fragment(tree.body, {"t": t.tolist()}, {}, materialise=True, max_steps=20000)
                if "r" not in env:  # an assignment the evaluator cannot follow unbinds its target: no value, no verdict
                    refused += 1
                    continue
                got = env["r"]
            except Unfoldable:
                refused += 1
                continue
            except Exception as exc:
                bad.append((src, {"t": t.tolist()}, f"CRASH {type(exc).__name__}: {exc}", None))
                continue
            if want is None:
                bad.append((src, {"t": t.tolist()}, f"torch raises, evaluator gives {got!r}", None))
            elif same(norm(got), norm(want)):
                agree += 1
            else:
                bad.append((src, {"t": t.tolist()}, norm(got), norm(want)))
    import math

    pcases = 0
    for src in PY_TEMPLATES:
        for _ in range(6):
            env = {"n": rng.randint(0, 40), "m": rng.randint(1, 7), "xs": [rng.randint(0, 9) for _ in range(rng.randint(3, 6))], "w": [rng.randint(0, 1) for _ in range(5)]}
            pcases += 1
            node = ast.parse(src, mode="eval").body
            try:
                want = eval(compile(ast.Expression(node), "<p>", "eval"), dict({"math": math}, **{k: (list(v) if isinstance(v, list) else v) for k, v in env.items()}))
                raised = False
            except Exception:
                torch_err += 1
                want, raised = None, True
            try:
                got = Folder({k: (PySeq(v) if isinstance(v, list) else v) for k, v in env.items()}, {}).fold(node)
            except Unfoldable:
                refused += 1
                continue
            except Exception as exc:
                bad.append((src, env, f"CRASH {type(exc).__name__}: {exc}", None))
                continue
            if raised:
                bad.append((src, env, f"python raises, evaluator gives {got!r}", None))
                continue
            if want is None or got is None:
                if want is got:
                    agree += 1
                else:
                    bad.append((src, env, got, want))
                continue
            w_, g_ = want, got
            if isinstance(w_, (set, frozenset)):
                w_, g_ = sorted(w_), sorted(g_) if isinstance(g_, (set, frozenset, list)) else g_
            if isinstance(w_, dict):
                w_, g_ = sorted(w_.items()), sorted(g_.items()) if isinstance(g_, dict) else g_
            if isinstance(w_, str) or isinstance(g_, str):
                ok_ = w_ == g_
            elif isinstance(w_, bool) and isinstance(g_, (bool, int)):
                ok_ = bool(w_) == bool(g_)
            else:
                ok_ = same(norm(g_), norm(w_))
            if ok_:
                agree += 1
            else:
                bad.append((src, env, g_, w_))
    cases = cases + [None] * (fcases + pcases)
    print(f"evaluator difftest: {len(cases)} cases, {agree} agree with torch, {refused} refused (Unfoldable), {torch_err} rejected by torch, {len(bad)} DISAGREE")
    seen = set()
    for src, tens, got, want in bad:
        key = (src.split("(")[0], str(got)[:20])
        if src in seen:
            continue
        seen.add(src)
        print(f"  DISAGREE {src}  on {tens}\n     evaluator: {got}\n     torch:     {want}")
    return 1 if bad else 0


if __name__ == "__main__":
    sys.exit(main())
