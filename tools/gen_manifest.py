#!/venv/bin/python
"""Writes /verif/MANIFEST.json from the table below (single source of truth for the claims)."""
import json
import os
import sys

HERE = os.path.dirname(os.path.dirname(os.path.abspath(__file__)))

CLAIMS = {
    # id: (technique, level text, level note, design ref)
    "C18": (
        "AST table extraction + own GF(2)[x] arithmetic; closed-form (skeleton/leaf) matching; special-case lint",
        "Static analysis of algebra.py: every tabulated field modulus literal is decided primitive of its degree by the checker's own bitmask arithmetic; the designated primitive element is a unit in every tabulated field; the operators carrying the field/ring laws match reasoned closed forms; no value-keyed special cases. Decides these structural necessary conditions, not the ring/field laws as value identities. evaluate, lcm, trace, conjugates and minimal_polynomial are tabulated with own field arithmetic over GF(4)..GF(64).",
        "Trusted: CPython ast, the checker's gf2.py (cross-checked in the self-test), the reference closed forms listed in props/c18.py. Unknown code shapes give exit 2 (no verdict), never a VIOLATION.",
        "DESIGN.md §2 C18",
    ),
}

CLAIMS["C15"] = (
    "polarity abstract interpretation (monotonicity lattice per seed, sign domain, constellation-idiom tags) over every registered soft demodulator and every LLR consumer; lint: mode tests of an unconverted input type against str-Enum members are by value, not identity",
    "Whole-repository LLR-polarity convention check: the soft branch of every registered demodulator is interpreted abstractly (helpers in context) and its LLR must be decreasing in the distance to the bit-0 points and increasing in the distance to the bit-1 points (closed forms: increasing in the amplitude that carries bit 0); every LLR-mode thresholder path, sign_to_bin/llr_to_bits and every sign-decision site in the soft decoders must be decreasing in the LLR. The domain abstracts the input away, so agreement is decided for all inputs at once. Decides the polarity convention (a necessary condition), not numerical LLR values. exp(t) / (c + exp(t)) quotients with unclamped t are reported (NaN inside the stated LLR range).",
    "Trusted: the transfer functions of polarity.py for the torch operations met, the positive-parameter table (noise_var, confidence_scaling, weights, normalisation), idioms frozen in DESIGN.md §1.2 (scalar statistic = constant; masked literal stores; vote count == len). Unknown operations reaching an obligation give exit 2, never a VIOLATION.",
    "DESIGN.md §2 C15",
)

CLAIMS["C17"] = (
    "loop-shape recognisers, stage-provenance abstract interpretation (term domain; accumulation loops read as the sum of the stacked list, loops over literal attribute-name tuples unrolled), alias rule (no in-place update of a stage output through a second name), order-taint of completion-ordered containers, first-match-returns",
    "Order/typestate analysis of every pipeline model: sequential containers must be the exact threaded loop over the declared list with arguments forwarded; DeepJSCC/channel-code stage lists are checked by parameter identity; for the multiple-access, Wyner-Ziv and feedback models an abstract interpreter over stage terms computes through which components the result passed and compares it with the declared composition (each stage once, in order, superposition before one constraint and one channel use, exactly max_iterations rounds); in the parallel model a container filled in as_completed() order may reach the aggregator/return only after being rebuilt in declared order; the branching model returns inside the first true condition in registration order. Schedules and inputs do not occur in the argument, so it covers all of them; user callables are not analysed. add_step must append on every non-raising path.",
    "Trusted: provenance.py's treatment of calls (stage attributes/lists named in props/c17.py), dict insertion order and list order semantics of CPython, concurrent.futures.as_completed yielding in completion order. Unknown loop shapes -> exit 2.",
    "DESIGN.md §2 C17",
)

CLAIMS["C16"] = (
    "accumulator typestate (attribute effect analysis) + sibling agreement by free-term abstract interpretation (forward vs update vs benchmark helpers)",
    "For BitErrorRate and BlockErrorRate (and the SER/FER aliases): the registered integer buffers are advanced in update() only by += of per-batch quantities that read no accumulator, reset() zeroes exactly those buffers, compute() is errors/max(total,1), forward() writes no state; the per-batch error count and total derived from update() by a free-term abstract interpreter equal those derived from forward() (real and complex branches), and the count is symmetric in its arguments; BLER blocks come from one reshape helper that raises on non-divisible sizes and uses any() over the block axis; the benchmark helpers have the closed forms count(!=)/numel and any-per-block/blocks. This decides partition/order independence and streaming = one-shot structurally (for every history), not float rounding. compute() in an unlisted spelling and the benchmark helpers are evaluated on accumulator states / word pairs.",
    "Trusted: terms.py normalisation (casts erased, commutative operands sorted, |a-b| symmetric), torch semantics of sum/any/numel/zero_. Unknown shapes -> exit 2.",
    "DESIGN.md §2 C16",
)

CLAIMS["C07"] = (
    "scaling-law abstract interpretation (exact monomial domain with signal/deterministic/random kinds and variance tracking) + closed-form match of the Laplace sampler",
    "The noise-adding paths (_apply_noise, AWGN, Laplacian in its three parameterisations, nonlinear-with-noise, the noise stage of flat fading, add_noise_for_snr) are interpreted over an exact monomial domain for real and complex inputs; the derived law must be output = 1*x + zero-mean noise with total variance P (complex: Var re + Var im), resp. mean|x|^2/10^(snr_db/10) through snr_to_noise_power/snr_db_to_linear analysed in context; caller-supplied noise must be added verbatim; every dB conversion of utils/snr.py, the SNR metric and the benchmark helper must be 10*log10(signal power/noise power). The algebra is exact and parametric, so it holds for all powers, SNRs and shapes. Distribution shape, independence and finite-sample statistics are not decided.",
    "Trusted: scaling.py transfer functions (randn has unit variance; the unit Laplace sampler has variance 2, its form is matched separately; +eps with literal eps<=1e-6 is the identity), torch.mean/sum/abs semantics.",
    "DESIGN.md §2 C07",
)

CLAIMS["C08"] = (
    "scaling-law abstract interpretation (monomial domain, reduced-axes and cross-batch tracking; variance as a statistic of its own) + constructor-alias and result-dtype lints + closed forms + preservation-table ordering check of the factory composites",
    "Total/average/per-antenna power constraints: the result is derived to be x*s with s>0 deterministic and s^2*current power = target exactly (literal eps<=1e-6 is the identity), with the current power reduced per item (per antenna) and no statistic across the batch in the factor; the zero-signal substitute has the target power; batched and single-item branches obey the same law. Peak amplitude: every return is the symmetric clamp. PAPR: clipping stores keep the direction v/(|v|+eps); one final clip outside the loop on every path with bound^2 = avg_power*max_papr*c, c<=1. Composites: sequential loop; for every configuration of the OFDM/MIMO factories the derived stage order is checked against a reasoned preservation table. These are necessary structural conditions for all inputs; convergence of iterative clipping and numeric tolerances are not decided. The PAPR projection is evaluated (own arithmetic) on dense real / complex / 2-D signals for limits 1.1 .. 4: output PAPR <= limit, every sample scaled by a real factor in [0, 1], the map commutes with rescaling the input, every branch and loop body entered; the structural PAPR rules are the fallback.",
    "Trusted: scaling.py transfer functions, the preservation table in props/c08.py (each entry reasoned), torch reshape/sum/mean/clamp semantics. Findings recorded in known_findings.json (factory orderings pinned by the suite or not repairable by ordering).",
    "DESIGN.md §2 C08",
)

CLAIMS["C12"] = (
    "draw-precision lint on every rand_like of the binary channels, chunk-cover lint on blocked loops of the channels and their helpers; own-arithmetic evaluation of two-block histories (single-symbol blocks, integer-typed bits) with module helpers followed, structural dataflow rules (Bernoulli idiom, masked stores), finite truth-table evaluation of the {0,1}/{-1,+1} maps, may-alias/effect analysis",
    "Binary symmetric / erasure / Z channels: every flip/erase indicator is `U < p` with U from rand/rand_like and p the configured, validated probability (strictness and direction checked, so p = 0 is the identity and p = 1 the extreme); the BSC output expression has the XOR truth table over {0,1}^2; Z-channel stores are masked by x == 1 and write where(event, 0, old); BEC stores only the erasure symbol under the erase mask into a clone; the bipolar conversions map -1/+1 to 0/1 and back under one flag; an alias/effect analysis shows no write reaches storage shared with the input. Decides the support/transition structure for every input; rates and independence are statistics and are not decided. Since seed round 6 the transition clause is decided first by evaluating forward (own arithmetic, class helpers followed, constructor attributes carried from call to call) on two-block histories - {0,1} and -1/+1 blocks in every order on one object, p = 0, 0.5, 1, fixed table of uniform draws, both exact spellings U < p / U >= 1 - p; the spelling rules are the fallback.",
    "Trusted: torch.rand* samples lie in [0,1); clone()/arithmetic allocate, float()/view/indexing may alias; closed forms listed in props/c12.py.",
    "DESIGN.md §2 C12",
)

CLAIMS["C13"] = (
    "scaling-law abstract interpretation with opaque atoms (gain normalisation), closed forms (block structure), free-term interpretation of forward()",
    "FlatFadingChannel: the coefficient generator is interpreted over the monomial domain - Rayleigh total variance 1; Rician |LOS|^2*(K+1) = K and Var(scatter)*(K+1) = 1 (unit mean-square gain, LOS/scatter = K for every K); ceil(L/T) blocks, draws of shape (batch, blocks), expansion index arange(L)//T per batch row; forward() is derived as a term: with csi and noise supplied exactly csi*x + noise with the input's shape restored on the 1-D, 2-D and >2-D paths, otherwise h = expand(generate(...)); the noise stage follows the C07 law calibrated on the faded signal. Structural/algebraic necessary conditions for all K, T, L and shapes; independence and gain statistics are not decided. The FORWARD clause is decided first by evaluating forward on eight successive calls of different ranks on one object (supplied and generated channel state); the free-term rule is the fallback.",
    "Trusted: scaling.py / terms.py transfer functions, randn unit variance, torch integer floor-division semantics.",
    "DESIGN.md §2 C13",
)

CLAIMS["C06"] = (
    "polarity abstract interpretation (LLR sign, nearest-point reductions and argmin sites), homogeneity-degree interpretation (LLR scale), branch read-set agreement, special-case lint",
    "For every registered demodulator: the soft output is decreasing in the distance to the bit-0 subset and increasing in the distance to the bit-1 subset with nearest-point reductions (closed forms: matching the modulator's amplitude map); it has homogeneity degree -1 in the noise variance (scalar or per-symbol) and degree 2 in distance where derivable; every hard-branch argmin/argmax site is the argmin of a monotone distance to the whole constellation (or the matching sign decision); hard and soft branches read the same constellation and label table; no device/value-keyed perturbation of the metric. These conditions are necessary for 'nearest point' and 'correctly signed, 1/noise_var-scaled LLR' on every input; the numerical max-log value and ties are not decided. The pi/4-QPSK soft branch is tabulated noise-free on alternating sequences; a soft minimum (logsumexp) over the candidate points is reported as log-MAP instead of max-log.",
    "Trusted: polarity.py / degree.py transfer functions; idioms: circular phase distance abs((a-b+pi)%2pi-pi), literal regularisers <= 1e-6.",
    "DESIGN.md §2 C06",
)

CLAIMS["C14"] = (
    "QAM constructor evaluated with all Gray helpers of the utilities followed; constant folding of literal tables + own validators (bijection, energy, nearest-neighbour Gray adjacency); geometry of the evaluated PSK / DPSK / PAM tables (distinct, equally spaced); recognition of label generator / position permutation of generated tables with own arithmetic over all orders; closed forms",
    "Literal constellations (BPSK, QPSK, OQPSK, pi/4-QPSK in both rotations and labellings, with and without normalisation) are extracted from the syntax tree by constant folding and validated by the checker: 2^b distinct points, labels a bijection, unit average energy, one-bit difference between all nearest neighbours where Gray labelling is promised, and a common pi/4 rotation between the two pi/4-QPSK constellations. For PSK/DPSK/PAM/QAM the label generator and the position permutation are recognised from the construction code and their composition is decided to be bijective and Gray along physical neighbours for every supported order. Normalisation must be division by sqrt(mean|c|^2) on every configuration path; the Gray utilities must have the closed forms valid for all non-negative integers (bounded log-step variants rejected), array forms elementwise. Decides the tables for all orders/options, exactly; custom user constellations are not covered.",
    "Trusted: constfold.py (own evaluation of literal arithmetic), the recognisers of the construction loops (unknown shapes -> exit 2).",
    "DESIGN.md §2 C14",
)

CLAIMS["C01"] = (
    "whole-function own-arithmetic evaluation of encode / syndrome / LDPC generator (parity-check matrices with dependent rows), argument-mutation lint on the information-set helper, closed-form / operand analysis of the encode and syndrome forms, MRO enumeration of overrides, verified-return (must-pass-through) rule on the null-space helpers, index-set def-use agreement, dead-branch (T-str) and special-case lint, information-set dependence",
    "Decides structural necessary conditions of 'encoder, G and H describe one code': forward() multiplies each block by the published generator_matrix mod 2 (right operand, no transpose, block size k) and calculate_syndrome by check_matrix transposed (block size n); every subclass override is enumerated through the MRO and must be an analysed conforming form; the systematic generator and the systematic forward() use one index computation (scatter to information/parity sets; gather-with-the-forward-permutation and value-keyed shortcuts are violations); check-matrix overrides lay I on the parity set and P^T on the information set and contain no tensor==string dead branch; every return of compute_null_space_matrix is an exact GF(2) elimination result or a verified object, never a constant fallback; the LDPC generator is cut at the rank; no class re-registers matrices that ignore its information set. Rank/null-space equality as numbers is not decided. The buffers describing one code (generator and check matrix; for C04 generator and right inverse) must share one persistence.",
    "Trusted: the recognisers in props/c01.py and fecrules.py (unknown shapes -> exit 2), torch matmul/indexing semantics.",
    "DESIGN.md §2 C01",
)
CLAIMS["C04"] = (
    "whole-function own-arithmetic evaluation of the Reed-Muller inverse on RM(1,3) and RM(2,4); whole-function own-arithmetic evaluation of inverse_encode (three codes, one with a dependent parity-check row; 1-D to 3-D layouts; invalid length), verified-return rule on the right-inverse helper, operand analysis of inverse_encode (fallback), block-reshape rules (apply_blockwise and the Hamming / Reed-Muller overrides)",
    "Decides structural necessary conditions of 'inverse(encode(m)) = m': every return of compute_right_pseudo_inverse is exact (identity-prefix selection under its own test, GF(2) elimination result with rank check) or verified on the returned object - rounded real pseudo-inverses, shape-keyed constants and fallbacks are violations; systematic encoders register the selection matrix of their information set after the parent constructor; inverse_encode multiplies blocks of n by generator_right_inverse mod 2 and returns the syndrome of the same input; extract_message and project_word delegate / select per block; apply_blockwise asserts divisibility, views (*lead, L//b, b) and flattens back to (*lead, -1); the Hamming and Reed-Muller inverse overrides keep (-1, n) rows and (*lead, -1) results and validate the length. The round trip as a value identity for arbitrary G is not decided.",
    "Trusted: recognisers in props/c04.py (unknown shapes -> exit 2).",
    "DESIGN.md §2 C04",
)

CLAIMS["C03"] = (
    "own-arithmetic evaluation of the cyclic polynomial encoder and the enumerated distance in both generator layouts, literal table extraction + own GF(2) arithmetic (codeword enumeration, polynomial division, cyclotomic cosets), closed-form matching of advertised formulas, def-use dependence of the extension column, layout (degree) reasoning for the cyclic parity slice",
    "Constants and formulas behind the advertised (n, k, d): the literal Golay parity submatrix is enumerated by the checker (d = 7, perfect, weight enumerator; extension column evaluated from the source expression gives d = 8) and compared with the advertised values; every tabulated cyclic / BCH / RS standard code is validated against its name (divisibility of X^n+1, n - deg g = k, textbook distance, cyclotomic-coset dimension, Bose distance); the advertised closed forms of Hamming, Reed-Muller, repetition, SPC, BCH and code_rate are matched; the extension column must depend on the row sums; Hamming parity rows enumerate all weight>=2 tuples; the cyclic parity slice is the parity columns [0, n-k) of the systematic generator for every information set; no distance method may advertise an upper bound. True distances of constructed (non-tabulated) codes are not decided. The Reed-Muller generator is evaluated for every 0 <= r < m <= 5 (rank and span of the monomials of degree <= r), BinaryPolynomial.lcm is tabulated.",
    "Trusted: gf2.py (cross-checked against known codes in the self-test), recognisers of the construction code (unknown shapes -> exit 2).",
    "DESIGN.md §2 C03",
)

CLAIMS["C02"] = (
    "early-exit lint of complete searches against the unique-decoding radius, Reed-Muller inverse evaluated as a whole (RM(1,3), RM(2,4)); narrow-integer-dtype lint on the message enumeration, special-case lint with input/row-index taint, loop-bound and insertion-guard recognisers (coset-leader minimality), closed forms of the ML decision and of the Berlekamp-Massey / Chien / Hamming steps",
    "Structural necessary conditions of 'hard-decision decoders correct <= t errors / complete decoders are ML': no decoder or encoder inverse branches on equality of the syndrome, the received length, the field size or the batch row index with a literal (row index only as subscript); the syndrome table is built by ascending weight over exhaustive supports with first-come insertion from the decoder's own encoder, corrections XOR the leader and messages are extracted by the encoder; the brute-force decoder enumerates all 2^k messages through the encoder and takes the argmin Hamming distance with message and codeword at the same index; Berlekamp-Massey takes t and the field from the encoder, evaluates S_1..S_2t, searches all n positions and flips exactly the located bits; the Hamming inverse locates the check-matrix column equal to the syndrome. Whether the algebraic algorithms actually correct every pattern of weight <= t is behaviour over field values and is not decided (the Reed-Muller majority decoder is a placeholder). The syndrome-lookup decoder's forward is evaluated on every codeword of the (7,4) Hamming code with 0 / 1 flipped bit, the Berlekamp-Massey decoder's forward over GF(16) on codewords of the (15,7) BCH code with 0, 1, 2 flipped bits, the error-pattern generator for n = 4..6 and every weight.",
    "Trusted: recognisers in props/c02.py (unknown shapes -> exit 2).",
    "DESIGN.md §2 C02",
)

CLAIMS["C11"] = (
    "sibling-agreement evaluation of the stage table shared between encoder and BP decoder (MASK-LAYOUT); table validation against an independent copy of the 5G reliability sequence (+ permutation / dominance), closed forms and truth tables of the SC f/g/partial-sum functions, frozen-value selector agreement (sibling rule + polarity engine) and boolean typing of the frozen-position mask",
    "Polar codes: kernel literal and number of Kronecker steps; the reliability table file is parsed by the checker and must be a permutation of 0..1023, respect bitwise-subset dominance and equal the TS 38.212 sequence entry by entry; the frozen set is the first N-k ranked positions below N and user masks are validated; encoder, SC leaf and polar-BP initialisation agree on the frozen value (BP: +clip for a frozen 0, by the library's LLR polarity); the SC recursion has the textbook shape (f by regime, g = y2 + (1-2x) y1 un-saturated, partial sums (x1 xor x2, x2), consistent half / even-odd splits, helper closed forms). The encoder's transform is tabulated (own arithmetic) on every unit vector for N = 2..32 against u F^(x)m, columns bit-reversed for the interleaved variant, and the per-block encoder on every message for N = 4, 8 (both frozen values, both variants); the polar BP decoder keeps the answers of words that passed the stop criterion outside the re-initialised graph. SC decisions as values for arbitrary LLRs and BP convergence are not decided.",
    "Trusted: /verif/fixtures/ts38212_polar_sequence.txt (an independent copy of TS 38.212 Table 5.3.1.2-1; it agrees entry by entry with the repository's table on the pinned tree), recognisers in props/c11.py.",
    "DESIGN.md §2 C11",
)

CLAIMS["C20"] = (
    "may-alias / effect analysis, row-index taint, batch-coupling rule (also a per-word quantity against its own whole-tensor reduction), cache-key completeness (def-use dependence through the class's own methods), read-before-write state analysis, list-subscript rule, sibling agreement of zero-signal tests",
    "Over every encoder, decoder, modulator, demodulator and constraint class (enumerated through the MRO, floor 45): forward / inverse_encode / calculate_syndrome never write through a value that may share storage with an input (including noise_var); the batch row index is used only as a subscript; a decoder's iteration loop is not cut short by a whole-batch reduction unless updates are row-masked; every store into a module-, class- or instance-level cache is keyed by everything the cached value depends on (instance configuration / mutable state, through the class's helper methods); stateless components carry no value from one call to the next; tensors are not subscripted by coordinate lists; the batched and single-item branches of the power constraints select the zero-signal path by the same quantity. These are necessary conditions of 'batch result = stack of single results, repeatable, input unmodified'; value equality itself is not decided.",
    "Trusted: effects.py aliasing table (float()/to()/view/indexing/as_tensor may alias; clone/arithmetic allocate), the allow-lists in props/c20.py (each with its reason).",
    "DESIGN.md §2 C20",
)

CLAIMS["C19"] = (
    "view-of-input lint + gradient-flow abstract interpretation (autograd-connectivity lattice D/K/M/B with severing-site provenance, saved-tensor / in-place version analysis, interprocedural over repo helpers) + conv/transposed-conv layer arithmetic from constructor literals + grid evaluation of the filter-count formula",
    "Every analog channel (AWGN, Laplacian, phase noise, flat/Rayleigh/Rician/log-normal fading, nonlinear), every power constraint (total, average, PAPR, per-antenna), the AF module and the sequential forward are interpreted over a lattice that tracks whether a value is connected to the signal parameter by an unbroken autograd graph: every returned value must be connected (no .item()/.detach()/.data/float()/torch.tensor()/numpy/no_grad on the signal path, not piecewise constant), and no tensor that an op on the path saved for backward - nor the caller's input - may be modified in place afterwards (ordering by evaluation sequence, exclusive branches excluded). DeepJSCCModel's stage list is [encoder, constraint, channel, decoder] by parameter identity. The bundled image encoders/decoders are checked layer by layer from constructor literals: stride-2 convs halve every even size, transposed convs double it, stride-1 layers preserve it, encoder down-steps equal decoder up-steps, plain chains agree on channels, documented [0,1] decoders end in Sigmoid; the filter-count helper equals channels*4^layers*ratio(*2 complex) on a 64-point grid. Decides these structural necessary conditions, not gradient values or non-vanishing.",
    "Trusted: the saved-tensor table of gradflow.py (which torch ops keep their input / result for backward), differentiability of torch ops not listed as severing or piecewise constant, of user-supplied nonlinear functions and of compressai blocks (summarised by their stride/upsample arguments). Unknown layer types or non-literal geometry -> exit 2.",
    "DESIGN.md §2 C19",
)

CLAIMS["C10"] = (
    "end-to-end own-arithmetic evaluation of the belief-propagation decoder on cycle-free graphs against the flooding schedule and the brute-force posterior, own-arithmetic evaluation of the sum-product and min-sum check updates on three Tanner graphs (tables computed by the checker; exact and series arctanh; a zeros row), structural typestate of the Tanner-graph bookkeeping (join-last-group rule), closed-form matching with own-arithmetic evaluation of each update on literal points, tensor-rank inference (extrinsic axis reduced, never flattened), homogeneity-degree abstract interpretation (no saturation on the min-sum / Wagner decision paths), list-subscript lint",
    "Belief propagation, min-sum, Wagner and soft Reed-Muller decoders: degree groups in prep_edge_ind are runs of consecutive nodes (a node joins only the last group, the group key is the previous node's degree), so per-group messages concatenate in the node order that edge_order/cv_order assume; extrinsic sets are all (deg-1)-subsets of a node's edges, row-aligned by the flip; vc = posterior - cv, tanh(vc/2), product over the extrinsic axis, 2*atanh, marginal = channel LLR + incoming messages (schedule vc -> cv -> marginalise(channel input)), message bits at the weight-1 columns of G; min-sum = prod(sign)*min(abs) reduced over the extrinsic axis with rank-2 per-group results (rank inference), scaling/offset only under their configuration guards; min-sum messages are homogeneous of degree 1 inside the family's declared clipping range and nothing saturates the Wagner decision path; Wagner = sign decisions, even-parity test, flip of argmin|llr| of the failing block, first k positions; RM soft = per-group parity, minimum reliability, reliability-weighted vote. Decides these structural conditions, not marginals/ML optimality as values. The Tanner-graph tables of prep_edge_ind are tabulated on four parity-check matrices against their definitions, soft Reed-Muller decoding is evaluated on real words with checker-chosen partitions.",
    "Trusted: itertools.combinations order (lexicographic), torch gather/min/prod/flip semantics as summarised in props/c10.py, the checker's constant folder for the literal-point evaluations. Unknown shapes -> exit 2.",
    "DESIGN.md §2 C10",
)

CLAIMS["C05"] = (
    "table-index provenance rules per registered modulator/demodulator pair (search / inverse-map / natural-binary idioms), tabulation of the bit-group -> index kernel for all 2^b groups with the checker's own arithmetic (fragment evaluator over the syntax tree), constant folding of literal label tables, sign-composition on {0,1}, typestate of the memory buffers, enumeration of guards on valid bit inputs",
    "For the 11 registered pairs: the modulator's bit group -> point index map and the demodulator's nearest index -> bits map go through the same point table and label table by the same index (QAM/PAM search idiom), or through a map built as the inverse of the label table (PSK), or through the natural-binary integer with a label table whose row i is binary(i) in every configuration (QPSK, DPSK, pi/4-QPSK); the integer kernel is MSB-first for all 2^b groups; a block-wise nearest-point search must cover every symbol; BPSK/OQPSK amplitude and sign test compose to the identity; bits are grouped by log2(order) behind a divisibility error and the reference modulator receives the demodulator's own parameters; state is written only in training mode, reset_state restores the registered initial value, DPSK encodes y[i]=y[i-1]*shift and detects y[1:]*conj(y[:-1]), OQPSK delays only the quadrature rail, pi/4-QPSK alternates identically on both sides; every hard-branch return is a bit tensor; no valid bit input (all 1-2 symbol inputs, 1-D and batched) reaches a path that re-reads the argument as symbol indices. Three recorded findings (DPSK Gray index, pi/4-QPSK 1-D index output and short 1-D inputs read as indices) are pinned by the test suite. The forward methods of the PSK / QPSK / OQPSK / DPSK / pi/4-QPSK modulators and of the pi/4-QPSK demodulator are evaluated as wholes (bit blocks of rank 1-3, both states, training and evaluation mode) where the kernel spellings are not the listed ones.",
    "Trusted: constfold/frag evaluation of the index kernels and guards (no repository code runs), C14's label-generator recogniser, torch argmin / advanced indexing semantics. Nearest-point arithmetic is C06's, table bijectivity C14's. Unknown shapes -> exit 2.",
    "DESIGN.md §2 C05",
)

NOT_APPLICABLE = {
    "C09": "conjunction at run time of C02/C05/C06/C10/C11/C15 over component pairings and adversarial channels; its structural preconditions (stage order, LLR polarity, label agreement, block framing) are decided under C17, C15, C05, C20 - no additional clause is visible in the shape of the code (DESIGN.md §2 C09)",
}

PENDING_REASON = "not claimed yet: the static rules for this property are still under construction in this session (the check is fail-closed: ./check {id} exits 2 'no rule armed'); see DESIGN.md §2 {id} for the planned clauses"


def main():
    props = [json.loads(l)["id"] for l in open(os.path.join(HERE, "properties.jsonl")) if l.strip()]
    checks = []
    na = []
    for pid in props:
        if pid in CLAIMS:
            tech, text, note, ref = CLAIMS[pid]
            checks.append(
                {
                    "property_id": pid,
                    "quick_cmd": f"./check {pid} --tier quick",
                    "thorough_cmd": f"./check {pid} --tier thorough",
                    "evidence_file": f"/verif/evidence/{pid}.json",
                    "replay_cmd_template": f"./check {pid} --replay {{path}}",
                    "engine": "kvstatic",
                    "level_claimed": {"category": "other", "text": text, "design_ref": ref},
                    "level_note": note,
                    "technique": "static analysis: " + tech,
                }
            )
        else:
            na.append({"property_id": pid, "reason": NOT_APPLICABLE.get(pid, PENDING_REASON.format(id=pid))})
    man = {
        "version": 1,
        "setup_cmd": "/venv/bin/python -m compileall -q kvstatic >/dev/null 2>&1; /venv/bin/python -c \"import ast, json, networkx\"",
        "hooks": {
            "guard": "IPC_LAB_KAIRA_VERIF",
            "enable": "no hooks: the checks parse /repo's working tree and never import or run it; the guard variable is unused",
            "baseline_off_cmd": "cd /repo && /venv/bin/python -m pytest -ra -q -p no:cacheprovider --timeout=900 --continue-on-collection-errors",
            "source_commits": [],
            "add_only": True,
        },
        "engines": [
            {
                "name": "kvstatic",
                "path": "/verif/kvstatic",
                "serves_properties": sorted(CLAIMS),
                "kind_free_text": "repository-specific static analysis over Python ast: repository model (MRO, imports), abstract interpreters (polarity, scaling law, gradient taint, alias/effect), closed-form matcher, table validators with the checker's own GF(2) arithmetic, special-case lint",
            }
        ],
        "checks": checks,
        "not_applicable": na,
        "notes": "Technique family: static analysis only. ./check <ID> exits 0 (held / KNOWN-FINDING lines), 1 (VIOLATION line + replay file) or 2 (ANALYSIS-ERROR: unknown idiom, vanished anchor, instance floor not met - no verdict). Known findings: /verif/known_findings.json.",
    }
    with open(os.path.join(HERE, "MANIFEST.json"), "w") as fh:
        json.dump(man, fh, indent=1)
    print(f"claimed={len(checks)} not_applicable={len(na)}")


if __name__ == "__main__":
    main()
