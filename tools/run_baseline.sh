#!/bin/sh
# Runs the repository's test suite (guard off - there are no hooks) and compares with BASELINE stable_pass.
# usage: tools/run_baseline.sh [junit-out]
OUT=${1:-/tmp/kv_junit.xml}
cd /repo && /venv/bin/python -m pytest -q -p no:cacheprovider -n 16 --timeout=900 --continue-on-collection-errors --junitxml="$OUT" >/tmp/kv_pytest.log 2>&1
tail -3 /tmp/kv_pytest.log
/venv/bin/python /verif/tools/compare_baseline.py "$OUT"
