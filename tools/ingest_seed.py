#!/venv/bin/python
"""Confirm a seeded change produced by a sub-agent and store it under /verif/seeded/<id>/.

usage: ingest_seed.py <PROP> <n> <out_dir_of_agent> [test paths ...]
Confirms in a scratch worktree (/tmp/scratch/verify, removed by the caller when done):
  * the patch applies to /repo HEAD, the package still byte-compiles
  * the demo exits 0 on the clean tree and 1 with the patch
  * the given test paths pass with the patch (restricted to the stable baseline tests)
then runs every claimed check against the patched tree (--root) and records the verdicts.
"""
import json
import os
import shutil
import subprocess
import sys
import xml.etree.ElementTree as ET

VER = os.environ.get("KV_VERIFY_WT", "/tmp/scratch/verify")  # several ingests may run side by side, each in its own worktree
PY = "/venv/bin/python"


def sh(cmd, cwd=None, env=None, timeout=3600):
    e = dict(os.environ)
    e.update(env or {})
    p = subprocess.run(cmd, shell=isinstance(cmd, str), cwd=cwd, env=e, stdout=subprocess.PIPE, stderr=subprocess.STDOUT, text=True, timeout=timeout)
    return p.returncode, p.stdout


def main():
    prop, n, out = sys.argv[1], sys.argv[2], sys.argv[3]
    tests = sys.argv[4:]
    store_n = n
    if ":" in n:  # "<n in the agent's directory>:<number to store under>"
        n, store_n = n.split(":")
    patch = os.path.join(out, f"change{n}.diff")
    demo = os.path.join(out, f"demo{n}.py")
    meta = os.path.join(out, f"meta{n}.json")
    for f in (patch, demo):
        if not os.path.exists(f):
            print("missing", f)
            return 2
    if not os.path.isdir(VER):
        rc, o = sh(f"git -C /repo worktree add -f --detach {VER} HEAD")
        if rc:
            print(o)
            return 2
    sh("git checkout -q --detach $(git -C /repo rev-parse HEAD) && git checkout -- . && git clean -fdq", cwd=VER)
    env = {"PYTHONPATH": VER, "PYTHONDONTWRITEBYTECODE": "1"}
    rc_clean, o_clean = sh([PY, demo], cwd=VER, env=env)
    rc, o = sh(f"git apply --check {patch} && git apply {patch}", cwd=VER)
    if rc:
        print("patch does not apply:", o)
        return 2
    rc_c, o_c = sh(f"{PY} -m compileall -q kaira", cwd=VER, env=env)
    rc_mut, o_mut = sh([PY, demo], cwd=VER, env=env)
    res = {"demo_clean_exit": rc_clean, "demo_patched_exit": rc_mut, "compiles": rc_c == 0}
    print(f"demo clean exit={rc_clean} patched exit={rc_mut} compile={rc_c}")
    if rc_clean != 0 or rc_mut == 0:
        print("DEMO NOT CONFIRMED")
        print(o_clean[-600:])
        print(o_mut[-600:])
    tests_ok = None
    if tests:
        junit = VER + "_junit.xml"
        rc_t, o_t = sh(f"{PY} -m pytest -q -p no:cacheprovider -n 8 --timeout=900 --junitxml={junit} " + " ".join(tests), cwd=VER, env=env)
        base = set(json.load(open("/root/.vp/BASELINE.json"))["stable_pass"])
        failed = []
        for tc in ET.parse(junit).iter("testcase"):
            name = f"{tc.get('classname')}::{tc.get('name')}"
            if name in base and any(c.tag in ("failure", "error") for c in tc):
                failed.append(name)
        tests_ok = not failed
        res["tests"] = {"paths": tests, "stable_failed": failed, "tail": o_t.strip().splitlines()[-1] if o_t.strip() else ""}
        print("tests:", res["tests"]["tail"], "stable failures:", failed[:5])
    # run the checks against the patched tree
    man = json.load(open("/verif/MANIFEST.json"))
    verdicts = {}
    for c in man["checks"]:
        pid = c["property_id"]
        rc_k, o_k = sh(f"./check {pid} --root {VER} --evidence-dir {VER}_ev", cwd="/verif")
        verdicts[pid] = rc_k
    res["check_exit_codes"] = verdicts
    caught = [p for p, r in verdicts.items() if r == 1]
    err = [p for p, r in verdicts.items() if r == 2]
    print("checks reporting VIOLATION:", caught, " exit2:", err)
    sh("git checkout -- . && git clean -fdq", cwd=VER)
    dst = f"/verif/seeded/{prop}-{store_n}"
    os.makedirs(dst, exist_ok=True)
    shutil.copy(patch, os.path.join(dst, "patch.diff"))
    shutil.copy(demo, os.path.join(dst, "demo.py"))
    m = {}
    if os.path.exists(meta):
        try:
            m = json.load(open(meta))
        except Exception:
            m = {"raw": open(meta).read()}
    m.update({"property": prop, "confirmed": res, "confirmed_demo": rc_clean == 0 and rc_mut != 0, "confirmed_tests": tests_ok, "caught_by": caught, "analysis_error_in": err, "what_i_ran": f"git apply patch.diff in a scratch worktree of /repo HEAD; demo.py clean/patched; pytest {' '.join(tests)}; ./check <ID> --root <worktree> for every claimed property"})
    json.dump(m, open(os.path.join(dst, "meta.json"), "w"), indent=1)
    return 0


if __name__ == "__main__":
    sys.exit(main())
