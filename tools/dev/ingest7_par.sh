#!/bin/sh
# usage: ingest7_par.sh <wt suffix> PROP...
t() { case "$1" in
 C01|C02|C03|C04|C10|C11|C18|C20) echo "tests/models/fec";;
 C05|C06|C14) echo "tests/modulations";;
 C07|C12|C13) echo "tests/channels tests/utils";;
 C08) echo "tests/constraints";;
 C15) echo "tests/models/fec/decoders tests/models/binary";;
 C16) echo "tests/metrics tests/benchmarks";;
 C17) echo "tests/models --ignore=tests/models/fec";;
 C19) echo "tests/constraints tests/channels tests/utils";;
 esac; }
S=$1; shift
export KV_VERIFY_WT=/tmp/scratch/verify$S
for P in "$@"; do /tmp/scratch/ingest7.sh $P $(t $P); done
