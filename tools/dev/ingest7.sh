#!/bin/sh
# usage: ingest6.sh PROP tests...   (ingests change1/2 of /tmp/scratch/w12_PROP/_out as PROP-13 / PROP-14)
cd /verif
P=$1; shift
for i in 1 2; do
  j=$((i+12))
  echo "== $P-$j"
  /venv/bin/python tools/ingest_seed.py $P $i:$j /tmp/scratch/w12_$P/_out "$@" 2>&1 | grep -v "^WARNING" | tail -4
done
