"""usage: diff2mut.py PROP title expect rule diff [sed-expr applied to new text]  -> appends a mutant built from a single-file diff (all hunks merged via whole-span replace)"""
import sys,subprocess,os,shutil,tempfile
P,title,expect,rule,diff=sys.argv[1:6]
sub=sys.argv[6:]  # pairs old new applied on the new side
d=open(diff).read()
files=[l[6:].strip() for l in d.splitlines() if l.startswith('+++ b/')]
assert len(files)==1, files
f=files[0]
tmp=tempfile.mkdtemp()
os.makedirs(os.path.join(tmp,os.path.dirname(f)))
shutil.copy('/repo/'+f, os.path.join(tmp,f))
subprocess.run(['patch','-p1','-s','-d',tmp,'-i',diff],check=True)
a=open('/repo/'+f).read().splitlines(keepends=True); b=open(os.path.join(tmp,f)).read().splitlines(keepends=True)
shutil.rmtree(tmp)
i=0
while a[i]==b[i]: i+=1
j=0
while a[-1-j]==b[-1-j]: j+=1
# widen by 2 lines of context for uniqueness
i=max(0,i-2); j=max(0,j-2)
old=''.join(a[i:len(a)-j]); new=''.join(b[i:len(b)-j])
for k in range(0,len(sub),2):
    assert sub[k] in new, sub[k]
    new=new.replace(sub[k],sub[k+1])
assert open('/repo/'+f).read().count(old)==1
p='/verif/kvstatic/mutants.py'; s=open(p).read()
k=s.index('    "%s": [' % P); k=s.index('\n',k)
ent=(title,f,old,new,expect)+((rule,) if rule!='-' else ())
s=s[:k+1]+"        ("+", ".join(repr(x) for x in ent)+"),\n"+s[k+1:]
open(p,'w').write(s); print('added',title)
