#!/bin/sh
# usage: tryseed.sh SEED PID...
S=$1; shift
cd /tmp/scratch/trial && git checkout -q --detach $(git -C /repo rev-parse HEAD) && git reset -q --hard && git clean -fdq && git apply /verif/seeded/$S/patch.diff || { echo APPLYFAIL; exit 2; }
cd /verif
for p in "$@"; do ./check $p --root /tmp/scratch/trial --evidence-dir /tmp/scratch/ev_try2 --no-selftest 2>&1 | grep -E "^\[$p\] rule|UNDECIDED|\] verdict" | cut -c1-330 | head -${N:-6}; done
cd /tmp/scratch/trial && git reset -q --hard
