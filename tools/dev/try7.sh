#!/bin/sh
# usage: try7.sh PROP i [other checks...] -> applies round-7 change i of PROP to `trial` and runs PROP's check (+others)
P=$1; i=$2; shift; shift
cd /tmp/scratch/trial && git checkout -q --detach $(git -C /repo rev-parse HEAD) && git reset -q --hard && git clean -fdq && git apply /tmp/scratch/w12_$P/_out/change$i.diff || { echo APPLYFAIL; exit 2; }
cd /verif
for p in $P "$@"; do ./check $p --root /tmp/scratch/trial --evidence-dir /tmp/scratch/ev_try2 --no-selftest 2>&1 | grep -E "^\[$p\] rule|UNDECIDED|\] verdict" | cut -c1-${W:-300} | head -${N:-6}; done
cd /tmp/scratch/trial && git reset -q --hard
