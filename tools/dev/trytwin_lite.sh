#!/bin/sh
# usage: trytwin_lite.sh <diff> -> runs only the checks whose anchors include a touched file (in trial2)
D=$1
cd /tmp/scratch/trial2 && git checkout -q --detach $(git -C /repo rev-parse HEAD) && git reset -q --hard && git clean -fdq && git apply $D || { echo "$(basename $D) APPLYFAIL"; exit 0; }
files=$(grep '^+++ b/' $D | sed 's#+++ b/##')
props=$(python3 - "$files" <<'P'
import json,sys
touched=set(sys.argv[1].split())
out=[]
for l in open('/verif/properties.jsonl'):
    d=json.loads(l)
    if d['id']=='C09': continue
    if touched & set(d['anchors']['files']): out.append(d['id'])
print(' '.join(out))
P
)
cd /verif
fa=""; nv=""
for p in $props; do ./check $p --root /tmp/scratch/trial2 --evidence-dir /tmp/scratch/ev_tw2/$p --no-selftest > /tmp/scratch/tw2_$p.log 2>&1; rc=$?; [ "$rc" = "1" ] && fa="$fa $p"; [ "$rc" = "2" ] && nv="$nv $p"; done
echo "$(basename $D .diff): FALSE-ALARMS[$fa ] NO-VERDICT[$nv ] (ran:$props)"
cd /tmp/scratch/trial2 && git reset -q --hard
