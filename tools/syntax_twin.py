"""usage: syntax_twin.py <repo_root> <relpath> <kind>  -> rewrites the file in place with one family of behaviour-preserving
syntactic rewrites applied everywhere inside function bodies:
  mul   a * b -> b * a            (both operands free of side effects; python / torch multiplication commutes exactly)
  cmp   a < b -> b > a, a == b -> b == a ...   (single comparisons between side-effect-free operands)
  ifelse  if t: A else: B -> if not t: B else: A   (two-armed ifs that are not elif chains)
Only the touched expressions / statements are re-printed (ast.unparse); everything else keeps its text."""
import ast
import sys

root, rel, kind = sys.argv[1], sys.argv[2], sys.argv[3]
p = f"{root}/{rel}"
src = open(p).read()
tree = ast.parse(src)
lines = src.split("\n")


def pure(e):
    return not any(isinstance(x, (ast.Call, ast.Await, ast.Yield, ast.YieldFrom, ast.NamedExpr, ast.Lambda, ast.ListComp, ast.GeneratorExp, ast.DictComp, ast.SetComp, ast.JoinedStr, ast.List, ast.Tuple, ast.Dict, ast.Set, ast.Starred)) for x in ast.walk(e)) and not any(isinstance(x, ast.Constant) and isinstance(x.value, (str, bytes)) for x in ast.walk(e))


edits = []  # (lineno, col, end_lineno, end_col, text)
inside = [fn for fn in ast.walk(tree) if isinstance(fn, (ast.FunctionDef, ast.AsyncFunctionDef))]
seen = set()
for fn in inside:
    for nd in ast.walk(fn):
        if id(nd) in seen:
            continue
        if kind == "mul" and isinstance(nd, ast.BinOp) and isinstance(nd.op, ast.Mult) and pure(nd.left) and pure(nd.right) and nd.lineno == nd.end_lineno and not isinstance(nd.left, ast.BinOp) and not isinstance(nd.right, ast.BinOp):
            seen.add(id(nd))
            new = ast.BinOp(left=nd.right, op=ast.Mult(), right=nd.left)
            edits.append((nd.lineno, nd.col_offset, nd.end_lineno, nd.end_col_offset, "(" + ast.unparse(new) + ")"))
        if kind == "cmp" and isinstance(nd, ast.Compare) and len(nd.ops) == 1 and type(nd.ops[0]) in (ast.Lt, ast.Gt, ast.LtE, ast.GtE, ast.Eq, ast.NotEq) and pure(nd.left) and pure(nd.comparators[0]) and nd.lineno == nd.end_lineno:
            seen.add(id(nd))
            mirror = {ast.Lt: ast.Gt, ast.Gt: ast.Lt, ast.LtE: ast.GtE, ast.GtE: ast.LtE, ast.Eq: ast.Eq, ast.NotEq: ast.NotEq}[type(nd.ops[0])]
            new = ast.Compare(left=nd.comparators[0], ops=[mirror()], comparators=[nd.left])
            edits.append((nd.lineno, nd.col_offset, nd.end_lineno, nd.end_col_offset, "(" + ast.unparse(new) + ")"))
if kind == "meth":
    SAFE = {"abs", "sqrt", "exp", "sum", "mean", "prod", "sign", "clamp", "argmin", "argmax", "unsqueeze", "squeeze", "any", "all", "tanh", "flatten", "cumsum"}
    for fn in inside:
        for nd in ast.walk(fn):
            if isinstance(nd, ast.Call) and isinstance(nd.func, ast.Attribute) and nd.func.attr in SAFE and isinstance(nd.func.value, (ast.Name, ast.Attribute, ast.Subscript)) and not (isinstance(nd.func.value, ast.Name) and nd.func.value.id in ("torch", "np", "math", "F", "self")) and nd.lineno == nd.end_lineno and id(nd) not in seen and not any(isinstance(x, ast.Call) for x in ast.walk(nd.func.value)):
                # only outermost candidates on a line range
                if any(o[0] == nd.lineno and o[1] <= nd.col_offset and nd.end_col_offset <= o[3] for o in edits):
                    continue
                seen.add(id(nd))
                new = ast.Call(func=ast.Attribute(value=ast.Name(id="torch", ctx=ast.Load()), attr=nd.func.attr, ctx=ast.Load()), args=[nd.func.value] + list(nd.args), keywords=list(nd.keywords))
                edits.append((nd.lineno, nd.col_offset, nd.end_lineno, nd.end_col_offset, ast.unparse(new)))
    # nested candidates overlap: keep the outermost per span
    edits.sort(key=lambda e: (e[0], e[1], -e[3]))
    kept = []
    for e in edits:
        if not any(k[0] == e[0] and k[1] <= e[1] and e[3] <= k[3] for k in kept):
            kept.append(e)
    edits = kept
if kind == "early":
    def leaves(block):
        return bool(block) and isinstance(block[-1], (ast.Return, ast.Raise))
    for fn in inside:
        for nd in ast.walk(fn):
            blk = getattr(nd, "body", None)
            if not isinstance(blk, list):
                continue
            for st in blk:
                if isinstance(st, ast.If) and st.orelse and leaves(st.body) and not (len(st.orelse) == 1 and isinstance(st.orelse[0], ast.If)) and st is blk[-1] and id(st) not in seen:
                    seg = lines[st.lineno - 1 : st.end_lineno]
                    if any("#" in ln for ln in seg):
                        continue
                    if any(o[0] <= st.lineno and st.end_lineno <= o[2] for o in edits):
                        continue
                    seen.add(id(st))
                    ind = " " * st.col_offset
                    head = ast.If(test=st.test, body=st.body, orelse=[])
                    text = ast.unparse(ast.fix_missing_locations(head)) + "\n" + "\n".join(ast.unparse(x) for x in st.orelse)
                    text = "\n".join((ind + ln) if i else ln for i, ln in enumerate(text.split("\n")))
                    edits.append((st.lineno, st.col_offset, st.end_lineno, st.end_col_offset, text))
if kind == "ifelse":
    for fn in inside:
        for nd in ast.walk(fn):
            if isinstance(nd, ast.If) and nd.orelse and not (len(nd.orelse) == 1 and isinstance(nd.orelse[0], ast.If)) and id(nd) not in seen:
                # skip elif arms themselves (an If that is the sole member of another If's orelse)
                seen.add(id(nd))
    # only outermost, non-nested candidates per line range are rewritten (nested ones would overlap)
    cands = [nd for fn in inside for nd in ast.walk(fn) if isinstance(nd, ast.If) and id(nd) in seen]
    elifs = {id(x.orelse[0]) for fn in inside for x in ast.walk(fn) if isinstance(x, ast.If) and len(x.orelse) == 1 and isinstance(x.orelse[0], ast.If)}
    cands = [c for c in cands if id(c) not in elifs]
    chosen = []
    for c in sorted(cands, key=lambda n: (n.lineno, -n.end_lineno)):
        if not any(o.lineno <= c.lineno and c.end_lineno <= o.end_lineno for o in chosen):
            # comments inside the statement would be lost by unparse: only statements without comment lines
            seg = lines[c.lineno - 1 : c.end_lineno]
            if any("#" in ln for ln in seg):
                continue
            chosen.append(c)
    for c in chosen:
        new = ast.If(test=ast.UnaryOp(op=ast.Not(), operand=c.test), body=c.orelse, orelse=c.body)
        ind = " " * c.col_offset
        text = ast.unparse(ast.fix_missing_locations(new))
        text = "\n".join((ind + ln) if i else ln for i, ln in enumerate(text.split("\n")))
        edits.append((c.lineno, c.col_offset, c.end_lineno, c.end_col_offset, text))

# apply from the end; positions are utf8 byte offsets
for ln, c0, eln, c1, text in sorted(edits, key=lambda e: (e[0], e[1]), reverse=True):
    if ln == eln:
        b = lines[ln - 1].encode()
        lines[ln - 1] = (b[:c0] + text.encode() + b[c1:]).decode()
    else:
        first = lines[ln - 1].encode()[:c0].decode()
        last = lines[eln - 1].encode()[c1:].decode()
        lines[ln - 1 : eln] = (first + text + last).split("\n")
out = "\n".join(lines)
ast.parse(out)
open(p, "w").write(out)
print(rel, kind, len(edits), "rewrites")
