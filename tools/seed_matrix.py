#!/venv/bin/python
"""Run every claimed check against every seeded change and record which checks catch which change.

For each /verif/seeded/<id>/patch.diff: apply it to a scratch worktree of /repo HEAD (outside /repo and
/verif), run all claimed checks with --root <worktree> in parallel, reset the worktree.  Writes
/verif/seeded/MATRIX.json and updates the `caught_by` / `exit2` fields of each meta.json.

usage: seed_matrix.py [seed ids ...]      (default: all)
"""
import concurrent.futures as cf
import json
import os
import subprocess
import sys

HOME = os.environ.get("KV_VERIF_HOME", "/verif")  # a snapshot copy of /verif may be used so that edits do not disturb a long run
WT = os.environ.get("KV_MATRIX_WT", "/tmp/scratch/matrix_wt")
EV = WT + "_ev"


def sh(cmd, cwd=None):
    p = subprocess.run(cmd, shell=True, cwd=cwd, stdout=subprocess.PIPE, stderr=subprocess.STDOUT, text=True)
    return p.returncode, p.stdout


def run_check(pid):
    rc, out = sh(f"./check {pid} --root {WT} --evidence-dir {EV}/{pid} --no-selftest", cwd=HOME)
    rules = sorted({l.split("rule ")[1].split()[0] for l in out.splitlines() if l.startswith(f"[{pid}] rule ")})
    return pid, rc, rules


def main():
    os.makedirs(EV, exist_ok=True)
    if not os.path.isdir(WT):
        rc, o = sh(f"git -C /repo worktree add -f --detach {WT} HEAD")
        if rc:
            print(o)
            return 2
    head = sh("git -C /repo rev-parse HEAD")[1].strip()
    man = json.load(open(f"{HOME}/MANIFEST.json"))
    pids = [c["property_id"] for c in man["checks"]]
    seeds = sys.argv[1:] or sorted(d for d in os.listdir(f"{HOME}/seeded") if os.path.isdir(f"{HOME}/seeded/{d}"))
    matrix = {}
    if os.path.exists(f"{HOME}/seeded/MATRIX.json"):
        matrix = json.load(open(f"{HOME}/seeded/MATRIX.json")).get("seeds", {})
    for sd in seeds:
        patch = f"{HOME}/seeded/{sd}/patch.diff"
        sh(f"git checkout -q --detach {head} && git reset -q --hard && git clean -fdq", cwd=WT)
        rc, o = sh(f"git apply {patch}", cwd=WT)
        if rc:
            print(sd, "PATCH DOES NOT APPLY", o.strip()[:200])
            matrix[sd] = {"applies": False}
            continue
        with cf.ThreadPoolExecutor(16) as ex:
            res = list(ex.map(run_check, pids))
        caught = {p: rules for p, rc_, rules in res if rc_ == 1}
        exit2 = [p for p, rc_, _ in res if rc_ == 2]
        matrix[sd] = {"applies": True, "caught_by": caught, "exit2": exit2}
        own = sd.split("-")[0]
        print(f"{sd}: caught by {sorted(caught)} {'(own check fires)' if own in caught else '(OWN CHECK SILENT)' if own not in exit2 else '(own check: no verdict)'}; exit2 {exit2}")
        mp = f"{HOME}/seeded/{sd}/meta.json"
        if os.path.exists(mp):
            m = json.load(open(mp))
            m["caught_by"] = caught
            m["exit2"] = exit2
            m["matrix_repo_head"] = head
            json.dump(m, open(mp, "w"), indent=1)
    sh(f"git reset -q --hard && git clean -fdq", cwd=WT)
    json.dump({"repo_head": head, "checks": pids, "seeds": matrix}, open(f"{HOME}/seeded/MATRIX.json", "w"), indent=1, sort_keys=True)
    return 0


if __name__ == "__main__":
    sys.exit(main())
