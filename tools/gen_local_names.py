#!/usr/bin/env python3
"""Writes /verif/fixtures/local_names.json: for every function of the pinned tree the digest of its body with the locally
bound names replaced by first-occurrence indices, and those names in order (see kvstatic/alpha.py).
usage: gen_local_names.py [repo_root]   (default /repo; run it on the pinned, unmodified tree only)"""
import json
import os
import sys

HERE = os.path.dirname(os.path.dirname(os.path.abspath(__file__)))
sys.path.insert(0, HERE)
from kvstatic.alpha import FIXTURE, build_fixture  # noqa: E402

root = sys.argv[1] if len(sys.argv) > 1 else "/repo"
fx = build_fixture(root)
os.makedirs(os.path.dirname(FIXTURE), exist_ok=True)
with open(FIXTURE, "w", encoding="utf-8") as fh:
    json.dump(fx, fh, indent=0, sort_keys=True)
print(len(fx), "functions with locals written to", FIXTURE)
