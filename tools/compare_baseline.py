import json, sys
import xml.etree.ElementTree as ET
base = json.load(open('/root/.vp/BASELINE.json'))
stable = set(base['stable_pass'])
t = ET.parse(sys.argv[1])
passed = set(); other = {}
for tc in t.iter('testcase'):
    name = f"{tc.get('classname')}::{tc.get('name')}"
    bad = [c.tag for c in tc if c.tag in ('failure', 'error', 'skipped')]
    if bad: other[name] = bad[0]
    else: passed.add(name)
missing = sorted(stable - passed)
print(f"stable_pass={len(stable)} passed_now={len(passed)} stable-but-not-passing={len(missing)}")
for m in missing[:40]: print("  NOT PASSING:", m, other.get(m, 'absent'))
sys.exit(1 if missing else 0)
