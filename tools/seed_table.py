#!/usr/bin/env python3
"""Regenerates the table of §9.5 of DESIGN.md (between the header row and the next blank line after the table) from
seeded/<id>/meta.json and seeded/MATRIX.json.  usage: seed_table.py [--write]"""
import json
import os
import re
import sys

HERE = os.path.dirname(os.path.dirname(os.path.abspath(__file__)))
mat = json.load(open(f"{HERE}/seeded/MATRIX.json"))
seeds = mat.get("seeds", mat)


def key(s):
    p, n = s.split("-")
    return (p, int(n))


rows = []
own_caught = other = silent = 0
for sd in sorted(seeds, key=key):
    meta = json.load(open(f"{HERE}/seeded/{sd}/meta.json"))
    summ = re.sub(r"\s+", " ", meta.get("summary", "")).replace("|", "/")
    summ = summ[:140] + ("…" if len(summ) > 140 else "")
    cb = seeds[sd].get("caught_by", {})
    ex2 = seeds[sd].get("exit2", [])
    if isinstance(cb, dict):
        caught = "; ".join(f"{p} ({', '.join(sorted(set(r.split()[2] if r.startswith('[') and len(r.split()) > 2 else r for r in rules))) or '-'})" if rules else p for p, rules in sorted(cb.items()))
    else:
        caught = "; ".join(sorted(cb))
    own = sd.split("-")[0]
    if own in cb:
        own_caught += 1
    elif cb:
        other += 1
    else:
        silent += 1
    if not caught:
        caught = "— (no rule; see the notes in §2)" if not ex2 else f"— (no verdict: {', '.join(ex2)})"
    elif own not in cb and own in ex2:
        caught += f"; {own}: no verdict"
    rows.append(f"| {sd} | {summ} | {caught} |")
table = "| seed | change (author's summary, truncated) | caught by: check (rules) |\n|---|---|---|\n" + "\n".join(rows) + "\n"
print(f"{len(rows)} seeds: {own_caught} reported by their own check, {other} only by another check, {silent} by none", file=sys.stderr)
if "--write" in sys.argv:
    p = f"{HERE}/DESIGN.md"
    s = open(p).read()
    a = s.index("| seed | change (author's summary, truncated) | caught by: check (rules) |")
    b = s.index("\n\n", a)
    s = s[:a] + table.rstrip("\n") + s[b:]
    open(p, "w").write(s)
    print("DESIGN.md table rewritten", file=sys.stderr)
else:
    sys.stdout.write(table[:1500])
