#!/venv/bin/python
"""Differential test of the machinery's own model classes (kvstatic.gf2.BP / FieldModel / FieldElem) against the repository's
BinaryPolynomial / FiniteBifield on random values.  Like evaluator_difftest.py this tests the *machinery*: the models stand in
for the repository's classes when a rule evaluates code that uses them, so they must behave like the originals.  It imports
kaira from /repo (or $1) and is therefore NOT a registered check - the checks themselves never import the repository.

    /venv/bin/python /verif/tools/model_difftest.py [/repo]
"""
import os
import random
import sys

root = sys.argv[1] if len(sys.argv) > 1 else "/repo"
sys.path.insert(0, root)
sys.path.insert(0, os.path.dirname(os.path.dirname(os.path.abspath(__file__))))

from kaira.models.fec.algebra import BinaryPolynomial, FiniteBifield  # noqa: E402

from kvstatic import gf2  # noqa: E402


def main() -> int:
    rng = random.Random(7)
    bad = []
    n = 0
    for _ in range(3000):
        a, b = rng.randrange(0, 1 << rng.randint(1, 14)), rng.randrange(1, 1 << rng.randint(1, 9))
        A, B, a_, b_ = BinaryPolynomial(a), BinaryPolynomial(b), gf2.BP(a), gf2.BP(b)
        for name, f in (("mul", lambda x, y: x * y), ("mod", lambda x, y: x % y), ("div", lambda x, y: x.div(y)), ("gcd-free", lambda x, y: (x * y) % y)):
            n += 1
            if f(A, B).value != f(a_, b_).value:
                bad.append((name, a, b, f(A, B).value, f(a_, b_).value))
        for op in ("__add__", "__sub__", "__floordiv__", "__truediv__", "__pow__", "__lt__"):
            if hasattr(a_, op) and not hasattr(A, op) and op not in ("__lt__",):
                bad.append(("model supports an operator the original lacks", op, None, None, None))
        n += 2
        if A.degree != a_.degree:
            bad.append(("degree", a, None, A.degree, a_.degree))
        if list(A.to_coefficient_list()) != list(a_.to_coefficient_list()):
            bad.append(("to_coefficient_list", a, None, A.to_coefficient_list(), list(a_.to_coefficient_list())))
    for m in (2, 3, 4, 5, 6):
        F = FiniteBifield(m)
        mod = F.modulus.value if hasattr(F.modulus, "value") else int(F.modulus)
        G = gf2.FieldModel(m, mod)
        for v in range(1 << m):
            x, y = F(v), G(v)
            for w in range(1 << m):
                n += 2
                if (x * F(w)).value != (y * G(w)).value:
                    bad.append(("fmul", m, (v, w), (x * F(w)).value, (y * G(w)).value))
                if (x + F(w)).value != (y + G(w)).value:
                    bad.append(("fadd", m, (v, w), (x + F(w)).value, (y + G(w)).value))
            for e in (0, 1, 2, 3, 7, (1 << m) - 1, (1 << m) + 3):
                if v == 0 and e == 0:
                    continue
                n += 1
                if (x**e).value != (y**e).value:
                    bad.append(("pow", m, (v, e), (x**e).value, (y**e).value))
            for op in ("__sub__", "__truediv__", "__floordiv__", "__neg__", "__lt__"):
                if hasattr(y, op) and not hasattr(x, op) and op != "__lt__":
                    bad.append(("element model supports an operator the original lacks", op, None, None, None))
            if v:
                n += 3
                if x.inverse().value != y.inverse().value:
                    bad.append(("inverse", m, v, x.inverse().value, y.inverse().value))
                if [c.value for c in x.conjugates()] != [c.value for c in y.conjugates()]:
                    bad.append(("conjugates", m, v, [c.value for c in x.conjugates()], [c.value for c in y.conjugates()]))
                if x.minimal_polynomial().value != y.minimal_polynomial().value:
                    bad.append(("minimal_polynomial", m, v, x.minimal_polynomial().value, y.minimal_polynomial().value))
    print(f"model difftest: {n} comparisons of gf2.BP / FieldModel / FieldElem with the repository's classes, {len(bad)} DISAGREE")
    for b in bad[:10]:
        print("  DISAGREE", b)
    return 1 if bad else 0


if __name__ == "__main__":
    sys.exit(main())
