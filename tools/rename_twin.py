"""usage: rename_twin.py <repo_root> <relpath> -> rewrites the file in place: every local variable of every function gets the suffix _rn"""
import ast, sys, builtins
root, rel = sys.argv[1], sys.argv[2]
p = f"{root}/{rel}"
src = open(p).read()
tree = ast.parse(src)
lines = src.split("\n")
edits = []  # (lineno, col, endcol, new)
SKIP = set(dir(builtins)) | {"self", "cls", "torch", "np", "math", "F", "nn"}
def fn_locals(fn):
    params = {a.arg for a in fn.args.args + fn.args.kwonlyargs + fn.args.posonlyargs} | ({fn.args.vararg.arg} if fn.args.vararg else set()) | ({fn.args.kwarg.arg} if fn.args.kwarg else set())
    loc = set(); banned = set()
    for nd in ast.walk(fn):
        if isinstance(nd, (ast.FunctionDef, ast.Lambda, ast.AsyncFunctionDef)) and nd is not fn:
            a = nd.args
            banned |= {x.arg for x in a.args + a.kwonlyargs + a.posonlyargs} | ({a.vararg.arg} if a.vararg else set()) | ({a.kwarg.arg} if a.kwarg else set())
            if not isinstance(nd, ast.Lambda): banned.add(nd.name)
        if isinstance(nd, (ast.Global, ast.Nonlocal)): banned |= set(nd.names)
        if isinstance(nd, (ast.Import, ast.ImportFrom)): banned |= {(al.asname or al.name).split(".")[0] for al in nd.names}
        if isinstance(nd, ast.Name) and isinstance(nd.ctx, ast.Store): loc.add(nd.id)
        if isinstance(nd, ast.ExceptHandler) and nd.name: banned.add(nd.name)
        if isinstance(nd, ast.Call) and isinstance(nd.func, ast.Name) and nd.func.id in ("locals", "vars", "eval", "exec"): return set()
    return {n for n in loc if n not in params and n not in banned and n not in SKIP and not n.startswith("__")}
done = set()
def visit(fn):
    loc = fn_locals(fn)
    for nd in ast.walk(fn):
        if isinstance(nd, ast.Name) and nd.id in loc and (nd.lineno, nd.col_offset) not in done:
            done.add((nd.lineno, nd.col_offset))
            edits.append((nd.lineno, nd.col_offset, nd.end_col_offset, nd.id + "_rn"))
tops = []
for nd in ast.walk(tree):
    if isinstance(nd, ast.ClassDef):
        tops += [x for x in nd.body if isinstance(x, ast.FunctionDef)]
tops += [x for x in tree.body if isinstance(x, ast.FunctionDef)]
for fn in tops: visit(fn)
# apply right-to-left per line (col offsets are utf8 byte offsets: assume ascii lines; skip non-ascii lines)
bylines = {}
for ln, c0, c1, new in edits: bylines.setdefault(ln, []).append((c0, c1, new))
for ln, es in bylines.items():
    line = lines[ln - 1]
    if not line.isascii():
        b = line.encode()
        for c0, c1, new in sorted(es, reverse=True): b = b[:c0] + new.encode() + b[c1:]
        lines[ln - 1] = b.decode()
        continue
    for c0, c1, new in sorted(es, reverse=True): line = line[:c0] + new + line[c1:]
    lines[ln - 1] = line
out = "\n".join(lines)
ast.parse(out)
open(p, "w").write(out)
print(rel, len(edits), "renamed occurrences")
