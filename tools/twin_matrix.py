#!/venv/bin/python
"""Run every claimed check against behaviour-preserving refactorings ("twins") kept under /verif/twins/<name>.diff.

A twin must never produce exit 1 (a VIOLATION on code where the property holds is a false alarm); exit 2
(no verdict: unknown idiom) is reported separately.  Writes /verif/twins/MATRIX.json.
usage: twin_matrix.py [names ...]
"""
import concurrent.futures as cf
import json
import os
import subprocess
import sys

HOME = os.environ.get("KV_VERIF_HOME", "/verif")  # a snapshot copy of /verif may be used so that edits do not disturb a long run
WT = os.environ.get("KV_MATRIX_WT", "/tmp/scratch/matrix_wt")
EV = WT + "_ev"


def sh(cmd, cwd=None):
    p = subprocess.run(cmd, shell=True, cwd=cwd, stdout=subprocess.PIPE, stderr=subprocess.STDOUT, text=True)
    return p.returncode, p.stdout


def run_check(pid):
    rc, out = sh(f"./check {pid} --root {WT} --evidence-dir {EV}/{pid} --no-selftest", cwd=HOME)
    lines = [l for l in out.splitlines() if l.startswith(f"[{pid}] rule ") or l.startswith("UNDECIDED")]
    return pid, rc, lines[:4]


def main():
    os.makedirs(EV, exist_ok=True)
    if not os.path.isdir(WT):
        rc, o = sh(f"git -C /repo worktree add -f --detach {WT} HEAD")
        if rc:
            print(o)
            return 2
    head = sh("git -C /repo rev-parse HEAD")[1].strip()
    pids = [c["property_id"] for c in json.load(open(f"{HOME}/MANIFEST.json"))["checks"]]
    names = sys.argv[1:] or sorted(f[:-5] for f in os.listdir(f"{HOME}/twins") if f.endswith(".diff"))
    matrix = {}
    if os.path.exists(f"{HOME}/twins/MATRIX.json"):
        matrix = json.load(open(f"{HOME}/twins/MATRIX.json")).get("twins", {})
    bad = 0
    for nm in names:
        sh(f"git checkout -q --detach {head} && git reset -q --hard && git clean -fdq", cwd=WT)
        rc, o = sh(f"git apply {HOME}/twins/{nm}.diff", cwd=WT)
        if rc:
            print(nm, "DOES NOT APPLY", o.strip()[:160])
            matrix[nm] = {"applies": False}
            continue
        with cf.ThreadPoolExecutor(16) as ex:
            res = list(ex.map(run_check, pids))
        alarms = {p: l for p, rc_, l in res if rc_ == 1}
        nov = {p: l for p, rc_, l in res if rc_ == 2}
        matrix[nm] = {"applies": True, "false_alarms": alarms, "no_verdict": nov}
        bad += len(alarms)
        print(f"{nm}: false alarms {sorted(alarms)}; no verdict {sorted(nov)}")
        for p, l in alarms.items():
            for x in l[:2]:
                print("     ", x[:220])
    sh("git reset -q --hard && git clean -fdq", cwd=WT)
    json.dump({"repo_head": head, "twins": matrix}, open(f"{HOME}/twins/MATRIX.json", "w"), indent=1, sort_keys=True)
    return 1 if bad else 0


if __name__ == "__main__":
    sys.exit(main())
