"""Kit I: sibling agreement through a free-term abstract interpreter.

Values are finite sets of normalised expression terms (strings).  Locals are substituted by
their defining terms (branch-aware: a join is the union of the alternatives), commutative
operators are sorted, value-preserving casts are erased.  Two functions that must compute the
same quantity are compared by equality of their term sets; the first differing term is
reported.  No path conditions, no solver.
"""
from __future__ import annotations

import ast
from typing import Callable, Dict, FrozenSet, List, Optional

from .absint import Env, Interp
from .astutil import attr_chain, call_name, unparse
from .core import ClassInfo, FuncInfo, Repo

NONE: FrozenSet[str] = frozenset()
CASTS = {"float", "long", "int", "bool", "double", "item", "to", "type", "clone", "detach", "contiguous", "cpu"}
CAST_FUNCS = {"float", "int", "bool", "torch.tensor", "torch.as_tensor"}
OPS = {
    ast.Add: "+", ast.Sub: "-", ast.Mult: "*", ast.Div: "/", ast.FloorDiv: "//", ast.Mod: "%", ast.Pow: "**", ast.BitAnd: "&", ast.BitOr: "|", ast.BitXor: "^",
    ast.LShift: "<<", ast.RShift: ">>", ast.MatMult: "@",
}
CMP = {ast.Eq: "==", ast.NotEq: "!=", ast.Lt: "<", ast.LtE: "<=", ast.Gt: ">", ast.GtE: ">=", ast.Is: "is", ast.IsNot: "is not", ast.In: "in", ast.NotIn: "not in"}
COMM = {"+", "*", "&", "|", "^", "==", "!="}
MAXN = 48


def single(t: str) -> FrozenSet[str]:
    return frozenset([t])


def _sort_difference(term: str) -> str:
    """`(A - B)` -> operands in sorted order (only used under abs, where the sign is irrelevant)."""
    if not (term.startswith("(") and term.endswith(")")):
        return term
    depth = 0
    inner = term[1:-1]
    for i, ch in enumerate(inner):
        if ch in "([":
            depth += 1
        elif ch in ")]":
            depth -= 1
        elif depth == 0 and inner[i : i + 3] == " - ":
            a, b = inner[:i], inner[i + 3 :]
            if b < a:
                a, b = b, a
            return f"({a} - {b})"
    return term


class Terms(Interp):
    MAX_ITER = 1

    def __init__(self, fi: FuncInfo, repo: Repo, cls: Optional[ClassInfo] = None, config=None, erase_casts: bool = True, inline_methods: bool = True, opaque_methods=(), depth: int = 0):
        super().__init__(fi)
        self.repo = repo
        self.cls = cls or fi.cls
        self.config = config
        self.erase_casts = erase_casts
        self.inline_methods = inline_methods
        self.opaque = set(opaque_methods)
        self.depth = depth
        self.attr_writes: List[tuple] = []  # (attr chain, kind, term set, stmt)
        self.overflow = False

    def top(self):
        return single("?")

    def join(self, a, b):
        if a is None:
            return b
        if b is None:
            return a
        u = frozenset(a) | frozenset(b)
        if len(u) > MAXN:
            self.overflow = True
            return single("?")
        return u

    def unbound(self, name, node, env):
        return single(name)

    def decide(self, test, env):
        return self.config(test, env) if self.config else None

    def prod(self, fmt: Callable[..., str], *sets) -> FrozenSet[str]:
        combos = [()]
        for s in sets:
            combos = [c + (a,) for c in combos for a in sorted(s)]
            if len(combos) > MAXN:
                self.overflow = True
                return single("?")
        return frozenset(fmt(*c) for c in combos)

    # expressions
    def eval_Constant(self, node, env):
        v = node.value
        if isinstance(v, float) and v == int(v):
            v = int(v)
        return single(repr(v))

    def eval_Name(self, node, env):
        return env[node.id] if node.id in env else single(node.id)

    def attribute(self, node, base, env):
        ch = attr_chain(node)
        if ch is not None and (ch.startswith("self.") or ch.startswith("torch.")):
            return single(ch)
        return self.prod(lambda b: f"{b}.{node.attr}", base)

    def eval_BinOp(self, node, env):
        a, b = self.eval(node.left, env), self.eval(node.right, env)
        op = OPS.get(type(node.op), "?")

        def fmt(x, y):
            if op in COMM and y < x:
                x, y = y, x
            return f"({x} {op} {y})"

        return self.prod(fmt, a, b)

    def eval_UnaryOp(self, node, env):
        v = self.eval(node.operand, env)
        sym = {ast.USub: "-", ast.Not: "not ", ast.Invert: "~", ast.UAdd: "+"}[type(node.op)]
        return self.prod(lambda x: f"({sym}{x})", v)

    def eval_Compare(self, node, env):
        vals = [self.eval(node.left, env)] + [self.eval(c, env) for c in node.comparators]
        if len(node.ops) != 1:
            return self.prod(lambda *xs: "cmp(" + ",".join(xs) + ")", *vals)
        op = CMP[type(node.ops[0])]

        def fmt(x, y):
            o = op
            # normal form: a > b  (b < a is rewritten)
            if o == "<":
                x, y, o = y, x, ">"
            elif o == "<=":
                x, y, o = y, x, ">="
            if o in COMM and y < x:
                x, y = y, x
            return f"({x} {o} {y})"

        return self.prod(fmt, vals[0], vals[1])

    def eval_BoolOp(self, node, env):
        vals = [self.eval(v, env) for v in node.values]
        op = "and" if isinstance(node.op, ast.And) else "or"
        return self.prod(lambda *xs: "(" + f" {op} ".join(xs) + ")", *vals)

    def eval_IfExp(self, node, env):
        d = self.decide(node.test, env)
        if d is True:
            return self.eval(node.body, env)
        if d is False:
            return self.eval(node.orelse, env)
        t = self.eval(node.test, env)
        a, b = self.eval(node.body, env), self.eval(node.orelse, env)
        return self.prod(lambda c, x, y: f"({x} if {c} else {y})", t, a, b)

    def eval_Subscript(self, node, env):
        b = self.eval(node.value, env)
        i = self.eval(node.slice, env)
        return self.prod(lambda x, y: f"{x}[{y}]", b, i)

    def eval_Slice(self, node, env):
        parts = [self.eval(p, env) if p is not None else single("") for p in (node.lower, node.upper, node.step)]
        return self.prod(lambda a, b, c: f"{a}:{b}" + (f":{c}" if c else ""), *parts)

    def collection(self, vals, node, env):
        br = "[]" if isinstance(node, (ast.List, ast.ListComp)) else "()"
        if not vals:
            return single(br)
        return self.prod(lambda *xs: br[0] + ",".join(xs) + br[1], *vals)

    def unpack(self, value, n, node):
        return [self.prod(lambda x, i=i: f"{x}.{i}", value) for i in range(n)]

    def iter_element(self, iterable_val, node, env):
        return self.prod(lambda x: f"each({x})", iterable_val)

    def eval_JoinedStr(self, node, env):
        return single("<str>")

    def eval_Lambda(self, node, env):
        return single("<lambda>")

    def eval_Dict(self, node, env):
        return single("<dict>")

    def eval_Call(self, node: ast.Call, env):
        name = call_name(node) or unparse(node.func)
        short = name.split(".")[-1]
        args = [self.eval(a.value if isinstance(a, ast.Starred) else a, env) for a in node.args]
        kws = [(k.arg or "**", self.eval(k.value, env)) for k in node.keywords]
        is_method = isinstance(node.func, ast.Attribute) and not name.startswith(("torch.", "F.", "math.", "np."))
        recv = self.eval(node.func.value, env) if is_method else None
        if self.erase_casts:
            if is_method and short in CASTS:
                return recv
            if name in CAST_FUNCS and len(args) == 1:
                return args[0]
        if name.startswith("self.") and name.count(".") == 1 and self.cls is not None and self.inline_methods and short not in self.opaque and self.depth < 3:
            callee = self.cls.find_method(short)
            if callee is not None:
                params = [p for p in callee.params if p not in ("self", "cls")]
                e2: Env = {p: a for p, a in zip(params, args)}
                for k, v in kws:
                    e2[k] = v
                sub = Terms(callee, self.repo, self.cls, self.config, self.erase_casts, self.inline_methods, self.opaque, self.depth + 1)
                sub.run(e2)
                self.overflow |= sub.overflow
                out = None
                for v, _r, _e in sub.returns:
                    if v is not None:
                        out = v if out is None else self.join(out, v)
                if out is not None:
                    return out
        kwsets = [self.prod(lambda x, k=k: f"{k}={x}", v) for k, v in sorted(kws, key=lambda kv: kv[0])]
        # torch.f(x, ...) and x.f(...) are the same operation
        if name.startswith("torch.") and args and short not in ("tensor", "zeros", "ones", "full", "arange", "empty", "eye", "rand", "randn", "linspace"):
            recv, args, is_method = args[0], args[1:], True
        if is_method and recv is not None:
            if short == "abs" and not args:
                recv = frozenset(_sort_difference(r) for r in recv)  # |a - b| == |b - a|
            return self.prod(lambda r, *xs: f"{r}.{short}(" + ",".join(xs) + ")", recv, *args, *kwsets)
        return self.prod(lambda *xs: f"{name}(" + ",".join(xs) + ")", *args, *kwsets)

    # attribute writes are recorded (accumulator typestate)
    def store_attribute(self, target, value, env, stmt):
        ch = attr_chain(target)
        if ch is not None:
            env[ch] = value
            self.attr_writes.append((ch, "assign", value, stmt))

    def stmt_AugAssign(self, st, env):
        ch = attr_chain(st.target) if isinstance(st.target, ast.Attribute) else None
        if ch is not None and ch.startswith("self."):
            v = self.eval(st.value, env)
            self.attr_writes.append((ch, "aug" + OPS.get(type(st.op), "?"), v, st))
            from .absint import _Flow

            return _Flow(env)
        return super().stmt_AugAssign(st, env)

    def expr_stmt(self, node, env):
        v = node.value
        if isinstance(v, ast.Call) and isinstance(v.func, ast.Attribute):
            ch = attr_chain(v.func.value)
            if ch is not None and ch.startswith("self.") and v.func.attr.endswith("_"):
                args = [self.eval(a, env) for a in v.args]
                self.attr_writes.append((ch, "inplace:" + v.func.attr, args[0] if args else NONE, node))
                return
            if v.func.attr in ("append", "extend") and v.args:
                key = self.lvalue_key(v.func.value)
                val = self.eval(v.args[0], env)
                if key is not None:
                    old = env.get(key)
                    new = self.prod(lambda x: f"elem({x})", val)
                    env[key] = new if (old is None or old == single("[]")) else self.join(old, new)
                return
        self.eval(v, env)
