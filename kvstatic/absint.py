"""A small forward abstract interpreter over function bodies.

Sub-classes provide the lattice (``join``, ``top``, ``const``) and the transfer functions
(``eval_*``).  Control flow: both branches of an ``if`` are analysed and joined unless
``decide(test, env)`` resolves the test under the analysis' *configuration* (e.g. "soft
branch": ``noise_var is None`` is False); loops are iterated to a fix-point (bounded, then
widened to ``top``); ``return`` values are collected with the environment that reached them.
No path enumeration, no solver.
"""
from __future__ import annotations

import ast
from typing import Any, Callable, Dict, List, Optional, Sequence, Tuple

from .astutil import attr_chain, unparse
from .core import FuncInfo

Env = Dict[str, Any]


class _Flow:
    """Result of executing a block: the fall-through environment (or None) plus pending jumps."""

    __slots__ = ("env", "breaks", "continues")

    def __init__(self, env: Optional[Env]):
        self.env = env
        self.breaks: List[Env] = []
        self.continues: List[Env] = []


class Interp:
    MAX_ITER = 6

    def __init__(self, fi: FuncInfo):
        self.fi = fi
        self.returns: List[Tuple[Any, ast.Return, Env]] = []
        self.raises: List[Tuple[ast.Raise, Env]] = []
        self.trace: List[str] = []
        self.events: List[Tuple[str, ast.AST, Any]] = []

    # -- lattice -----------------------------------------------------------
    def top(self) -> Any:
        raise NotImplementedError

    def join(self, a: Any, b: Any) -> Any:
        raise NotImplementedError

    def unbound(self, name: str, node: ast.AST, env: Env) -> Any:
        """Value of a name that has no binding in the environment (globals, builtins)."""
        return self.top()

    def join_env(self, a: Optional[Env], b: Optional[Env]) -> Optional[Env]:
        if a is None:
            return None if b is None else dict(b)
        if b is None:
            return dict(a)
        out: Env = {}
        for k in set(a) | set(b):
            if k in a and k in b:
                out[k] = a[k] if a[k] is b[k] else self.join(a[k], b[k])
            else:
                out[k] = self.join_missing(a.get(k, b.get(k)), k)
        return out

    def join_missing(self, v: Any, key: str) -> Any:
        """A variable bound on one path only (the other path does not define it)."""
        return v

    def env_equal(self, a: Optional[Env], b: Optional[Env]) -> bool:
        if a is None or b is None:
            return a is b
        if set(a) != set(b):
            return False
        return all(self.val_equal(a[k], b[k]) for k in a)

    def val_equal(self, a: Any, b: Any) -> bool:
        return a == b

    # -- hooks -------------------------------------------------------------
    def decide(self, test: ast.expr, env: Env) -> Optional[bool]:
        """Resolve a branch condition under the analysis configuration (None = unknown)."""
        return None

    def _decide(self, test: ast.expr, env: Env, depth: int = 0) -> Optional[bool]:
        """decide(), and where that gives no answer: through a boolean local that names the condition
        (`hard = noise_var is None and not self.soft_output; ...; if hard:`), and through not / and / or of decided parts."""
        d = self.decide(test, env)
        if d is not None or depth > 4:
            return d
        if isinstance(test, ast.UnaryOp) and isinstance(test.op, ast.Not):
            v = self._decide(test.operand, env, depth + 1)
            return None if v is None else not v
        if isinstance(test, ast.BoolOp):
            vals = [self._decide(v, env, depth + 1) for v in test.values]
            if isinstance(test.op, ast.And):
                if any(v is False for v in vals):
                    return False
                return True if all(v is True for v in vals) else None
            if any(v is True for v in vals):
                return True
            return False if all(v is False for v in vals) else None
        if isinstance(test, ast.Name):
            defs = getattr(self, "_bool_defs", None)
            if defs is None:
                defs = {}
                # a helper defined inside another function reads that function's locals as free names
                scopes = [self.fi.node] + ([self.fi._outer.node] if getattr(self.fi, "_outer", None) is not None else [])
                for st in (x for sc in scopes for x in ast.walk(sc)):
                    if isinstance(st, ast.Assign) and len(st.targets) == 1 and isinstance(st.targets[0], ast.Name):
                        defs.setdefault(st.targets[0].id, []).append(st.value)
                    elif isinstance(st, (ast.AugAssign, ast.AnnAssign, ast.For, ast.With)) :
                        for x in ast.walk(st.target if hasattr(st, "target") else st):
                            if isinstance(x, ast.Name) and isinstance(x.ctx, ast.Store):
                                defs.setdefault(x.id, []).append(None)
                self._bool_defs = defs
            vs = defs.get(test.id, [])
            vs = [v for i_, v in enumerate(vs) if not any(v is w for w in vs[:i_])]  # the outer walk meets the nested body again
            if len(vs) == 1 and isinstance(vs[0], (ast.BoolOp, ast.Compare, ast.UnaryOp, ast.Call)) and test.id not in self.fi.params:
                return self._decide(vs[0], env, depth + 1)
        return None

    def refine(self, test: ast.expr, env: Env, truth: bool) -> Env:
        return env

    def on_return(self, value: Any, node: ast.Return, env: Env) -> None:
        self.returns.append((value, node, dict(env)))

    def store_subscript(self, target: ast.Subscript, value: Any, env: Env, stmt: ast.stmt) -> None:
        """``base[idx] = value``: by default a weak update of the base variable."""
        key = self.lvalue_key(target.value)
        if key is not None:
            old = env.get(key)
            env[key] = value if old is None else self.join(old, value)

    def store_attribute(self, target: ast.Attribute, value: Any, env: Env, stmt: ast.stmt) -> None:
        key = attr_chain(target)
        if key is not None:
            env[key] = value

    def expr_stmt(self, node: ast.Expr, env: Env) -> None:
        self.eval(node.value, env)

    def iter_element(self, iterable_val: Any, node: ast.expr, env: Env) -> Any:
        """Abstract value of the loop variable for ``for x in <node>``."""
        return self.top()

    def lvalue_key(self, node: ast.AST) -> Optional[str]:
        if isinstance(node, ast.Name):
            return node.id
        if isinstance(node, ast.Attribute):
            return attr_chain(node)
        if isinstance(node, ast.Subscript):
            return self.lvalue_key(node.value)
        return None

    # -- expression evaluation -------------------------------------------
    def eval(self, node: ast.AST, env: Env) -> Any:
        meth = getattr(self, "eval_" + type(node).__name__, None)
        if meth is None:
            return self.eval_unknown(node, env)
        return meth(node, env)

    def eval_unknown(self, node: ast.AST, env: Env) -> Any:
        for ch in ast.iter_child_nodes(node):
            if isinstance(ch, ast.expr):
                self.eval(ch, env)
        return self.top()

    def eval_Name(self, node: ast.Name, env: Env) -> Any:
        if node.id in env:
            return env[node.id]
        return self.unbound(node.id, node, env)

    def eval_Attribute(self, node: ast.Attribute, env: Env) -> Any:
        key = attr_chain(node)
        if key is not None and key in env:
            return env[key]
        return self.attribute(node, self.eval(node.value, env), env)

    def attribute(self, node: ast.Attribute, base: Any, env: Env) -> Any:
        return self.top()

    def eval_IfExp(self, node: ast.IfExp, env: Env) -> Any:
        d = self._decide(node.test, env)
        if d is True:
            return self.eval(node.body, self.refine(node.test, env, True))
        if d is False:
            return self.eval(node.orelse, self.refine(node.test, env, False))
        self.eval(node.test, env)
        return self.join(self.eval(node.body, self.refine(node.test, env, True)), self.eval(node.orelse, self.refine(node.test, env, False)))

    def eval_NamedExpr(self, node: ast.NamedExpr, env: Env) -> Any:
        v = self.eval(node.value, env)
        env[node.target.id] = v
        return v

    def eval_Starred(self, node: ast.Starred, env: Env) -> Any:
        return self.eval(node.value, env)

    def _comprehension(self, node, env: Env, elt_nodes: Sequence[ast.expr]) -> Any:
        e = dict(env)
        for gen in node.generators:
            it = self.eval(gen.iter, e)
            self.bind_target(gen.target, self.iter_element(it, gen.iter, e), e, None)
            for c in gen.ifs:
                self.eval(c, e)
        vals = [self.eval(x, e) for x in elt_nodes]
        out = vals[0]
        for v in vals[1:]:
            out = self.join(out, v)
        return self.collection([out], node, env)

    def eval_ListComp(self, node, env):
        return self._comprehension(node, env, [node.elt])

    def eval_GeneratorExp(self, node, env):
        return self._comprehension(node, env, [node.elt])

    def eval_SetComp(self, node, env):
        return self._comprehension(node, env, [node.elt])

    def eval_DictComp(self, node, env):
        return self._comprehension(node, env, [node.value])

    def collection(self, vals: List[Any], node: ast.AST, env: Env) -> Any:
        """Abstract value of a list/tuple display whose elements have the given values."""
        if not vals:
            return self.top()
        out = vals[0]
        for v in vals[1:]:
            out = self.join(out, v)
        return out

    def eval_List(self, node, env):
        return self.collection([self.eval(e, env) for e in node.elts], node, env)

    def eval_Tuple(self, node, env):
        return self.collection([self.eval(e, env) for e in node.elts], node, env)

    # -- statements ---------------------------------------------------------
    def bind_target(self, target: ast.AST, value: Any, env: Env, stmt: Optional[ast.stmt]) -> None:
        if isinstance(target, ast.Name):
            env[target.id] = value
        elif isinstance(target, (ast.Tuple, ast.List)):
            parts = self.unpack(value, len(target.elts), target)
            for t, v in zip(target.elts, parts):
                self.bind_target(t, v, env, stmt)
        elif isinstance(target, ast.Starred):
            self.bind_target(target.value, value, env, stmt)
        elif isinstance(target, ast.Subscript):
            self.eval(target.slice, env)
            self.store_subscript(target, value, env, stmt)  # type: ignore[arg-type]
        elif isinstance(target, ast.Attribute):
            self.store_attribute(target, value, env, stmt)  # type: ignore[arg-type]

    def unpack(self, value: Any, n: int, node: ast.AST) -> List[Any]:
        return [value] * n

    def run(self, env: Optional[Env] = None) -> Optional[Env]:
        env = dict(env or {})
        flow = self.exec_block(self.fi.body, env)
        return flow.env

    def exec_block(self, body: Sequence[ast.stmt], env: Optional[Env]) -> _Flow:
        flow = _Flow(env)
        for st in body:
            if flow.env is None:
                break
            sub = self.exec_stmt(st, flow.env)
            flow.env = sub.env
            flow.breaks += sub.breaks
            flow.continues += sub.continues
        return flow

    def exec_stmt(self, st: ast.stmt, env: Env) -> _Flow:
        meth = getattr(self, "stmt_" + type(st).__name__, None)
        if meth is None:
            return _Flow(env)
        return meth(st, env)

    def stmt_Assign(self, st: ast.Assign, env: Env) -> _Flow:
        if len(st.targets) == 1 and isinstance(st.targets[0], (ast.Tuple, ast.List)) and isinstance(st.value, (ast.Tuple, ast.List)) and len(st.value.elts) == len(st.targets[0].elts) and not any(isinstance(e, ast.Starred) for e in st.value.elts + st.targets[0].elts):
            vals = [self.eval(e, env) for e in st.value.elts]
            for t, v in zip(st.targets[0].elts, vals):
                self.bind_target(t, v, env, st)
            return _Flow(env)
        v = self.eval(st.value, env)
        for t in st.targets:
            self.bind_target(t, v, env, st)
        return _Flow(env)

    def stmt_AnnAssign(self, st: ast.AnnAssign, env: Env) -> _Flow:
        if st.value is not None:
            self.bind_target(st.target, self.eval(st.value, env), env, st)
        return _Flow(env)

    def stmt_AugAssign(self, st: ast.AugAssign, env: Env) -> _Flow:
        load = ast.BinOp(left=_as_load(st.target), op=st.op, right=st.value)
        ast.copy_location(load, st)
        ast.fix_missing_locations(load)
        v = self.eval(load, env)
        if isinstance(st.target, ast.Subscript):
            self.eval(st.target.slice, env)
            self.aug_store_subscript(st.target, v, env, st)
        else:
            self.bind_target(st.target, v, env, st)
        return _Flow(env)

    def aug_store_subscript(self, target: ast.Subscript, value: Any, env: Env, stmt: ast.stmt) -> None:
        self.store_subscript(target, value, env, stmt)

    def stmt_Expr(self, st: ast.Expr, env: Env) -> _Flow:
        self.expr_stmt(st, env)
        return _Flow(env)

    def stmt_Return(self, st: ast.Return, env: Env) -> _Flow:
        v = self.eval(st.value, env) if st.value is not None else None
        self.on_return(v, st, env)
        return _Flow(None)

    def stmt_Raise(self, st: ast.Raise, env: Env) -> _Flow:
        self.raises.append((st, dict(env)))
        return _Flow(None)

    def stmt_Pass(self, st, env):
        return _Flow(env)

    def stmt_Import(self, st, env):
        return _Flow(env)

    stmt_ImportFrom = stmt_Import
    stmt_Global = stmt_Import
    stmt_Nonlocal = stmt_Import
    stmt_Assert = stmt_Import

    def stmt_Delete(self, st, env):
        return _Flow(env)

    def stmt_FunctionDef(self, st, env):
        env[st.name] = self.closure(st, env)
        return _Flow(env)

    def closure(self, st: ast.FunctionDef, env: Env) -> Any:
        return self.top()

    def stmt_Break(self, st, env):
        f = _Flow(None)
        f.breaks.append(env)
        return f

    def stmt_Continue(self, st, env):
        f = _Flow(None)
        f.continues.append(env)
        return f

    def stmt_If(self, st: ast.If, env: Env) -> _Flow:
        d = self._decide(st.test, env)
        if d is None:
            self.eval(st.test, env)
        flows = []
        if d is not False:
            flows.append(self.exec_block(st.body, self.refine(st.test, dict(env), True)))
        if d is not True:
            flows.append(self.exec_block(st.orelse, self.refine(st.test, dict(env), False)))
        out = _Flow(None)
        prev_ctx = getattr(self, "join_ctx", None)
        self.join_ctx = st.test  # the condition whose arms are being joined (domains may quote it)
        try:
            for f in flows:
                out.env = self.join_env(out.env, f.env)
                out.breaks += f.breaks
                out.continues += f.continues
        finally:
            self.join_ctx = prev_ctx
        return out

    def _loop(self, st, env: Env, bind: Optional[Callable[[Env], None]], test: Optional[ast.expr]) -> _Flow:
        head: Optional[Env] = dict(env)
        exits: List[Env] = []
        body_end: Optional[Env] = None
        saved_returns = None
        for it in range(self.MAX_ITER + 1):
            cur = dict(head)  # type: ignore[arg-type]
            if bind:
                bind(cur)
            if test is not None:
                self.eval(test, cur)
            n_ret = len(self.returns)
            n_ev = len(self.events)
            f = self.exec_block(st.body, cur)
            body_end = f.env
            for c in f.continues:
                body_end = self.join_env(body_end, c)
            new_head = self.join_env(head, body_end)
            if it == self.MAX_ITER:
                # widen: everything that still changes becomes top
                for k in list(new_head or {}):
                    if head is None or k not in head or not self.val_equal(head[k], new_head[k]):  # type: ignore[index]
                        new_head[k] = self.top()  # type: ignore[index]
            stable = self.env_equal(head, new_head)
            exits = list(f.breaks)
            if stable:
                break
            # discard the returns/events of this non-final iteration (re-collected next time)
            del self.returns[n_ret:]
            del self.events[n_ev:]
            head = new_head
        out_env = dict(head) if head is not None else None
        # the loop may run zero times: fall-through env is the head (join of entry and body end)
        fl = self.exec_block(st.orelse, out_env) if st.orelse else _Flow(out_env)
        res = _Flow(fl.env)
        for e in exits:
            res.env = self.join_env(res.env, e)
        return res

    def stmt_For(self, st: ast.For, env: Env) -> _Flow:
        itv = self.eval(st.iter, env)

        def bind(e: Env):
            self.bind_target(st.target, self.iter_element(itv, st.iter, e), e, st)

        return self._loop(st, env, bind, None)

    def stmt_While(self, st: ast.While, env: Env) -> _Flow:
        return self._loop(st, env, None, st.test)

    def stmt_With(self, st: ast.With, env: Env) -> _Flow:
        for it in st.items:
            v = self.eval(it.context_expr, env)
            if it.optional_vars is not None:
                self.bind_target(it.optional_vars, v, env, st)
        return self.exec_block(st.body, env)

    def stmt_Try(self, st: ast.Try, env: Env) -> _Flow:
        start = dict(env)
        f = self.exec_block(st.body, env)
        out = _Flow(f.env)
        out.breaks += f.breaks
        out.continues += f.continues
        # a handler may start from any point of the body: approximate by join(start, end)
        hstart = self.join_env(start, f.env)
        for h in st.handlers:
            he = dict(hstart) if hstart is not None else dict(start)
            if h.name:
                he[h.name] = self.top()
            hf = self.exec_block(h.body, he)
            out.env = self.join_env(out.env, hf.env)
            out.breaks += hf.breaks
            out.continues += hf.continues
        if st.orelse and f.env is not None:
            ef = self.exec_block(st.orelse, f.env)
            out.env = self.join_env(out.env if st.handlers else None, ef.env) if st.handlers else ef.env
        if st.finalbody and out.env is not None:
            ff = self.exec_block(st.finalbody, out.env)
            out.env = ff.env
        return out


def _as_load(node: ast.AST) -> ast.AST:
    import copy

    n = copy.deepcopy(node)
    for x in ast.walk(n):
        if hasattr(x, "ctx"):
            x.ctx = ast.Load()
    return n
