"""kvstatic - repository-specific static analysis for ipc-lab/kaira (see /verif/DESIGN.md)."""
