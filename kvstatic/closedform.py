"""Closed-form recogniser: compare an expression / statement with a reasoned reference shape.

Verdicts
* exact match (after inlining temporaries, alpha-renaming through metavariables and
  commutative matching) with one of the accepted forms -> OK
* same tree skeleton as the reference but a different *leaf* (operator, numeric constant,
  attribute name) -> VIOLATION: within one skeleton the reference leaf is the only correct one
  (each reference is listed together with its accepted alternatives, so equivalent leaves are
  accepted before this point)
* anything else (different skeleton) -> UNDECIDED: the checker does not know this idiom.
"""
from __future__ import annotations

import ast
import copy
from typing import Dict, List, Optional, Sequence, Tuple

from .astutil import COMMUTATIVE, Inliner, _is_meta, aug_to_assign, match, parse_pattern
from .core import OK, UNDECIDED, VIOLATION, FuncInfo, Report, unparse


class Canon(ast.NodeTransformer):
    """Equivalence-preserving normalisation applied to both sides before matching."""

    def visit_BinOp(self, n: ast.BinOp):
        self.generic_visit(n)
        # integer parity: x % 2  ==  x & 1
        if isinstance(n.op, ast.Mod) and isinstance(n.right, ast.Constant) and n.right.value == 2 and getattr(self, "int_context", False):
            return ast.copy_location(ast.BinOp(left=n.left, op=ast.BitAnd(), right=ast.Constant(1)), n)
        # 1 << k written as 2 ** k
        if isinstance(n.op, ast.Pow) and isinstance(n.left, ast.Constant) and n.left.value == 2 and getattr(self, "int_context", False):
            return ast.copy_location(ast.BinOp(left=ast.Constant(1), op=ast.LShift(), right=n.right), n)
        return n

    def visit_Constant(self, n: ast.Constant):
        if isinstance(n.value, float) and n.value == int(n.value) and abs(n.value) < 1e9:
            return ast.copy_location(ast.Constant(int(n.value)), n)
        return n


def canon(node: ast.AST, int_context: bool = False) -> ast.AST:
    c = Canon()
    c.int_context = int_context  # type: ignore[attr-defined]
    node = copy.deepcopy(node)
    if isinstance(node, ast.stmt):
        node = aug_to_assign(node)
    return ast.fix_missing_locations(c.visit(node))


def leaf_diff(node, pat, binds: Dict[str, ast.AST], diffs: List[str], path: str = "") -> bool:
    """Walk ``node`` and ``pat`` in lock step.  Returns False on a skeleton mismatch.

    Leaf differences are appended to ``diffs``.
    """
    if isinstance(pat, ast.Name) and _is_meta(pat.id):
        if pat.id == "_ANY":
            return True
        if pat.id in binds:
            if match(node, binds[pat.id], commutative=False) is None:
                diffs.append(f"{path}: got `{unparse(node)}` where `{unparse(binds[pat.id])}` is required (same operand as elsewhere in the form)")
            return True
        binds[pat.id] = node
        return True
    if isinstance(pat, ast.AST):
        if not isinstance(node, ast.AST):
            return False
        if isinstance(pat, ast.expr_context):
            return True
        if isinstance(pat, (ast.operator, ast.cmpop, ast.unaryop, ast.boolop)):
            if type(node) is not type(pat):
                diffs.append(f"{path}: operator `{type(node).__name__}` where `{type(pat).__name__}` is required")
            return True
        if type(node) is not type(pat):
            return False
        if isinstance(pat, ast.Constant):
            if not (type(node.value) is type(pat.value) and node.value == pat.value) and not (isinstance(node.value, (int, float)) and isinstance(pat.value, (int, float)) and not isinstance(node.value, bool) and node.value == pat.value):
                if isinstance(node.value, (int, float, bool, str, type(None))) and isinstance(pat.value, (int, float, bool, str, type(None))):
                    diffs.append(f"{path}: constant `{node.value!r}` where `{pat.value!r}` is required")
                    return True
                return False
            return True
        if isinstance(pat, ast.Name):
            if node.id != pat.id:
                diffs.append(f"{path}: name `{node.id}` where `{pat.id}` is required")
            return True
        if isinstance(pat, ast.Attribute):
            if node.attr != pat.attr:
                diffs.append(f"{path}: attribute `.{node.attr}` where `.{pat.attr}` is required")
            return leaf_diff(node.value, pat.value, binds, diffs, path + ".value")
        if isinstance(pat, ast.BinOp) and isinstance(pat.op, COMMUTATIVE) and type(node.op) is type(pat.op):
            # choose the operand order with fewer differences
            best = None
            for l, r in ((node.left, node.right), (node.right, node.left)):
                bb = dict(binds)
                dd: List[str] = []
                ok = leaf_diff(l, pat.left, bb, dd, path + ".l") and leaf_diff(r, pat.right, bb, dd, path + ".r")
                if ok and (best is None or len(dd) < len(best[1])):
                    best = (bb, dd)
            if best is None:
                return False
            binds.clear()
            binds.update(best[0])
            diffs.extend(best[1])
            return True
        for fld in pat._fields:
            if fld in ("ctx", "type_comment", "kind", "lineno"):
                continue
            if not leaf_diff(getattr(node, fld, None), getattr(pat, fld, None), binds, diffs, f"{path}.{fld}"):
                return False
        return True
    if isinstance(pat, list):
        if not isinstance(node, list) or len(node) != len(pat):
            return False
        for i, (n, p) in enumerate(zip(node, pat)):
            if not leaf_diff(n, p, binds, diffs, f"{path}[{i}]"):
                return False
        return True
    if node != pat:
        diffs.append(f"{path}: `{node!r}` where `{pat!r}` is required")
    return True


def classify(node: ast.AST, accepted: Sequence[str], int_context: bool = False, binds: Optional[Dict[str, ast.AST]] = None) -> Tuple[str, str, Optional[Dict[str, ast.AST]]]:
    """Return (status, detail, bindings) for ``node`` against the accepted forms (first = reference)."""
    cn = canon(node, int_context)
    pats = [canon(parse_pattern(p), int_context) for p in accepted]
    for p in pats:
        m = match(cn, p, binds)
        if m is not None:
            return OK, f"matches `{unparse(p)}`", m
    best: Optional[List[str]] = None
    best_p = None
    for p in pats:
        diffs: List[str] = []
        b = dict(binds or {})
        if leaf_diff(cn, p, b, diffs):
            if diffs and (best is None or len(diffs) < len(best)):
                best, best_p = diffs, p
    if best is not None and len(best) <= 3:
        # a difference that consists only of FRESH names (names that occur in none of the accepted forms) is a renaming of
        # locals, not a wrong operand: no verdict.  A name that plays another role in the accepted forms (x2 where x1 is
        # required) stays a violation.
        import re as _re

        known = {n_.id for p_ in pats for n_ in ast.walk(p_) if isinstance(n_, ast.Name)}
        name_diffs = [_re.match(r".*: name `([^`]+)` where `([^`]+)` is required$", d_) for d_ in best]
        if all(m_ is not None for m_ in name_diffs) and all(m_.group(1) not in known for m_ in name_diffs):
            ren = {}
            consistent = True
            for m_ in name_diffs:
                consistent = consistent and ren.setdefault(m_.group(2), m_.group(1)) == m_.group(1)
            if consistent and len(set(ren.values())) == len(ren):
                return UNDECIDED, f"differs from the closed form `{unparse(best_p)}` only in the names of locals ({', '.join(f'{b_} -> {a_}' for b_, a_ in ren.items())}): a renaming is not a verdict", None
        return VIOLATION, f"differs from the closed form `{unparse(best_p)}`: " + "; ".join(best), None
    return UNDECIDED, f"shape `{unparse(cn)}` is none of the known forms of `{unparse(pats[0])}`", None


def check_expr(report: Report, rule: str, fi: FuncInfo, node: ast.AST, accepted: Sequence[str], what: str, inline: bool = True, int_context: bool = False, binds=None) -> Tuple[str, Optional[Dict[str, ast.AST]]]:
    tgt = Inliner(fi).inline(node) if inline else node
    status, detail, m = classify(tgt, accepted, int_context, binds)
    report.add(rule, fi, f"{what}: {unparse(tgt)}", status, detail, node=node)
    return status, m
