"""Repository model and reporting core of the kaira static checker.

Nothing here imports or executes the code under analysis: every fact comes from
``ast`` trees of the files found under ``<root>/kaira``.
"""
from __future__ import annotations

import ast
import hashlib
import json
import os
import sys
import time
from dataclasses import dataclass, field
from typing import Dict, Iterable, Iterator, List, Optional, Sequence, Tuple

VERIF_DIR = os.path.dirname(os.path.dirname(os.path.abspath(__file__)))


class AnalysisError(Exception):
    """The analysis cannot be carried out (anchor vanished, floor not met, idiom unknown).

    Reported as ``ANALYSIS-ERROR`` and exit status 2, never as a VIOLATION.
    """


# ---------------------------------------------------------------------------
# source model
# ---------------------------------------------------------------------------


def unparse(node: Optional[ast.AST]) -> str:
    """Normalised text of a node (formatting, comments and quoting are erased)."""
    if node is None:
        return ""
    try:
        return ast.unparse(node)
    except Exception:  # pragma: no cover
        return ast.dump(node)


def strip_docstring(body: Sequence[ast.stmt]) -> List[ast.stmt]:
    body = list(body)
    if body and isinstance(body[0], ast.Expr) and isinstance(getattr(body[0], "value", None), ast.Constant) and isinstance(body[0].value.value, str):
        return body[1:]
    return body


@dataclass
class FuncInfo:
    module: "ModuleInfo"
    node: ast.FunctionDef
    cls: Optional["ClassInfo"] = None

    @property
    def name(self) -> str:
        return self.node.name

    @property
    def qualname(self) -> str:
        return f"{self.cls.name}.{self.node.name}" if self.cls else self.node.name

    @property
    def file(self) -> str:
        return self.module.relpath

    @property
    def body(self) -> List[ast.stmt]:
        return strip_docstring(self.node.body)

    @property
    def params(self) -> List[str]:
        a = self.node.args
        names = [x.arg for x in a.posonlyargs + a.args]
        if a.vararg:
            names.append(a.vararg.arg)
        names += [x.arg for x in a.kwonlyargs]
        if a.kwarg:
            names.append(a.kwarg.arg)
        return names

    def is_property(self) -> bool:
        for d in self.node.decorator_list:
            if isinstance(d, ast.Name) and d.id in ("property", "cached_property"):
                return True
            if isinstance(d, ast.Attribute) and d.attr in ("cached_property",):
                return True
        return False

    def where(self) -> str:
        return f"{self.file}::{self.qualname}"

    def nested(self, name: str) -> Optional["FuncInfo"]:
        for n in ast.walk(self.node):
            if isinstance(n, ast.FunctionDef) and n is not self.node and n.name == name:
                fi = FuncInfo(self.module, n, self.cls)
                fi._outer = self  # type: ignore[attr-defined]
                return fi
        return None


@dataclass
class ClassInfo:
    module: "ModuleInfo"
    node: ast.ClassDef
    methods: Dict[str, FuncInfo] = field(default_factory=dict)
    base_names: List[str] = field(default_factory=list)
    bases: List["ClassInfo"] = field(default_factory=list)

    @property
    def name(self) -> str:
        return self.node.name

    @property
    def file(self) -> str:
        return self.module.relpath

    def mro(self) -> List["ClassInfo"]:
        # linearisation good enough for the single-inheritance chains in the repo;
        # falls back to depth-first, left-to-right with duplicates removed (keeping the last)
        out: List[ClassInfo] = []

        def visit(c: "ClassInfo"):
            out.append(c)
            for b in c.bases:
                visit(b)

        visit(self)
        seen = set()
        res = []
        for c in reversed(out):
            if id(c) not in seen:
                seen.add(id(c))
                res.append(c)
        return list(reversed(res))

    def find_method(self, name: str) -> Optional[FuncInfo]:
        for c in self.mro():
            if name in c.methods:
                return c.methods[name]
        return None

    def is_subclass_of(self, other_name: str) -> bool:
        return any(c.name == other_name for c in self.mro())

    def class_assigns(self) -> Dict[str, ast.expr]:
        out = {}
        for st in self.node.body:
            if isinstance(st, ast.Assign) and len(st.targets) == 1 and isinstance(st.targets[0], ast.Name):
                out[st.targets[0].id] = st.value
        return out

    def decorators(self) -> List[str]:
        return [unparse(d) for d in self.node.decorator_list]


@dataclass
class ModuleInfo:
    name: str
    path: str
    relpath: str
    tree: ast.Module
    source: str
    classes: Dict[str, ClassInfo] = field(default_factory=dict)
    functions: Dict[str, FuncInfo] = field(default_factory=dict)
    imports: Dict[str, str] = field(default_factory=dict)  # local name -> dotted target
    aliases: Dict[str, str] = field(default_factory=dict)  # module-level Name = Name


class Repo:
    """All modules of ``<root>/kaira`` parsed once."""

    def __init__(self, root: str):
        self.root = os.path.abspath(root)
        self.pkg_dir = os.path.join(self.root, "kaira")
        if not os.path.isdir(self.pkg_dir):
            raise AnalysisError(f"package directory not found: {self.pkg_dir}")
        self.modules: Dict[str, ModuleInfo] = {}
        self.by_relpath: Dict[str, ModuleInfo] = {}
        self.classes_by_name: Dict[str, List[ClassInfo]] = {}
        self.consulted: set = set()
        self._load()
        self._link()

    # -- loading ---------------------------------------------------------
    def _load(self) -> None:
        for dirpath, dirnames, filenames in os.walk(self.pkg_dir):
            dirnames[:] = sorted(d for d in dirnames if d != "__pycache__")
            for fn in sorted(filenames):
                if not fn.endswith(".py"):
                    continue
                path = os.path.join(dirpath, fn)
                rel = os.path.relpath(path, self.root)
                modname = rel[:-3].replace(os.sep, ".")
                if modname.endswith(".__init__"):
                    modname = modname[: -len(".__init__")]
                with open(path, "r", encoding="utf-8") as fh:
                    src = fh.read()
                try:
                    tree = ast.parse(src, filename=path)
                except SyntaxError as exc:
                    raise AnalysisError(f"cannot parse {rel}: {exc}")
                # a function that equals its reference up to a renaming of locals is read under the reference names (alpha.py)
                from .alpha import normalise_module

                self.alpha_notes = getattr(self, "alpha_notes", []) + normalise_module(rel, tree)
                mi = ModuleInfo(modname, path, rel, tree, src)
                self._index_module(mi)
                self.modules[modname] = mi
                self.by_relpath[rel] = mi

    def _index_module(self, mi: ModuleInfo) -> None:
        is_pkg = mi.path.endswith("__init__.py")
        for st in mi.tree.body:
            if isinstance(st, ast.ClassDef):
                ci = ClassInfo(mi, st)
                for b in st.bases:
                    ci.base_names.append(unparse(b))
                for s2 in st.body:
                    if isinstance(s2, (ast.FunctionDef, ast.AsyncFunctionDef)):
                        ci.methods[s2.name] = FuncInfo(mi, s2, ci)  # type: ignore[arg-type]
                mi.classes[st.name] = ci
                self.classes_by_name.setdefault(st.name, []).append(ci)
            elif isinstance(st, (ast.FunctionDef, ast.AsyncFunctionDef)):
                mi.functions[st.name] = FuncInfo(mi, st)  # type: ignore[arg-type]
            elif isinstance(st, ast.Import):
                for a in st.names:
                    mi.imports[(a.asname or a.name).split(".")[0]] = a.name if a.asname else a.name.split(".")[0]
            elif isinstance(st, ast.ImportFrom):
                base = st.module or ""
                if st.level:
                    parts = mi.name.split(".")
                    if not is_pkg:
                        parts = parts[:-1]
                    if st.level > 1:
                        parts = parts[: len(parts) - (st.level - 1)]
                    base = ".".join(parts + ([st.module] if st.module else []))
                for a in st.names:
                    mi.imports[a.asname or a.name] = f"{base}.{a.name}"
            elif isinstance(st, ast.Assign) and len(st.targets) == 1 and isinstance(st.targets[0], ast.Name) and isinstance(st.value, ast.Name):
                mi.aliases[st.targets[0].id] = st.value.id

    def _link(self) -> None:
        for mi in self.modules.values():
            for ci in mi.classes.values():
                for bn in ci.base_names:
                    tgt = self.resolve_class(mi, bn.split("[")[0])
                    if tgt is not None:
                        ci.bases.append(tgt)

    # -- resolution ------------------------------------------------------
    def resolve_dotted(self, dotted: str, depth: int = 0):
        """Resolve ``pkg.mod.Name`` to a ClassInfo / FuncInfo / ModuleInfo, following re-exports."""
        if depth > 8:
            return None
        if dotted in self.modules:
            return self.modules[dotted]
        if "." not in dotted:
            return None
        modname, _, attr = dotted.rpartition(".")
        mi = self.modules.get(modname)
        if mi is None:
            return None
        if attr in mi.classes:
            return mi.classes[attr]
        if attr in mi.functions:
            return mi.functions[attr]
        if attr in mi.aliases:
            return self.resolve_dotted(f"{modname}.{mi.aliases[attr]}", depth + 1)
        if attr in mi.imports:
            return self.resolve_dotted(mi.imports[attr], depth + 1)
        return None

    def resolve_name(self, mi: ModuleInfo, name: str):
        """Resolve a bare or dotted name used inside module ``mi``."""
        head, _, rest = name.partition(".")
        obj = None
        if head in mi.classes:
            obj = mi.classes[head]
        elif head in mi.functions:
            obj = mi.functions[head]
        elif head in mi.aliases:
            return self.resolve_name(mi, mi.aliases[head] + (("." + rest) if rest else ""))
        elif head in mi.imports:
            obj = self.resolve_dotted(mi.imports[head])
        if obj is None or not rest:
            return obj
        if isinstance(obj, ModuleInfo):
            return self.resolve_dotted(f"{obj.name}.{rest}")
        return None

    def resolve_class(self, mi: ModuleInfo, name: str) -> Optional[ClassInfo]:
        obj = self.resolve_name(mi, name)
        return obj if isinstance(obj, ClassInfo) else None

    # -- anchored lookup (vanished anchor => AnalysisError) -------------
    def module(self, relpath: str) -> ModuleInfo:
        mi = self.by_relpath.get(relpath)
        if mi is None:
            raise AnalysisError(f"anchor vanished: file {relpath}")
        self.consulted.add(relpath)
        return mi

    def cls(self, relpath: str, name: str) -> ClassInfo:
        mi = self.module(relpath)
        ci = mi.classes.get(name)
        if ci is None:
            raise AnalysisError(f"anchor vanished: class {name} in {relpath}")
        return ci

    def func(self, relpath: str, qualname: str) -> FuncInfo:
        mi = self.module(relpath)
        if "." in qualname:
            cname, _, mname = qualname.partition(".")
            ci = mi.classes.get(cname)
            if ci is None:
                raise AnalysisError(f"anchor vanished: class {cname} in {relpath}")
            if "." in mname:
                outer, _, inner = mname.partition(".")
                fo = ci.methods.get(outer)
                fi = fo.nested(inner) if fo else None
            else:
                fi = ci.methods.get(mname)
            if fi is None:
                raise AnalysisError(f"anchor vanished: method {qualname} in {relpath}")
            return fi
        fi = mi.functions.get(qualname)
        if fi is None:
            raise AnalysisError(f"anchor vanished: function {qualname} in {relpath}")
        return fi

    def method(self, ci: ClassInfo, name: str) -> FuncInfo:
        fi = ci.find_method(name)
        if fi is None:
            raise AnalysisError(f"anchor vanished: method {name} on {ci.name} (MRO)")
        self.consulted.add(fi.file)
        return fi

    def subclasses(self, base_name: str) -> List[ClassInfo]:
        out = []
        for lst in self.classes_by_name.values():
            for ci in lst:
                if ci.name != base_name and ci.is_subclass_of(base_name):
                    out.append(ci)
        return sorted(out, key=lambda c: (c.file, c.node.lineno))

    def all_classes(self) -> Iterator[ClassInfo]:
        for mi in self.modules.values():
            yield from mi.classes.values()

    def digest(self) -> str:
        h = hashlib.sha256()
        for rel in sorted(self.consulted):
            h.update(rel.encode())
            h.update(self.by_relpath[rel].source.encode())
        return h.hexdigest()[:16]


# ---------------------------------------------------------------------------
# obligations, findings, evidence
# ---------------------------------------------------------------------------

OK, VIOLATION, UNDECIDED = "ok", "violation", "undecided"


@dataclass
class Obligation:
    rule: str
    where: str  # file::qualname
    construct: str  # normalised text of the statement / table / instance
    status: str
    detail: str = ""
    trace: List[str] = field(default_factory=list)
    line: int = 0
    nontrivial: bool = True

    def key(self) -> str:
        return f"{self.rule}|{self.where}|{self.construct}"

    def as_dict(self) -> dict:
        d = {"rule": self.rule, "where": self.where, "construct": self.construct, "status": self.status}
        if self.detail:
            d["detail"] = self.detail
        if self.trace:
            d["trace"] = self.trace
        if self.line:
            d["line"] = self.line
        return d


class Report:
    """Collects the obligations of one property check."""

    def __init__(self, prop: str, repo: Repo):
        self.prop = prop
        self.repo = repo
        self.obligations: List[Obligation] = []
        self.notes: List[str] = []
        self.floors: List[Tuple[str, int, int]] = []  # (what, measured, floor)
        self.undecided_clauses: List[str] = []
        self.decided_clauses: List[str] = []
        self.trusted: List[str] = ["CPython ast", "kvstatic transfer-function and idiom tables"]
        self.extra: Dict[str, object] = {}

    def add(self, rule: str, where, construct, status: str, detail: str = "", trace: Optional[List[str]] = None, node: Optional[ast.AST] = None, nontrivial: bool = True) -> Obligation:
        if isinstance(where, (FuncInfo,)):
            where = where.where()
        elif isinstance(where, ClassInfo):
            where = f"{where.file}::{where.name}"
        if isinstance(construct, ast.AST):
            if node is None:
                node = construct
            construct = unparse(construct)
        construct = " ".join(str(construct).split())
        if len(construct) > 300:
            construct = construct[:297] + "..."
        ob = Obligation(rule, where, construct, status, detail, list(trace or []), getattr(node, "lineno", 0) or 0, nontrivial)
        self.obligations.append(ob)
        return ob

    def ok(self, rule, where, construct, detail="", **kw):
        return self.add(rule, where, construct, OK, detail, **kw)

    def violation(self, rule, where, construct, detail="", **kw):
        return self.add(rule, where, construct, VIOLATION, detail, **kw)

    def undecided(self, rule, where, construct, detail="", **kw):
        return self.add(rule, where, construct, UNDECIDED, detail, **kw)

    def check(self, cond: bool, rule, where, construct, detail_ok="", detail_bad="", **kw):
        return self.add(rule, where, construct, OK if cond else VIOLATION, detail_ok if cond else (detail_bad or detail_ok), **kw)

    def shape(self, ok: bool, wrong: bool, rule, where, construct, detail_ok="", detail_wrong="", detail_unknown="", **kw):
        """Three-way verdict for recognisers: a listed correct form is OK, a recognised WRONG form is a VIOLATION,
        anything else is UNDECIDED (unknown idiom: exit 2, never an alarm)."""
        if ok:
            return self.add(rule, where, construct, OK, detail_ok, **kw)
        if wrong:
            return self.add(rule, where, construct, VIOLATION, detail_wrong or detail_ok, **kw)
        return self.add(rule, where, construct, UNDECIDED, "code shape not recognised - " + (detail_unknown or detail_wrong or detail_ok), **kw)

    def expect(self, cond: bool, rule, where, construct, detail_ok="", detail_bad="", **kw):
        """Shape recogniser: a match is OK, a mismatch is UNDECIDED (unknown idiom), never a violation."""
        return self.add(rule, where, construct, OK if cond else UNDECIDED, detail_ok if cond else ("code shape not recognised - " + (detail_bad or detail_ok)), **kw)

    def floor(self, what: str, measured: int, floor: int) -> None:
        self.floors.append((what, measured, floor))

    def note(self, text: str) -> None:
        self.notes.append(text)


def load_known_findings(path: Optional[str] = None) -> dict:
    path = path or os.path.join(VERIF_DIR, "known_findings.json")
    if not os.path.exists(path):
        return {"findings": [], "fixed": []}
    with open(path, "r", encoding="utf-8") as fh:
        return json.load(fh)


def finish(report: Report, tier: str, seed: int, t0: float, evidence_dir: str, explanation: str, replay_only: Optional[List[dict]] = None) -> int:
    """Print the verdict, write evidence and replay files, return the exit status."""
    prop = report.prop
    kf = load_known_findings()
    known = {}
    for f in kf.get("findings", []):
        if f.get("property") == prop:
            known[f["key"]] = f
    obs = report.obligations
    if replay_only is not None:
        keys = {r.get("key") for r in replay_only}
        obs = [o for o in obs if o.key() in keys]
    viol = [o for o in obs if o.status == VIOLATION]
    und = [o for o in obs if o.status == UNDECIDED]
    new_viol = [o for o in viol if o.key() not in known]
    kn_viol = [o for o in viol if o.key() in known]

    by_rule: Dict[str, int] = {}
    for o in obs:
        by_rule[o.rule] = by_rule.get(o.rule, 0) + 1
    print(f"[{prop}] analysed {len(report.repo.consulted)} files, {len(obs)} obligations over {len(by_rule)} rules: " + ", ".join(f"{k}={v}" for k, v in sorted(by_rule.items())))
    for what, measured, fl in report.floors:
        print(f"[{prop}] floor {what}: {measured} (>= {fl})")
    for n in report.notes:
        print(f"[{prop}] note: {n}")

    floor_fail = [(w, m, f) for (w, m, f) in report.floors if m < f]
    status = 0
    for o in kn_viol:
        print(f"KNOWN-FINDING: property={prop} {o.rule} {o.where} :: {o.construct} -- {known[o.key()].get('what', o.detail)}")
    for o in new_viol:
        print(f"[{prop}] rule {o.rule} {o.where}" + (f" (line {o.line})" if o.line else ""))
        print(f"      construct: {o.construct}")
        if o.detail:
            print(f"      {o.detail}")
        for t in o.trace:
            print(f"      trace: {t}")
    replay_path = os.path.join(evidence_dir, f"{prop}.replay.json")
    if new_viol:
        os.makedirs(evidence_dir, exist_ok=True)
        with open(replay_path, "w", encoding="utf-8") as fh:
            json.dump([dict(o.as_dict(), key=o.key()) for o in new_viol], fh, indent=1)
        print(f"VIOLATION property={prop} replay={replay_path}")
        status = 1
    elif os.path.exists(replay_path) and replay_only is None:
        try:
            os.remove(replay_path)
        except OSError:
            pass
    if status == 0 and (und or floor_fail):
        for o in und:
            print(f"UNDECIDED property={prop} rule {o.rule} {o.where} :: {o.construct} -- {o.detail}")
            for t in o.trace:
                print(f"      trace: {t}")
        for w, m, f in floor_fail:
            print(f"ANALYSIS-ERROR property={prop} instance floor not met: {w} measured {m} < {f}")
        if und:
            print(f"ANALYSIS-ERROR property={prop} {len(und)} obligation(s) could not be decided (unknown idiom); no verdict")
        status = 2

    # evidence
    distinct = len({o.key() for o in obs if o.nontrivial})
    samples = []
    seen_rules = set()
    for o in obs:  # one sample per rule first, then fill up
        if o.rule not in seen_rules:
            seen_rules.add(o.rule)
            samples.append(o.as_dict())
    for o in obs:
        if len(samples) >= 40:
            break
        d = o.as_dict()
        if d not in samples:
            samples.append(d)
    ev = {
        "property_id": prop,
        "tier": tier,
        "seed": seed,
        "level": "other",
        "coverage": {
            "explanation": explanation,
            "evaluations": len(obs),
            "distinct_nontrivial": distinct,
            "rule": "one evaluation = one rule instance (obligation) decided on a construct of /repo's current source; distinct = distinct (rule, file::qualname, normalised construct) keys; non-trivial = the obligation constrains the construct (vacuous/bookkeeping instances are excluded)",
            "samples": samples,
            "obligations": len(obs),
            "discharged": len([o for o in obs if o.status == OK]),
            "known_findings_reported": len(kn_viol),
            "undecided": len(und),
            "per_rule": by_rule,
            "files_consulted": sorted(report.repo.consulted),
            "source_digest": report.repo.digest(),
            "instance_floors": [{"what": w, "measured": m, "floor": f} for (w, m, f) in report.floors],
            "clauses_decided": report.decided_clauses,
            "clauses_not_decided": report.undecided_clauses,
            "checker_cmd": f"./check {prop} --tier {tier}",
            "trusted_base": report.trusted,
            "exhaustive": False,
        },
        "assumptions": [
            "static analysis of the syntax trees of /repo/kaira; repository code is never imported or executed",
            "a pass means every armed obligation holds on the constructs listed; it does not establish the behavioural property for all inputs",
            "not modelled: monkey-patching, subclasses outside /repo/kaira, user callables",
        ],
        "wall_s": round(time.time() - t0, 3),
        "violations": len(new_viol),
    }
    ev["coverage"].update(report.extra)
    if replay_only is None:
        os.makedirs(evidence_dir, exist_ok=True)
        tmp = os.path.join(evidence_dir, f".{prop}.json.tmp")
        with open(tmp, "w", encoding="utf-8") as fh:
            json.dump(ev, fh, indent=1, sort_keys=False)
        os.replace(tmp, os.path.join(evidence_dir, f"{prop}.json"))
    print(f"[{prop}] verdict: " + {0: "holds on everything analysed", 1: "VIOLATION", 2: "no verdict (analysis error)"}[status] + f" ({len(obs)} obligations, {len(kn_viol)} known finding(s), {len(new_viol)} new violation(s), {len(und)} undecided)")
    return status
