"""AST utilities: parent links, def-use helpers, inlining, pattern matching with metavariables."""
from __future__ import annotations

import ast
import copy
import re
from typing import Callable, Dict, Iterable, Iterator, List, Optional, Sequence, Set, Tuple

from .core import FuncInfo, unparse

COMMUTATIVE = (ast.Add, ast.Mult, ast.BitXor, ast.BitOr, ast.BitAnd)


def set_parents(root: ast.AST) -> None:
    for node in ast.walk(root):
        for ch in ast.iter_child_nodes(node):
            ch._parent = node  # type: ignore[attr-defined]


def parent(node: ast.AST) -> Optional[ast.AST]:
    return getattr(node, "_parent", None)


def ancestors(node: ast.AST) -> Iterator[ast.AST]:
    p = parent(node)
    while p is not None:
        yield p
        p = parent(p)


def enclosing_stmt(node: ast.AST) -> Optional[ast.stmt]:
    n: Optional[ast.AST] = node
    while n is not None and not isinstance(n, ast.stmt):
        n = parent(n)
    return n  # type: ignore[return-value]


def walk_no_nested(node: ast.AST) -> Iterator[ast.AST]:
    """ast.walk that does not descend into nested function / class / lambda definitions."""
    todo = [node]
    first = True
    while todo:
        n = todo.pop()
        if not first and isinstance(n, (ast.FunctionDef, ast.AsyncFunctionDef, ast.ClassDef, ast.Lambda)):
            continue
        first = False
        yield n
        todo.extend(reversed(list(ast.iter_child_nodes(n))))


def stmts_of(body: Sequence[ast.stmt], nested: bool = False) -> Iterator[ast.stmt]:
    """All statements of a body in source order (recursively through compound statements)."""
    for st in body:
        yield st
        for fld in ("body", "orelse", "finalbody"):
            sub = getattr(st, fld, None)
            if isinstance(sub, list) and sub and isinstance(sub[0], ast.stmt):
                if isinstance(st, (ast.FunctionDef, ast.AsyncFunctionDef, ast.ClassDef)) and not nested:
                    continue
                yield from stmts_of(sub, nested)
        if isinstance(st, ast.Try):
            for h in st.handlers:
                yield from stmts_of(h.body, nested)
        if hasattr(ast, "Match") and isinstance(st, getattr(ast, "Match")):
            for c in st.cases:
                yield from stmts_of(c.body, nested)


def names_in(node: ast.AST) -> Set[str]:
    return {n.id for n in ast.walk(node) if isinstance(n, ast.Name)}


def attr_chain(node: ast.AST) -> Optional[str]:
    """``self.modulator.bit_patterns`` -> 'self.modulator.bit_patterns' (None if not a pure chain)."""
    parts = []
    n = node
    while isinstance(n, ast.Attribute):
        parts.append(n.attr)
        n = n.value
    if isinstance(n, ast.Name):
        parts.append(n.id)
        return ".".join(reversed(parts))
    return None


def call_name(node: ast.AST) -> Optional[str]:
    """Dotted name of the callee of a Call node (``torch.abs``, ``self._helper``, ``x.reshape`` -> '?.reshape')."""
    if not isinstance(node, ast.Call):
        return None
    ch = attr_chain(node.func)
    if ch is not None:
        return ch
    if isinstance(node.func, ast.Attribute):
        return "?." + node.func.attr
    return None


def method_name(node: ast.AST) -> Optional[str]:
    if isinstance(node, ast.Call) and isinstance(node.func, ast.Attribute):
        return node.func.attr
    return None


def const_value(node: ast.AST):
    """Python value of a literal expression (ints, floats, strings, tuples/lists, unary minus); else raises ValueError."""
    try:
        return ast.literal_eval(node)
    except Exception:
        raise ValueError("not a literal")


def is_const(node: ast.AST, value=None) -> bool:
    try:
        v = const_value(node)
    except ValueError:
        return False
    if value is None:
        return True
    return type(v) in (int, float, bool) and v == value if isinstance(value, (int, float)) else v == value


def num_value(node: ast.AST) -> Optional[float]:
    """Numeric value of a literal arithmetic expression (``2**0.5``, ``-1e-9``, ``1 / 2``)."""
    if isinstance(node, ast.Constant) and isinstance(node.value, (int, float)) and not isinstance(node.value, bool):
        return node.value
    if isinstance(node, ast.UnaryOp) and isinstance(node.op, (ast.USub, ast.UAdd)):
        v = num_value(node.operand)
        if v is None:
            return None
        return -v if isinstance(node.op, ast.USub) else v
    if isinstance(node, ast.BinOp):
        l, r = num_value(node.left), num_value(node.right)
        if l is None or r is None:
            return None
        try:
            if isinstance(node.op, ast.Add):
                return l + r
            if isinstance(node.op, ast.Sub):
                return l - r
            if isinstance(node.op, ast.Mult):
                return l * r
            if isinstance(node.op, ast.Div):
                return l / r
            if isinstance(node.op, ast.Pow):
                return l**r
            if isinstance(node.op, ast.FloorDiv):
                return l // r
        except Exception:
            return None
    if isinstance(node, ast.Call) and call_name(node) == "float" and len(node.args) == 1:
        if isinstance(node.args[0], ast.Constant) and node.args[0].value in ("inf", "-inf"):
            return float(node.args[0].value)
    return None


# ---------------------------------------------------------------------------
# assignments / inlining
# ---------------------------------------------------------------------------


def assignments(func_node: ast.AST) -> Dict[str, List[Tuple[ast.stmt, Optional[ast.expr]]]]:
    """name -> list of (statement, value-or-None) for every binding of a local name."""
    out: Dict[str, List[Tuple[ast.stmt, Optional[ast.expr]]]] = {}

    def bind(t: ast.AST, st: ast.stmt, val: Optional[ast.expr]):
        if isinstance(t, ast.Name):
            out.setdefault(t.id, []).append((st, val))
        elif isinstance(t, (ast.Tuple, ast.List)):
            vals = val.elts if isinstance(val, (ast.Tuple, ast.List)) and len(val.elts) == len(t.elts) else None
            for i, e in enumerate(t.elts):
                bind(e, st, vals[i] if vals else None)
        elif isinstance(t, ast.Starred):
            bind(t.value, st, None)

    for n in walk_no_nested(func_node):
        if isinstance(n, ast.Assign):
            for t in n.targets:
                bind(t, n, n.value)
        elif isinstance(n, ast.AnnAssign) and n.value is not None:
            bind(n.target, n, n.value)
        elif isinstance(n, ast.AugAssign):
            bind(n.target, n, None)
        elif isinstance(n, (ast.For, ast.AsyncFor)):
            bind(n.target, n, None)
        elif isinstance(n, ast.With):
            for it in n.items:
                if it.optional_vars is not None:
                    bind(it.optional_vars, n, None)
        elif isinstance(n, ast.NamedExpr):
            bind(n.target, enclosing_stmt(n) or n, n.value)  # type: ignore[arg-type]
        elif isinstance(n, ast.comprehension):
            bind(n.target, n, None)  # type: ignore[arg-type]
        elif isinstance(n, ast.ExceptHandler) and n.name:
            out.setdefault(n.name, []).append((n, None))  # type: ignore[arg-type]
    return out


def in_loop(st: ast.AST, stop: ast.AST) -> bool:
    for a in ancestors(st):
        if a is stop:
            return False
        if isinstance(a, (ast.For, ast.While, ast.AsyncFor)):
            return True
    return False


class Inliner:
    """Substitutes single-definition straight-line locals by their defining expression.

    Sound use: comparing expressions after extracting/renaming temporaries.  A local is
    inlined only if it has exactly one binding in the function, that binding is a plain
    assignment outside any loop (relative to the function), and it is not a parameter.
    """

    def __init__(self, fi: FuncInfo, max_depth: int = 12, allow_loop_defs: bool = False):
        self.fi = fi
        set_parents(fi.node)
        self.assigns = assignments(fi.node)
        self.params = set(fi.params)
        self.max_depth = max_depth
        self.allow_loop_defs = allow_loop_defs

    def definition(self, name: str) -> Optional[ast.expr]:
        if name in self.params:
            return None
        lst = self.assigns.get(name)
        if not lst or len(lst) != 1:
            return None
        st, val = lst[0]
        if val is None or not isinstance(st, (ast.Assign, ast.AnnAssign)):
            return None
        if not self.allow_loop_defs and in_loop(st, self.fi.node):
            return None
        return val

    def inline(self, node: ast.AST, depth: int = 0) -> ast.AST:
        node = copy.deepcopy(node)
        return self._inl(node, depth, frozenset())

    def _inl(self, node: ast.AST, depth: int, stack: frozenset) -> ast.AST:
        inl = self

        class T(ast.NodeTransformer):
            def visit_Name(self, n: ast.Name):
                if isinstance(n.ctx, ast.Load) and depth < inl.max_depth and n.id not in stack:
                    d = inl.definition(n.id)
                    if d is not None:
                        return inl._inl(copy.deepcopy(d), depth + 1, stack | {n.id})
                return n

            def visit_Lambda(self, n):
                return n

        return T().visit(node)


# ---------------------------------------------------------------------------
# pattern matching
# ---------------------------------------------------------------------------


_META_RE = re.compile(r"^_[A-Z][A-Z0-9_]*$")


def _is_meta(name: str) -> bool:
    return bool(_META_RE.match(name))


def parse_pattern(src: str) -> ast.AST:
    tree = ast.parse(src.strip(), mode="exec")
    if len(tree.body) == 1 and isinstance(tree.body[0], ast.Expr):
        return tree.body[0].value
    if len(tree.body) == 1:
        return tree.body[0]
    return tree


def match(node: ast.AST, pat, binds: Optional[Dict[str, ast.AST]] = None, commutative: bool = True) -> Optional[Dict[str, ast.AST]]:
    """Structural match of ``node`` against ``pat`` (pattern source or AST).

    Names ``_X`` (underscore + capitals/digits) in the pattern are metavariables; a repeated
    metavariable must bind structurally equal sub-trees.  Commutative binary operators are
    tried in both orders.  Contexts (Load/Store) and positions are ignored.
    Returns the bindings or None.
    """
    if isinstance(pat, str):
        pat = parse_pattern(pat)
    b = dict(binds or {})
    return b if _match(node, pat, b, commutative) else None


def same(a: ast.AST, b: ast.AST) -> bool:
    return ast.dump(a) == ast.dump(b) if not (isinstance(a, ast.AST) and isinstance(b, ast.AST)) else _match(a, b, None, False)


def _match(node, pat, b: Optional[Dict[str, ast.AST]], comm: bool) -> bool:
    if isinstance(pat, ast.Name) and b is not None and _is_meta(pat.id):
        if pat.id == "_ANY":
            return True
        if pat.id in b:
            return _match(node, b[pat.id], None, False)
        b[pat.id] = node
        return True
    if isinstance(pat, ast.AST):
        if not isinstance(node, ast.AST):
            return False
        if isinstance(pat, ast.expr_context):
            return True
        if type(node) is not type(pat):
            # int/float literal tolerance: 2 vs 2.0
            return False
        if isinstance(pat, ast.Constant):
            pv, nv = pat.value, node.value
            if isinstance(pv, (int, float)) and isinstance(nv, (int, float)) and not isinstance(pv, bool) and not isinstance(nv, bool):
                return pv == nv
            return type(pv) is type(nv) and pv == nv
        if comm and isinstance(pat, ast.BinOp) and isinstance(pat.op, COMMUTATIVE) and type(node.op) is type(pat.op):
            for l, r in ((node.left, node.right), (node.right, node.left)):
                bb = dict(b) if b is not None else None
                if _match(l, pat.left, bb, comm) and _match(r, pat.right, bb, comm):
                    if b is not None:
                        b.clear()
                        b.update(bb)  # type: ignore[arg-type]
                    return True
            return False
        for fld in pat._fields:
            if fld in ("ctx", "type_comment", "kind"):
                continue
            if not _match(getattr(node, fld, None), getattr(pat, fld, None), b, comm):
                return False
        return True
    if isinstance(pat, list):
        if not isinstance(node, list) or len(node) != len(pat):
            return False
        return all(_match(n, p, b, comm) for n, p in zip(node, pat))
    return node == pat


def find_all(root: ast.AST, pat, nested: bool = False) -> List[Tuple[ast.AST, Dict[str, ast.AST]]]:
    if isinstance(pat, str):
        pat = parse_pattern(pat)
    out = []
    it = ast.walk(root) if nested else walk_no_nested(root)
    for n in it:
        if type(n) is type(pat) or (isinstance(pat, ast.Name) and _is_meta(pat.id)):
            m = match(n, pat)
            if m is not None:
                out.append((n, m))
    return out


def returns_of(func_node: ast.AST) -> List[ast.Return]:
    return [n for n in walk_no_nested(func_node) if isinstance(n, ast.Return)]


def calls_in(node: ast.AST, nested: bool = False) -> List[ast.Call]:
    it = ast.walk(node) if nested else walk_no_nested(node)
    return [n for n in it if isinstance(n, ast.Call)]


def aug_to_assign(st: ast.stmt) -> ast.stmt:
    """``x ^= e`` -> ``x = x ^ e`` (normal form for matching)."""
    if isinstance(st, ast.AugAssign):
        tgt_load = copy.deepcopy(st.target)
        for n in ast.walk(tgt_load):
            if hasattr(n, "ctx"):
                n.ctx = ast.Load()
        new = ast.Assign(targets=[st.target], value=ast.BinOp(left=tgt_load, op=st.op, right=st.value))
        return ast.copy_location(new, st)
    return st


def normalised_statements(func_node: ast.AST) -> List[ast.stmt]:
    """Statements of a function with behaviour-preserving spelling differences removed:
    * scalar aliases (`half = N // 2`: a single definition, an arithmetic expression over names and constants) are
      substituted into their uses and dropped;
    * parallel tuple assignments `a, b = e1, e2` are split into `a = e1`, `b = e2`;
    * `if not c: A else: B` is rewritten to `if c: B else: A`."""
    import copy

    fn = copy.deepcopy(func_node)
    defs: Dict[str, List[ast.Assign]] = {}
    for st in ast.walk(fn):
        if isinstance(st, ast.Assign) and len(st.targets) == 1 and isinstance(st.targets[0], ast.Name):
            defs.setdefault(st.targets[0].id, []).append(st)
        elif isinstance(st, (ast.AugAssign, ast.For)) and isinstance(getattr(st, "target", None), ast.Name):
            defs.setdefault(st.target.id, []).append(None)  # type: ignore[arg-type]

    def scalar(e: ast.AST) -> bool:
        return all(isinstance(x, (ast.BinOp, ast.UnaryOp, ast.Name, ast.Constant, ast.operator, ast.unaryop, ast.expr_context, ast.Attribute)) for x in ast.walk(e)) and isinstance(e, (ast.BinOp, ast.UnaryOp))

    alias = {k: v[0].value for k, v in defs.items() if len(v) == 1 and v[0] is not None and scalar(v[0].value)}
    params = {a.arg for a in getattr(fn, "args", ast.arguments(posonlyargs=[], args=[], kwonlyargs=[], kw_defaults=[], defaults=[])).args}
    alias = {k: v for k, v in alias.items() if k not in params}

    class Sub(ast.NodeTransformer):
        def visit_Name(self, n):
            if isinstance(n.ctx, ast.Load) and n.id in alias:
                return copy.deepcopy(alias[n.id])
            return n

        def visit_If(self, n):
            self.generic_visit(n)
            if isinstance(n.test, ast.UnaryOp) and isinstance(n.test.op, ast.Not) and n.orelse:
                n.test, n.body, n.orelse = n.test.operand, n.orelse, n.body
            return n

    out: List[ast.stmt] = []

    def emit(body):
        res = []
        for st in body:
            if isinstance(st, ast.Assign) and len(st.targets) == 1 and isinstance(st.targets[0], ast.Name) and st.targets[0].id in alias:
                continue
            if isinstance(st, ast.Assign) and len(st.targets) == 1 and isinstance(st.targets[0], ast.Tuple) and isinstance(st.value, ast.Tuple) and len(st.targets[0].elts) == len(st.value.elts) and not any(isinstance(e, ast.Starred) for e in st.targets[0].elts + st.value.elts):
                for t, v in zip(st.targets[0].elts, st.value.elts):
                    res.append(ast.copy_location(ast.Assign(targets=[t], value=v), st))
                continue
            for fld in ("body", "orelse", "finalbody"):
                if hasattr(st, fld) and isinstance(getattr(st, fld), list):
                    setattr(st, fld, emit(getattr(st, fld)))
            res.append(st)
        return res

    for _ in range(3):  # aliases of aliases
        fn = ast.fix_missing_locations(Sub().visit(fn))
    fn.body = emit(fn.body)
    return list(stmts_of(fn.body))


def statement_texts(fi) -> List[str]:
    """Unparsed statements of a function: as written, plus their normalised spelling (see normalised_statements)."""
    raw = [unparse(s) for s in stmts_of(fi.body)]
    try:
        norm = [unparse(s) for s in normalised_statements(fi.node)]
    except Exception:
        norm = []
    return raw + [t for t in norm if t not in raw]
