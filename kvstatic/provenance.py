"""Kit J (part): stage-provenance interpreter.

Abstract value = finite set of *terms* describing through which pipeline stages a value has
passed, e.g. ``dec(ch(pc(sum[dim=0](stack(list(enc(x[i],*,**)))),*,**),*,**)``.  A term is built
when a call resolves to a designated *stage* (an attribute of ``self`` holding a component, or
an element of a stage list); every other operation is transparent or wraps its operands by
its own name.  Order, multiplicity ("exactly once") and argument forwarding of the stages are
then read off the returned term; no execution, no path enumeration (branches are joined as
sets, or resolved by the configuration under which the function is analysed).
"""
from __future__ import annotations

import ast
from typing import Callable, Dict, FrozenSet, List, Optional

from .absint import Env, Interp
from .astutil import attr_chain, call_name, unparse
from .core import ClassInfo, FuncInfo, Repo

NONE: FrozenSet[str] = frozenset()
MAX_TERMS = 64
MAX_LEN = 1500


def single(t: str) -> FrozenSet[str]:
    return frozenset([t])


class Provenance(Interp):
    MAX_ITER = 2

    def __init__(self, fi: FuncInfo, repo: Repo, stage_of: Callable[[ast.Call, Env, "Provenance"], Optional[str]], cls: Optional[ClassInfo] = None, config=None, transparent=(), depth: int = 0):
        super().__init__(fi)
        self.repo = repo
        self.cls = cls or fi.cls
        self.stage_of = stage_of
        self.config = config
        self.transparent = set(transparent) | {"reshape", "view", "to", "float", "clone", "contiguous", "detach", "squeeze", "unsqueeze", "long", "int", "double"}
        self.depth = depth
        self.stage_calls: List[tuple] = []  # (tag, node, in_loop_depth)
        self.loop_depth = 0
        self.overflow = False

    def top(self):
        return single("?")

    def join(self, a, b):
        if a is None:
            return b
        if b is None:
            return a
        u = frozenset(a) | frozenset(b)
        if len(u) > MAX_TERMS:
            self.overflow = True
            return single("?")
        return u

    def join_missing(self, v, key):
        return v

    def unbound(self, name, node, env):
        return NONE

    def decide(self, test, env):
        if self.config is not None:
            return self.config(test, env)
        return None

    # expressions -----------------------------------------------------------
    def eval_Constant(self, node, env):
        if node.value is None:
            return single("None")
        return NONE

    def eval_Name(self, node, env):
        if node.id in env:
            return env[node.id]
        return NONE

    def attribute(self, node, base, env):
        ch = attr_chain(node)
        if ch and ch.startswith("self."):
            return single(ch)
        return base

    def eval_Subscript(self, node, env):
        base = self.eval(node.value, env)
        self.eval(node.slice, env)
        if not base:
            return NONE
        idx = unparse(node.slice)
        if isinstance(node.slice, ast.Name):
            # the name of a loop counter is a spelling: every loop / comprehension variable is written `i` in a term
            lv = getattr(self, "_loop_vars", None)
            if lv is None:
                lv = set()
                for nd in ast.walk(self.fi.node):
                    if isinstance(nd, (ast.For, ast.comprehension)):
                        lv |= {x.id for x in ast.walk(nd.target) if isinstance(x, ast.Name)}
                self._loop_vars = lv
            if node.slice.id in lv:
                idx = "i"
        return frozenset(self._cap(f"{b}[{idx}]") for b in base)

    def _cap(self, s: str) -> str:
        if len(s) > MAX_LEN:
            self.overflow = True
            return "?"
        return s

    def _terms(self, name: str, argsets: List[FrozenSet[str]], flags: str = "") -> FrozenSet[str]:
        """Cartesian product of the alternatives of the arguments (bounded)."""
        combos = [""]
        first = True
        for s in argsets:
            alts = sorted(s) if s else None
            if alts is None:
                continue
            new = []
            for c in combos:
                for a in alts:
                    new.append(a if first and c == "" else (c + "," + a))
            combos = new
            first = False
            if len(combos) > MAX_TERMS:
                self.overflow = True
                return single("?")
        out = set()
        for c in combos:
            inner = c + (("," if c and flags else "") + flags if flags else "")
            out.add(self._cap(f"{name}({inner})"))
        return frozenset(out)

    def eval_BinOp(self, node, env):
        a, b = self.eval(node.left, env), self.eval(node.right, env)
        if not a and not b:
            return NONE
        return self._terms(type(node.op).__name__.lower(), [a, b])

    def eval_UnaryOp(self, node, env):
        return self.eval(node.operand, env)

    def eval_Compare(self, node, env):
        self.eval(node.left, env)
        for c in node.comparators:
            self.eval(c, env)
        return NONE

    def eval_BoolOp(self, node, env):
        for v in node.values:
            self.eval(v, env)
        return NONE

    def collection(self, vals, node, env):
        vals = [v for v in vals if v]
        if not vals:
            return NONE
        kind = {ast.List: "list", ast.Tuple: "tuple", ast.ListComp: "list", ast.GeneratorExp: "list", ast.SetComp: "set", ast.DictComp: "dict"}.get(type(node), "seq")
        return self._terms(kind, vals)

    def eval_Dict(self, node, env):
        items = []
        for k, v in zip(node.keys, node.values):
            pv = self.eval(v, env)
            if pv:
                kk = unparse(k) if k is not None else "**"
                items.append(frozenset(f"{kk}:{t}" for t in pv))
        if not items:
            return NONE
        return self._terms("dict", items)

    def iter_element(self, iterable_val, node, env):
        if iterable_val:
            return frozenset(self._cap(f"each({t})") for t in iterable_val)
        return NONE

    def unpack(self, value, n, node):
        if not value:
            return [NONE] * n
        return [frozenset(self._cap(f"{t}.{i}") for t in value) for i in range(n)]

    def eval_Call(self, node: ast.Call, env):
        name = call_name(node) or unparse(node.func)
        short = name.split(".")[-1]
        argvals = [self.eval(a.value if isinstance(a, ast.Starred) else a, env) for a in node.args]
        star = any(isinstance(a, ast.Starred) for a in node.args)
        dstar = any(k.arg is None for k in node.keywords)
        kwvals = {}
        for k in node.keywords:
            v = self.eval(k.value, env)
            if k.arg is not None:
                kwvals[k.arg] = v
        flags = ",".join(x for x in (("*" if star else ""), ("**" if dstar else "")) if x)
        tag = self.stage_of(node, env, self)
        plain_args = [v for a, v in zip(node.args, argvals) if not isinstance(a, ast.Starred)]
        if tag is not None:
            self.stage_calls.append((tag, node, self.loop_depth))
            sets = list(plain_args) + [frozenset(f"{k}={t}" for t in v) for k, v in sorted(kwvals.items()) if v]
            return self._terms(tag, sets, flags)
        # repository methods are analysed in context
        if name.startswith("self.") and name.count(".") == 1 and self.cls is not None and self.depth < 3:
            callee = self.cls.find_method(short)
            if callee is not None:
                return self._call_repo(callee, plain_args, kwvals, node)
        is_method = isinstance(node.func, ast.Attribute) and not name.startswith(("torch.", "F.", "nn."))
        recv = self.eval(node.func.value, env) if is_method else NONE
        if is_method and short in ("append", "extend", "add"):
            return NONE  # handled as a statement
        if is_method and short in ("result",):
            return frozenset(self._cap(f"result({t})") for t in recv) if recv else NONE
        if is_method and short in ("values", "items", "keys", "copy"):
            return frozenset(self._cap(f"{short}({t})") for t in recv) if recv else NONE
        if is_method and short in self.transparent:
            return recv
        if name in ("isinstance", "len", "callable", "hasattr", "range", "print", "type", "bool", "str", "repr", "id", "getattr"):
            return NONE
        lits = []
        for k in node.keywords:
            if k.arg in ("dim", "axis") and isinstance(k.value, ast.Constant):
                lits.append(f"{k.arg}={k.value.value}")
        for a in node.args[1:]:
            if isinstance(a, ast.Constant) and isinstance(a.value, int) and short in ("sum", "cat", "stack", "mean"):
                lits.append(f"dim={a.value}")
        allsets = ([recv] if recv else []) + [v for v in plain_args if v] + [frozenset(f"{k}={t}" for t in v) for k, v in sorted(kwvals.items()) if v]
        if not allsets:
            return NONE
        label = short + (f"[{','.join(lits)}]" if lits else "")
        return self._terms(label, allsets, flags)

    def _call_repo(self, callee: FuncInfo, args, kwvals, node):
        params = [p for p in callee.params if p not in ("self", "cls")]
        env: Env = {}
        for p, a in zip(params, args):
            env[p] = a
        for k, v in kwvals.items():
            env[k] = v
        sub = Provenance(callee, self.repo, self.stage_of, cls=self.cls, config=self.config, transparent=self.transparent, depth=self.depth + 1)
        sub.loop_depth = self.loop_depth
        sub.run(env)
        self.stage_calls += sub.stage_calls
        self.overflow |= sub.overflow
        out = None
        for v, _r, _e in sub.returns:
            if v is not None:
                out = v if out is None else self.join(out, v)
        return out if out is not None else NONE

    def expr_stmt(self, node, env):
        v = node.value
        if isinstance(v, ast.Call) and isinstance(v.func, ast.Attribute) and v.func.attr in ("append", "extend", "add") and v.args:
            key = self.lvalue_key(v.func.value)
            val = self.eval(v.args[0], env)
            if key is not None:
                elem = frozenset(self._cap(f"list({t})") for t in val) if val else NONE
                old = env.get(key) or NONE
                env[key] = self.join(old, elem) if old else elem
            return
        self.eval(v, env)

    def store_subscript(self, target, value, env, stmt):
        key = self.lvalue_key(target.value)
        if key is None:
            return
        idx = unparse(target.slice)
        elem = frozenset(self._cap(f"at[{idx}]({t})") for t in value) if value else NONE
        old = env.get(key) or NONE
        env[key] = self.join(old, elem) if old else elem

    def stmt_For(self, st, env):
        """An accumulation loop over a whole list of values is the sum of the stacked list:
            acc = <zeros>;  for v in L:      acc = acc + v   (or acc += v: acc is a value created here)
            acc = L[0];     for v in L[1:]:  acc = acc + v   (rebinding only: `acc += v` would write into L[0])
        -> acc = sum[dim=0](stack(L)), the term of torch.sum(torch.stack(L), dim=0)."""
        if isinstance(st.iter, (ast.Tuple, ast.List)) and st.iter.elts and all(isinstance(e, ast.Constant) and isinstance(e.value, str) for e in st.iter.elts) and isinstance(st.target, ast.Name) and not st.orelse and not any(isinstance(x, ast.Break) for x in ast.walk(st)) and not any(isinstance(x, (ast.Assign, ast.AugAssign)) and any(isinstance(t, ast.Name) and t.id == st.target.id for t in ast.walk(x.targets[0] if isinstance(x, ast.Assign) else x.target)) for x in ast.walk(st)):
            # a loop over a literal tuple of attribute names is unrolled: the name becomes the constant, and
            # getattr(obj, "name") the attribute obj.name (the stages fetched that way are the declared ones)
            import copy
            from .absint import _Flow

            var = st.target.id

            class _Sub(ast.NodeTransformer):
                def __init__(self, c):
                    self.c = c

                def visit_Name(self, n):
                    return ast.copy_location(ast.Constant(value=self.c), n) if n.id == var and isinstance(n.ctx, ast.Load) else n

                def visit_Call(self, n):
                    self.generic_visit(n)
                    if isinstance(n.func, ast.Name) and n.func.id == "getattr" and len(n.args) == 2 and isinstance(n.args[1], ast.Constant) and isinstance(n.args[1].value, str) and n.args[1].value.isidentifier():
                        return ast.copy_location(ast.Attribute(value=n.args[0], attr=n.args[1].value, ctx=ast.Load()), n)
                    return n

            cur = dict(env)
            self.loop_depth_unrolled = getattr(self, "loop_depth_unrolled", 0) + 1
            try:
                for e in st.iter.elts:
                    body = [ast.fix_missing_locations(_Sub(e.value).visit(copy.deepcopy(b))) for b in st.body]
                    # a local bound once to an attribute chain (`stage = self.quantizer`) is read as that attribute
                    alias = {}
                    for b in body:
                        if isinstance(b, ast.Assign) and len(b.targets) == 1 and isinstance(b.targets[0], ast.Name) and isinstance(b.value, ast.Attribute) and attr_chain(b.value):
                            nm_ = b.targets[0].id
                            if sum(1 for x in body for y in ast.walk(x) if isinstance(y, ast.Name) and y.id == nm_ and isinstance(y.ctx, ast.Store)) == 1:
                                alias[nm_] = b.value

                    class _Al(ast.NodeTransformer):
                        def visit_Name(self, n):
                            return copy.deepcopy(alias[n.id]) if n.id in alias and isinstance(n.ctx, ast.Load) else n

                    if alias:
                        body = [ast.fix_missing_locations(_Al().visit(b)) for b in body]
                    f = self.exec_block(body, cur)
                    nxt = f.env
                    for c in f.continues:
                        nxt = self.join_env(nxt, c)
                    if nxt is None:
                        return _Flow(None)
                    cur = nxt
            finally:
                self.loop_depth_unrolled -= 1
            return _Flow(cur)
        acc = self._accumulation(st, env)
        if acc is not None:
            name, lst = acc
            val = self.eval(lst, env)
            if val:
                from .absint import _Flow

                out = dict(env)
                out[name] = self._terms("sum[dim=0]", [self._terms("stack", [val])])
                if isinstance(st.target, ast.Name):
                    out[st.target.id] = self.iter_element(val, st.iter, out)
                return _Flow(out)
        return super().stmt_For(st, env)

    def _accumulation(self, st, env):
        if st.orelse or len(st.body) != 1 or not isinstance(st.target, ast.Name):
            return None
        b, v = st.body[0], st.target.id
        if isinstance(b, ast.AugAssign) and isinstance(b.op, ast.Add) and isinstance(b.target, ast.Name) and isinstance(b.value, ast.Name) and b.value.id == v:
            acc, inplace = b.target.id, True
        elif isinstance(b, ast.Assign) and len(b.targets) == 1 and isinstance(b.targets[0], ast.Name) and isinstance(b.value, ast.BinOp) and isinstance(b.value.op, ast.Add) and sorted(x.id for x in (b.value.left, b.value.right) if isinstance(x, ast.Name)) == sorted([b.targets[0].id, v]) and b.targets[0].id != v:
            acc, inplace = b.targets[0].id, False
        else:
            return None
        init = getattr(self, "_last_bind", {}).get(acc)
        if init is None:
            return None
        if isinstance(st.iter, ast.Name):
            # all elements: the accumulator must start as a zero created here
            z = init
            if isinstance(z, ast.Call) and (unparse(z.func).split(".")[-1] in ("zeros_like", "zeros")) and (unparse(z.func).split(".")[-1] == "zeros" or (z.args and isinstance(z.args[0], ast.Subscript) and isinstance(z.args[0].value, ast.Name) and z.args[0].value.id == st.iter.id) or (z.args and isinstance(z.args[0], ast.Name))):
                return acc, st.iter
            if isinstance(z, ast.Constant) and z.value in (0, 0.0) and not inplace:
                return acc, st.iter
            return None
        if isinstance(st.iter, ast.Subscript) and isinstance(st.iter.value, ast.Name) and isinstance(st.iter.slice, ast.Slice) and unparse(st.iter.slice) == "1:" and not inplace:
            if isinstance(init, ast.Subscript) and isinstance(init.value, ast.Name) and init.value.id == st.iter.value.id and unparse(init.slice) == "0":
                return acc, st.iter.value
        return None

    def stmt_Assign(self, st, env):
        # remember the defining expression of plain names (the accumulation pattern looks at how the accumulator starts)
        if len(st.targets) == 1 and isinstance(st.targets[0], ast.Name):
            if not hasattr(self, "_last_bind"):
                self._last_bind = {}
            self._last_bind[st.targets[0].id] = st.value
        return super().stmt_Assign(st, env)

    # loops: bind loop-carried variables to φ symbols instead of iterating to a fix-point
    def _loop(self, st, env, bind, test):
        self.loop_depth += 1
        try:
            entry = dict(env)
            cur = dict(entry)
            if bind:
                bind(cur)
            n_ret, n_calls = len(self.returns), len(self.stage_calls)
            f1 = self.exec_block(st.body, cur)
            end1 = f1.env
            for c in f1.continues:
                end1 = self.join_env(end1, c)
            carried = []
            if end1 is not None:
                changed1 = [k for k, v in end1.items() if k in entry and entry[k] != v]
                if changed1:
                    # second pass from join(entry, end1): variables that are stable now (containers
                    # filled by append: the join is idempotent) are not loop-carried
                    n_ret2, n_calls2 = len(self.returns), len(self.stage_calls)
                    saved_overflow = self.overflow
                    cur2 = self.join_env(entry, end1)
                    if bind:
                        bind(cur2)
                    f2 = self.exec_block(st.body, cur2)
                    end2 = f2.env
                    for c in f2.continues:
                        end2 = self.join_env(end2, c)
                    del self.returns[n_ret2:]
                    del self.stage_calls[n_calls2:]
                    self.overflow = saved_overflow
                    if end2 is not None:
                        for k in changed1:
                            if end2.get(k) != self.join(entry[k], end1[k]) and end2.get(k) != end1[k]:
                                carried.append(k)
            if carried:
                # second pass with φ(var) standing for "value from the previous iteration"
                del self.returns[n_ret:]
                del self.stage_calls[n_calls:]
                cur = dict(entry)
                for k in carried:
                    # containers filled by append keep growing: leave them joined; scalars become φ
                    cur[k] = self.join(entry[k], single(f"φ({k})")) if entry.get(k) else single(f"φ({k})")
                if bind:
                    bind(cur)
                f1 = self.exec_block(st.body, cur)
                end1 = f1.env
                for c in f1.continues:
                    end1 = self.join_env(end1, c)
            out = self.join_env(entry, end1)
            res_flow = self.exec_block(st.orelse, out) if st.orelse else None
            from .absint import _Flow

            res = _Flow(res_flow.env if res_flow is not None else out)
            for e in f1.breaks:
                res.env = self.join_env(res.env, e)
            self.loop_info = getattr(self, "loop_info", [])
            self.loop_info.append({"node": st, "carried": carried, "breaks": len(f1.breaks), "end_env": end1})
            return res
        finally:
            self.loop_depth -= 1
