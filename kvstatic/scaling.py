"""Engine C - scaling-law ("units with coefficients") abstract interpreter (DESIGN.md §1.2).

Abstract value: what a tensor is *as a function of the signal and the configured quantities*,
up to an exact monomial  c * prod(sym_i ** q_i)  (c a product of rational powers of primes,
q_i rational):
  sig    m * x              sigabs  m * |x|            sigpow  m * |x|^2
  det    m                  (deterministic positive quantity: powers, scales, counts)
  rnd    zero-mean random with total variance m (real: Var; complex: Var re + Var im)
  out    a*x + noise(var)   db      10*log10(m)         dbp     a parameter given in dB
Symbols: E = sum |x|^2 over the reduced axes, N = number of reduced elements (mean = E/N),
P/T/A... = configured parameters, L(p) = 10**(p/10) for a dB parameter p.
Forward dataflow, branches joined (unequal values -> unknown), no solver.
"""
from __future__ import annotations

import ast
from dataclasses import dataclass, field, replace
from fractions import Fraction
from typing import Any, Dict, List, Optional, Tuple

from .absint import Env, Interp
from .astutil import attr_chain, call_name, num_value, unparse
from .core import ClassInfo, FuncInfo, Repo


def _factor(n: int) -> Dict[int, int]:
    out: Dict[int, int] = {}
    d = 2
    while d * d <= n:
        while n % d == 0:
            out[d] = out.get(d, 0) + 1
            n //= d
        d += 1
    if n > 1:
        out[n] = out.get(n, 0) + 1
    return out


@dataclass(frozen=True)
class Mono:
    primes: Tuple[Tuple[int, Fraction], ...] = ()
    syms: Tuple[Tuple[str, Fraction], ...] = ()
    neg: bool = False

    @staticmethod
    def const(v) -> Optional["Mono"]:
        if isinstance(v, bool):
            return None
        try:
            fr = Fraction(repr(v)) if isinstance(v, float) else Fraction(v)
            if fr.denominator > 10**30 or fr.numerator > 10**30:
                fr = Fraction(v).limit_denominator(10**9)
        except Exception:
            return None
        if fr == 0:
            return None
        neg = fr < 0
        fr = abs(fr)
        if isinstance(v, float) and abs(float(fr) - abs(v)) > 1e-12 * max(1.0, abs(v)):
            return None
        pr: Dict[int, Fraction] = {}
        for p, e in _factor(fr.numerator).items():
            pr[p] = pr.get(p, Fraction(0)) + e
        for p, e in _factor(fr.denominator).items():
            pr[p] = pr.get(p, Fraction(0)) - e
        return Mono(tuple(sorted((p, e) for p, e in pr.items() if e != 0)), (), neg)

    @staticmethod
    def sym(name: str, exp=1) -> "Mono":
        return Mono((), ((name, Fraction(exp)),), False)

    def _merge(self, other: "Mono", sgn: int) -> "Mono":
        pr = dict(self.primes)
        for p, e in other.primes:
            pr[p] = pr.get(p, Fraction(0)) + sgn * e
        sy = dict(self.syms)
        for s, e in other.syms:
            sy[s] = sy.get(s, Fraction(0)) + sgn * e
        return Mono(tuple(sorted((p, e) for p, e in pr.items() if e != 0)), tuple(sorted((s, e) for s, e in sy.items() if e != 0)), self.neg != other.neg)

    def __mul__(self, o: "Mono") -> "Mono":
        return self._merge(o, 1)

    def __truediv__(self, o: "Mono") -> "Mono":
        return self._merge(o, -1)

    def pow(self, q) -> Optional["Mono"]:
        q = Fraction(q).limit_denominator(1000)
        if self.neg and q.denominator != 1:
            return None
        neg = self.neg and (q.numerator % 2 == 1)
        return Mono(tuple((p, e * q) for p, e in self.primes if e * q != 0), tuple((s, e * q) for s, e in self.syms if e * q != 0), neg)

    def coef_value(self) -> float:
        v = 1.0
        for p, e in self.primes:
            v *= p ** float(e)
        return -v if self.neg else v

    def only_coef(self) -> bool:
        return not self.syms

    def show(self) -> str:
        parts = []
        c = self.coef_value()
        if abs(c - 1.0) > 1e-12 or not self.syms:
            parts.append(f"{c:.6g}")
        for s, e in self.syms:
            parts.append(s if e == 1 else f"{s}^{e}")
        return "*".join(parts)


ONE = Mono()


@dataclass(frozen=True)
class SV:
    kind: str
    m: Optional[Mono] = None
    var: Optional[Mono] = None  # for 'out': noise variance; for 'rnd': unused (m is the variance)
    cplx: bool = False
    axes: Optional[str] = None  # 'item' (all axes but the batch axis), 'all', 'other:<txt>'
    why: str = ""
    items: Optional[tuple] = None
    tag: Optional[str] = None
    src: str = "x"

    def show(self) -> str:
        if self.kind == "unk":
            return f"unknown({self.why})"
        s = self.kind
        if self.m is not None:
            s += f"[{self.m.show()}]"
        if self.var is not None:
            s += f"+noise(var={self.var.show()})"
        if self.axes:
            s += f"@{self.axes}"
        return s


def unk(why: str = "") -> SV:
    return SV("unk", why=why)


NONE_V = SV("none")
SHAPE = SV("shape")


class Scaling(Interp):
    def __init__(self, fi: FuncInfo, repo: Repo, cls: Optional[ClassInfo] = None, config=None, attr_values: Optional[Dict[str, SV]] = None, method_models: Optional[Dict[str, SV]] = None, depth: int = 0, eps_max: float = 1e-6):
        super().__init__(fi)
        self.repo = repo
        self.cls = cls or fi.cls
        self.config = config
        self.attr_values = dict(attr_values or {})
        self.method_models = dict(method_models or {})
        self.depth = depth
        self.eps_max = eps_max
        self.notes: List[str] = []
        self.definite: List[str] = []
        self.atom_sums = False
        self.allow_floor = False
        self.stores: List[Tuple[ast.stmt, str, SV, SV]] = []  # (stmt, target, index value, stored value)
        self.compares: List[Tuple[ast.Compare, SV, SV]] = []
        self.calls: List[Tuple[ast.Call, str, List[SV]]] = []

    def top(self):
        return unk("top")

    def join(self, a, b):
        if a == b:
            return a
        if a is None:
            return b
        if b is None:
            return a
        if isinstance(a, SV) and isinstance(b, SV):
            if a.kind == "none":
                return b
            if b.kind == "none":
                return a
            if a.kind == b.kind and a.m == b.m and a.var == b.var and a.src == b.src:
                return a if a.axes == b.axes else replace(a, axes=None)
            return unk(f"join of {a.show()} and {b.show()}")
        return unk("join")

    def unbound(self, name, node, env):
        return NONE_V

    def decide(self, test, env):
        return self.config(test, env) if self.config else None

    # ---------------------------------------------------------------- expressions
    def eval_Constant(self, node, env):
        v = node.value
        if isinstance(v, (int, float)) and not isinstance(v, bool):
            m = Mono.const(v)
            if m is not None:
                return SV("det", m, tag="lit")
            return SV("zero") if v == 0 else unk(f"constant {v}")
        if isinstance(v, complex):
            return SV("imagunit") if v == 1j else unk("complex literal")
        return NONE_V

    def attribute(self, node, base, env):
        ch = attr_chain(node)
        if ch is not None and ch in self.attr_values:
            return self.attr_values[ch]
        if node.attr in ("eps", "tiny"):
            return SV("det", Mono.const(Fraction(1, 2**23)), tag="eps")
        if node.attr in ("shape", "device", "dtype"):
            return SHAPE
        if node.attr in ("real", "imag") and isinstance(base, SV):
            if base.kind == "sig":
                return SV("sigpart", base.m, tag=node.attr, src=base.src)
            if base.kind == "out":
                return SV("outpart", base.m, base.var, tag=node.attr, src=base.src)
            return base
        if ch is not None and ch.startswith("torch."):
            if ch == "torch.pi":
                return unk("pi")
            return NONE_V
        if ch is not None and ch.startswith("self."):
            return NONE_V
        return base if isinstance(base, SV) else NONE_V

    def eval_Subscript(self, node, env):
        b = self.eval(node.value, env)
        self.eval(node.slice, env)
        if isinstance(b, SV) and b.kind == "shape":
            # x_reshaped.shape[1] after reshape(batch, -1): number of elements per item
            try:
                i = ast.literal_eval(node.slice)
            except Exception:
                i = None
            src = unparse(node.value)
            if i == 0:
                return SV("batchsize")
            return SV("det", Mono.sym("N"), axes="item", tag=f"shape[{i}] of {src}")
        if isinstance(b, SV) and b.items is not None:
            try:
                i = ast.literal_eval(node.slice)
                return b.items[i]
            except Exception:
                pass
        return b

    def _comprehension(self, node, env, elt_nodes):
        # `a, b = (f(c) for c in (x, y))`: a comprehension over a short literal tuple is written out element by element
        gens = node.generators
        if len(gens) == 1 and not gens[0].ifs and isinstance(gens[0].iter, (ast.Tuple, ast.List)) and len(elt_nodes) == 1 and 1 <= len(gens[0].iter.elts) <= 4 and not any(isinstance(e_, ast.Starred) for e_ in gens[0].iter.elts):
            vals = []
            for el in gens[0].iter.elts:
                e = dict(env)
                self.bind_target(gens[0].target, self.eval(el, e), e, None)
                vals.append(self.eval(elt_nodes[0], e))
            return SV("tuple", items=tuple(vals))
        return super()._comprehension(node, env, elt_nodes)

    def collection(self, vals, node, env):
        if isinstance(node, ast.Tuple):
            return SV("tuple", items=tuple(vals))
        out = None
        for v in vals:
            out = v if out is None else self.join(out, v)
        return out if out is not None else NONE_V

    def unpack(self, value, n, node):
        if isinstance(value, SV) and value.items is not None and len(value.items) == n:
            return list(value.items)
        return [value] * n

    def eval_UnaryOp(self, node, env):
        v = self.eval(node.operand, env)
        if isinstance(node.op, ast.USub) and isinstance(v, SV) and v.m is not None and v.kind in ("det", "sig"):
            return replace(v, m=replace(v.m, neg=not v.m.neg))
        if isinstance(node.op, ast.Not):
            return NONE_V
        return v

    def eval_Compare(self, node, env):
        l = self.eval(node.left, env)
        r = self.eval(node.comparators[0], env) if node.comparators else NONE_V
        self.compares.append((node, l, r))
        return SV("bool")

    def eval_BoolOp(self, node, env):
        for v in node.values:
            self.eval(v, env)
        return SV("bool")

    def is_eps(self, v: SV) -> bool:
        return v.kind == "det" and v.m is not None and v.m.only_coef() and 0 < v.m.coef_value() <= self.eps_max

    def eval_BinOp(self, node, env):
        a = self.eval(node.left, env)
        b = self.eval(node.right, env)
        return self.binop(node.op, a, b, node)

    def eval_IfExp(self, node, env):
        d = self._decide(node.test, env)
        if d is None:
            a = self.eval(node.body, env)
            b = self.eval(node.orelse, env)
            if isinstance(a, SV) and isinstance(b, SV) and a.kind == b.kind and a.kind in ("sig", "sigabs", "sigpow", "det", "rnd") and a.m is not None and b.m is not None and a.m != b.m:
                self.definite.append(f"`{unparse(node)[:80]}` takes a quantity that scales as {a.m.show()} or as {b.m.show()} depending on a run-time condition: the configured law cannot hold on both alternatives")
                return a
        return super().eval_IfExp(node, env)

    def binop(self, op, a: SV, b: SV, node) -> SV:
        if not isinstance(a, SV) or not isinstance(b, SV):
            return unk("non-value")
        if isinstance(op, ast.Mult):
            for x, y in ((a, b), (b, a)):
                if x.kind == "unit" and y.kind in ("sig", "sigpart", "out", "rnd"):
                    return y  # multiplication by a unit-modulus phasor preserves power and variance
            for x, y in ((a, b), (b, a)):
                if x.kind == "dir" and y.kind == "unk":
                    return SV("dir", None, why="direction times an undetermined magnitude")
        if a.kind == "unk":
            return a
        if b.kind == "unk":
            return b
        if isinstance(op, ast.Add):
            if self.is_eps(b) and a.kind in ("det", "sigabs", "sigpow"):
                return a  # regulariser
            if self.is_eps(a) and b.kind in ("det", "sigabs", "sigpow"):
                return b
            for q, lit in ((a, b), (b, a)):
                if self.atom_sums and q.kind == "det" and q.m is not None and not q.m.only_coef() and lit.kind == "det" and lit.m is not None and lit.m.only_coef():
                    return SV("det", Mono.sym(f"({q.m.show()}+{lit.m.show()})"), tag="atom")
                if q.kind == "det" and q.m is not None and not q.m.only_coef() and lit.kind == "det" and lit.m is not None and lit.m.only_coef() and lit.tag == "lit":
                    self.definite.append(f"`{unparse(node)}`: the additive constant {lit.m.coef_value():g} is not a negligible regulariser (> {self.eps_max:g}): the law is biased for small signals")
                    return q
            for s, r in ((a, b), (b, a)):
                if s.kind == "sig" and r.kind == "rnd":
                    return SV("out", s.m, r.m, cplx=r.cplx, src=s.src)
                if s.kind == "out" and r.kind == "rnd":
                    return unk("noise added twice")
                if s.kind == "sig" and r.kind == "none":
                    return SV("out", s.m, None, tag="plus-external", src=s.src)
                if s.kind == "sig" and r.kind == "ext":
                    return SV("out", s.m, None, tag=f"plus:{r.tag}*{(r.m or ONE).show()}", src=s.src)
            if a.kind == "rnd" and b.kind == "rnd":
                return SV("rnd", None, why="sum of two random terms") if a.m is None or b.m is None else (SV("rnd", a.m * Mono.const(2), cplx=a.cplx) if a.m == b.m else unk("sum of unequal variances"))
            if a.kind == "det" and b.kind == "det":
                if a.m == b.m:
                    return SV("det", a.m * Mono.const(2), axes=a.axes)
                return unk(f"sum {a.show()} + {b.show()}")
            if a.kind == "none" and b.kind == "none":
                return NONE_V
            return unk(f"sum {a.show()} + {b.show()}")
        if isinstance(op, ast.Sub):
            if a.kind == "out" and b.kind == "sig" and a.m == b.m and a.src == b.src:
                return SV("rnd", a.var, cplx=a.cplx) if a.var is not None else unk("difference")
            if a.kind == "sig" and b.kind == "sig" and a.m == b.m and a.src != b.src:
                return SV("sig", a.m, src=f"({a.src}-{b.src})")
            if a.kind == "none" and b.kind == "none":
                return NONE_V
            return unk(f"difference {a.show()} - {b.show()}")
        if isinstance(op, ast.Mult):
            return self.mul(a, b, node)
        if isinstance(op, ast.Div):
            if b.kind in ("det", "batchsize"):
                if b.kind == "batchsize":
                    return unk("division by the batch size")
                inv = SV("det", ONE / b.m, axes=b.axes)
                return self.mul(a, inv, node)
            if a.kind == "sig" and b.kind == "sigabs":
                # x / |x| : unit direction (phase / sign preserved)
                return SV("dir", a.m / b.m)
            return unk(f"division by {b.show()}")
        if isinstance(op, ast.Pow):
            if b.kind == "det" and b.m is not None and b.m.only_coef():
                q = b.m.coef_value()
                if a.kind == "det":
                    m = a.m.pow(q)
                    return SV("det", m, axes=a.axes) if m is not None else unk("power")
                if a.kind == "sigabs" and abs(q - 2) < 1e-12:
                    return SV("sigpow", a.m.pow(2), src=a.src, axes=a.axes)
                if a.kind == "sig" and abs(q - 2) < 1e-12 and a.tag == "asreal":
                    return SV("sigpow", a.m.pow(2), tag="asreal", src=a.src, axes=a.axes)
                if a.kind == "sig" and abs(q - 2) < 1e-12:
                    if getattr(self, "complex_input", False):
                        self.definite.append(f"`{unparse(node)[:70]}` squares a complex signal: x**2 is not |x|^2 (E[x^2] vanishes for a circularly symmetric signal), so this is not its power")
                    return SV("sigpow", a.m.pow(2), tag="real-square", src=a.src, axes=a.axes)
                if a.kind == "rnd":
                    return unk("power of a random value")
            # 10 ** (dB / 10): dB -> linear
            if a.kind == "det" and a.m == Mono.const(10) and b.kind == "dbscaled":
                return SV("det", Mono.sym(f"L({b.tag})", Fraction(b.m.coef_value() * 10).limit_denominator(1000) if b.m else 10))
            return unk(f"power {a.show()} ** {b.show()}")
        if isinstance(op, ast.FloorDiv):
            return unk("floor division")
        return unk(type(op).__name__)

    def mul(self, a: SV, b: SV, node) -> SV:
        for x, y in ((a, b), (b, a)):
            if x.kind == "det" and y.kind == "det":
                axes = x.axes or y.axes
                return SV("det", x.m * y.m, axes=axes, tag="ones" if "ones" in (x.tag, y.tag) else None)
            if x.kind in ("sig", "sigabs", "sigpow", "sigpart", "dir") and y.kind == "det":
                return replace(x, m=x.m * y.m, axes=y.axes or x.axes)
            if x.kind == "rnd" and y.kind == "det":
                if x.m is None:
                    return x
                return SV("rnd", x.m * y.m.pow(2), cplx=x.cplx)
            if x.kind == "out" and y.kind == "det":
                return SV("out", x.m * y.m, x.var * y.m.pow(2) if x.var is not None else None, cplx=x.cplx)
            if x.kind == "none" and y.kind == "none":
                return NONE_V
            if x.kind == "ones" and y.kind == "det":
                return SV("det", y.m, axes=y.axes, tag="ones")  # a constant tensor of that level

            if x.kind == "dir" and y.kind == "det":
                return SV("dir", x.m * y.m)
            if x.kind == "ext" and y.kind == "det":
                return SV("ext", (x.m or ONE) * y.m, tag=x.tag)
        for x, y in ((a, b), (b, a)):
            if x.kind == "det" and x.m is not None and x.m.only_coef() and y.kind == "log10":
                q = Fraction(x.m.coef_value() / 10).limit_denominator(1000)
                mm = y.m.pow(q)
                return SV("db", mm, axes=y.axes) if mm is not None else unk("dB of a negative ratio")
            if x.kind == "sig" and y.kind == "sig" and y.tag == "conj" and x.m == y.m and x.src == y.src:
                return SV("sigpow", x.m.pow(2), src=x.src)
        if a.kind == "dbp" and b.kind == "det" or b.kind == "dbp" and a.kind == "det":
            d, c = (a, b) if a.kind == "dbp" else (b, a)
            return SV("dbscaled", c.m, tag=d.tag)
        return unk(f"product {a.show()} * {b.show()}")

    # ---------------------------------------------------------------- calls
    def eval_Call(self, node: ast.Call, env):
        name = call_name(node) or unparse(node.func)
        short = name.split(".")[-1]
        args = [self.eval(a.value if isinstance(a, ast.Starred) else a, env) for a in node.args]
        kw = {k.arg: self.eval(k.value, env) for k in node.keywords if k.arg}
        kwnodes = {k.arg: k.value for k in node.keywords if k.arg}
        is_method = isinstance(node.func, ast.Attribute) and not name.startswith(("torch.", "F.", "math.", "np."))
        recv = self.eval(node.func.value, env) if is_method else None
        target = recv if is_method else (args[0] if args else None)
        rest = args if is_method else args[1:]
        self.calls.append((node, name, args))

        if name in self.method_models:
            return self.method_models[name]
        if name.startswith("self.") and name.count(".") == 1 and self.cls is not None and self.depth < 3:
            callee = self.cls.find_method(short)
            if callee is not None:
                return self.call_repo(callee, args, kw, True)
        if "." not in name:
            # a helper defined inside the analysed function: analysed with the enclosing environment for its free names
            loc = self.fi.nested(name) if self.depth < 3 else None
            if loc is not None:
                return self.call_repo(loc, args, kw, False, outer_env=env)
            tgt = self.repo.resolve_name(self.fi.module, name)
            if isinstance(tgt, FuncInfo) and self.depth < 3:
                return self.call_repo(tgt, args, kw, False)

        if name in ("isinstance", "hasattr", "callable", "len", "range", "print", "str", "type", "getattr"):
            return NONE_V
        if short in ("tensor", "as_tensor", "float", "to", "item", "clone", "detach", "contiguous", "type", "double", "cpu", "cuda", "expand", "expand_as", "unsqueeze", "squeeze", "view", "flatten", "type_as") and target is not None:
            return target
        if short == "reshape" and target is not None:
            # x.reshape(batch_size, -1): every remaining axis is merged into one: per-item layout
            if isinstance(target, SV) and target.kind in ("sig", "out") and len(rest) == 2 and len(node.args) == 2 and unparse(node.args[1]) == "-1":
                return replace(target, axes="rows")  # (batch, everything else): one row per item
            return target
        if short == "view_as_real" and target is not None and target.kind == "sig":
            # the (..., 2) real view of a complex signal: twice as many real entries carrying the same energy
            return replace(target, tag="asreal")
        if short in ("pow", "square") and target is not None and ((short == "square" and not rest) or (short == "pow" and len(rest) == 1 and not kw)):
            # t.pow(q) / torch.pow(t, q) / t.square(): the ** operator
            expo = ast.Constant(value=2) if short == "square" else (node.args[-1])
            is_fn_ = isinstance(node.func, ast.Attribute) and isinstance(node.func.value, ast.Name) and node.func.value.id in ("torch", "np")
            if is_fn_ and not node.args:
                return unk("pow without operand")
            base_node = node.args[0] if is_fn_ else node.func.value
            return self.eval(ast.copy_location(ast.BinOp(left=base_node, op=ast.Pow(), right=expo), node), env)
        if short in ("abs", "absolute") and target is not None:
            if target.kind == "sig":
                return SV("sigabs", target.m, src=target.src, axes=target.axes)
            if target.kind in ("sigabs", "sigpow", "det"):
                return target
            if target.kind == "out":
                return SV("outabs", target.m, target.var, src=target.src)
            if target.kind == "rnd":
                return SV("rndabs", target.m, cplx=target.cplx)
            return unk(f"abs of {target.show()}")
        if short == "conj" and target is not None:
            return replace(target, tag="conj") if target.kind == "sig" else target
        if short == "sqrt" and target is not None:
            if target.kind == "det":
                m = target.m.pow(Fraction(1, 2))
                return SV("det", m, axes=target.axes) if m is not None else unk("sqrt of negative")
            if target.kind == "batchsize":
                return unk("sqrt of batch size")
            return unk(f"sqrt of {target.show()}")
        if short in ("mean", "sum") and target is not None:
            return self.reduce(short, target, rest, kw, kwnodes, node)
        if short in ("var", "std") and target is not None and target.kind == "sig" and target.m is not None:
            # the variance of the signal (mean removed) is another statistic than its mean power E|x|^2 / N: it is carried as
            # its own symbol, so a law that uses it never matches a law stated in the signal power
            m = target.m.pow(Fraction(2)) * Mono.sym(f"VAR[{target.src}]")
            if short == "std":
                m = m.pow(Fraction(1, 2))
            return SV("det", m, axes="all" if not rest and "dim" not in kw else None) if m is not None else unk("variance")
        if short in ("max", "amax") and target is not None:
            if target.kind == "sigpow":
                return SV("det", target.m * Mono.sym(f"PK[{target.src}]"), axes="all" if not rest and "dim" not in kw else None)
            if target.kind == "sigabs":
                return SV("det", target.m * Mono.sym(f"PK[{target.src}]", Fraction(1, 2)))
            return unk(f"max of {target.show()}")
        if short == "numel" and target is not None:
            return SV("det", Mono.sym("N"), axes="all", tag="numel")
        if short in ("randn", "randn_like"):
            return SV("rnd", ONE)
        if short in ("rand", "rand_like"):
            return SV("uniform")
        if short in ("ones", "ones_like"):
            return SV("ones")
        if short in ("zeros", "zeros_like"):
            return SV("zero")
        if short == "complex" and len(args) == 2:
            a, b = args
            if a.kind == "rnd" and b.kind == "rnd":
                if a.m is not None and a.m == b.m:
                    return SV("rnd", a.m * Mono.const(2), cplx=True)
                return unk(f"real and imaginary noise with different variances {a.show()} / {b.show()}")
            if (a.kind == "rnd" and b.kind == "zero") or (a.kind == "zero" and b.kind == "rnd"):
                r_ = a if a.kind == "rnd" else b
                return SV("rnd", r_.m, cplx=True)  # noise on one quadrature component only: total variance = that component's
            if a.kind in ("sig", "sigpart") and b.kind == "zero":
                return SV("sig", a.m, src=a.src)
            if a.kind in ("sig", "sigpart") and b.kind in ("sig", "sigpart") and a.m is not None and a.m == b.m:
                return SV("sig", a.m, src=a.src)  # a complex signal assembled from two processed rails
            if a.kind == "out" and b.kind == "out" and a.m is not None and a.m == b.m:
                if a.var is not None and b.var is not None and a.var == b.var:
                    return SV("out", a.m, a.var * Mono.const(2), cplx=True, src=a.src)  # independent noise on each rail: variances add
                return unk(f"rails with different noise variances {a.show()} / {b.show()}")
            if a.kind == "det" and a.tag == "ones" and b.kind == "zero":
                return a
            return unk(f"complex({a.show()}, {b.show()})")
        if short in ("log10",) and target is not None:
            if target.kind == "det":
                return SV("log10", target.m, axes=target.axes)
            return unk(f"log10 of {target.show()}")
        if short in ("clamp", "clip") and target is not None:
            others = list(rest) + list(kw.values())
            if target.kind == "det" and all(o.kind in ("det", "none") for o in others):
                mn = kw.get("min")
                if mn is not None and (self.is_eps(mn) or mn.kind == "none"):
                    if not self.allow_floor and not target.m.only_coef():
                        self.definite.append(f"`{unparse(node)[:80]}` puts a floor under a configured/derived power: for weak signals the law no longer holds")
                    return target  # clamp(v, min=eps): measurement guard
                if mn is None and not rest:
                    mx_node = next((k.value for k in node.keywords if k.arg == "max"), None)
                    if mx_node is not None and not (isinstance(mx_node, ast.Constant) and mx_node.value is None) and not target.m.only_coef():
                        self.definite.append(f"`{unparse(node)[:80]}` caps a signal-dependent factor: for inputs weak enough to need a larger gain the law no longer holds")
                    return target
            if target.kind in ("sig", "out"):
                return SV("clamped", target.m, tag=unparse(node))
            return unk(f"clamp of {target.show()}")
        if short in ("where",):
            allv = ([recv] if recv is not None else []) + args
            if len(allv) == 3:
                return SV("where", items=tuple(allv))
        if short in ("any", "all", "is_complex", "dim", "size", "get_dimensions", "isfinite", "finfo"):
            return SV("bool") if short in ("any", "all", "is_complex") else NONE_V
        if short in ("stack",) and args:
            return args[0]
        if short == "exp" and node.args and any(isinstance(x, ast.Constant) and isinstance(x.value, complex) for x in ast.walk(node.args[0])):
            return SV("unit")  # exp(1j * real): unit modulus
        if short == "angle" and target is not None and target.kind in ("sig", "sigpart"):
            return SV("none")
        if short in ("exp", "angle", "log", "sign", "polar", "poisson", "cat"):
            return unk(f"call {name}")
        allv = ([recv] if recv is not None else []) + args + list(kw.values())
        if all(isinstance(v, SV) and v.kind in ("none", "shape", "bool") for v in allv):
            return NONE_V
        return unk(f"call {name}")

    def reduce(self, which: str, target: SV, rest, kw, kwnodes, node) -> SV:
        # function form torch.f(t, dim) has the tensor first; the method form t.f(dim) - whatever the receiver expression is - has not
        fn_form = isinstance(node.func, ast.Attribute) and isinstance(node.func.value, ast.Name) and node.func.value.id in ("torch", "np")
        if "dim" in kwnodes:
            dim_node = kwnodes.get("dim")
        elif fn_form or not isinstance(node.func, ast.Attribute):
            dim_node = node.args[1] if len(node.args) > 1 else None
        else:
            dim_node = node.args[0] if node.args else None
        axes = "all"
        if dim_node is not None:
            txt = unparse(dim_node)
            if txt == "None":
                axes = "all"
            elif txt in ("1", "-1") and target.axes == "rows":
                axes = "item"
            elif txt == "dim":
                axes = "param:dim"
            else:
                axes = f"other:{txt}"
        if target.kind == "sigpow" and target.tag == "asreal" and dim_node is not None:
            if which == "sum" and unparse(dim_node) == "-1":
                return SV("sigpow", target.m, src=target.src, axes=target.axes)  # re^2 + im^2 = |x|^2 per complex sample
            return unk(f"{which} over an axis of the real view")
        if target.kind == "sigpow":
            m = target.m * Mono.sym(f"E[{target.src}]")
            if which == "mean":
                m = m / Mono.sym("N")
                if target.tag == "asreal":
                    m = m / Mono.const(2)  # the mean runs over 2 N real entries: half the mean power per complex sample
            return SV("det", m, axes=axes)
        if target.kind == "sigabs":
            m = target.m * Mono.sym(f"A[{target.src}]")
            if which == "mean":
                m = m / Mono.sym("N")
            return SV("det", m, axes=axes)
        if target.kind in ("outabs",) or target.kind == "rnd":
            return unk(f"{which} of {target.show()}")
        if target.kind == "det":
            return target
        if target.kind == "db" and which in ("mean", "sum", "median"):
            self.definite.append(f"`{unparse(node)[:70]}` takes the {which} of decibel values: the average of per-row dB figures is not the dB figure of the pooled power ratio (rows of unequal power: 10 dB from 20 dB and 0 dB rows is not 10*log10 of the pooled ratio), so the result is not the SNR of the data")
        return unk(f"{which} of {target.show()}")

    def call_repo(self, callee: FuncInfo, args: List[SV], kw: Dict[str, SV], bound: bool, outer_env: Optional[Env] = None) -> SV:
        params = list(callee.params)
        if bound and params and params[0] in ("self", "cls"):
            params = params[1:]
        env: Env = dict(outer_env) if outer_env is not None else {}
        for p, a in zip(params, args):
            env[p] = a
        for k, v in kw.items():
            env[k] = v
        for p in params:
            env.setdefault(p, NONE_V)
        sub = Scaling(callee, self.repo, cls=self.cls if bound else callee.cls, config=self.config, attr_values=self.attr_values, method_models=self.method_models, depth=self.depth + 1, eps_max=self.eps_max)
        sub.atom_sums = self.atom_sums
        sub.allow_floor = self.allow_floor
        if outer_env is not None:
            sub.complex_input = getattr(self, "complex_input", False)
            sub._outer_bool_defs = getattr(self, "_bool_defs", None)
        sub.run(env)
        self.notes += sub.notes
        self.definite += sub.definite
        self.compares += sub.compares
        self.stores += sub.stores
        out = None
        for v, _r, _e in sub.returns:
            if v is not None:
                out = v if out is None else self.join(out, v)
        return out if out is not None else NONE_V

    def expr_stmt(self, node, env):
        v = node.value
        if isinstance(v, ast.Call) and isinstance(v.func, ast.Attribute) and v.func.attr in ("append", "extend") and v.args:
            key = self.lvalue_key(v.func.value)
            val = self.eval(v.args[0], env)
            if key is not None:
                old = env.get(key)
                env[key] = val if not isinstance(old, SV) else self.join(old, val)
            return
        self.eval(v, env)

    def store_subscript(self, target, value, env, stmt):
        key = self.lvalue_key(target.value)
        idx = self.eval(target.slice, env)
        if key is not None:
            self.stores.append((stmt, key, idx, value))

    def eval_Lambda(self, node, env):
        return NONE_V

    def eval_JoinedStr(self, node, env):
        return NONE_V

    def eval_Dict(self, node, env):
        return NONE_V
