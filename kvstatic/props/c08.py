"""C08 - power / amplitude / PAPR constraints enforce their limit per item (scaling law + structure)."""
from __future__ import annotations

import ast
from fractions import Fraction
from typing import Dict, List, Optional, Tuple

from ..astutil import Inliner, ancestors, attr_chain, call_name, match, returns_of, set_parents, stmts_of
from ..closedform import classify
from ..core import OK, UNDECIDED, VIOLATION, AnalysisError, ClassInfo, FuncInfo, Repo, Report, unparse
from ..scaling import NONE_V, ONE, Mono, SV, Scaling, unk
from .c15 import tv_eval

EXPLANATION = (
    "Scaling-law abstract interpretation of the power constraints plus structural rules. POWER-LAW: for TotalPowerConstraint, AveragePowerConstraint (batched and single-item "
    "branches, real and complex) and PerAntennaPowerConstraint the result is x times a positive deterministic factor s with s^2 * (current power) = target exactly in the monomial "
    "domain (a literal +eps <= 1e-6 is the identity), the current power is reduced over all axes but the batch axis (per item; per antenna: all but batch and antenna), no statistic "
    "over the batch axis enters the factor, and the zero-signal substitute has the target power. PEAK: every return of PeakAmplitudeConstraint.forward is clamp(x, -A, +A). "
    "PAPR: every clipping store writes direction*bound with direction = v/(|v|+eps) (phase/sign preserved) under the mask |v| > bound; a final clip outside the iteration loop lies on "
    "every path to the return with bound^2 = avg_power*max_papr*c, c <= 1. COMPOSITE-ORDER: for every configuration of create_ofdm_constraints / create_mimo_constraints the stage "
    "list is derived from the source and checked against a reasoned preservation table (scaling preserves PAPR but breaks amplitude bounds; clipping preserves power<=, amplitude<= and "
    "PAPR<=; spectral scaling breaks PAPR and amplitude bounds): every limit established must survive all later stages. Convergence of iterative clipping is not decided."
)

PW = "kaira/constraints/power.py"
SG = "kaira/constraints/signal.py"
AT = "kaira/constraints/antenna.py"
CU = "kaira/constraints/utils.py"
CO = "kaira/constraints/composite.py"

N = Mono.sym("N")
E = Mono.sym("E[x]")


def cfg(atoms):
    return lambda test, env: tv_eval(test, atoms)


class CBScaling(Scaling):
    """Scaling interpreter that additionally tracks statistics taken across the batch axis."""

    def eval_Call(self, node, env):
        name = call_name(node) or ""
        short = name.split(".")[-1]
        if short in ("max", "min", "mean", "sum", "median", "amax", "amin", "std", "var", "norm"):
            is_method = isinstance(node.func, ast.Attribute) and not name.startswith("torch.")
            tgt = self.eval(node.func.value, env) if is_method else (self.eval(node.args[0], env) if node.args else None)
            has_dim = any(k.arg == "dim" for k in node.keywords) or (len(node.args) > (0 if is_method else 1))
            if isinstance(tgt, SV) and tgt.kind == "det" and tgt.axes == "item" and not has_dim:
                return SV("crossbatch", why=f"`{unparse(node)}` reduces a per-item quantity over the batch axis")
        v = super().eval_Call(node, env)
        if isinstance(v, SV) and v.kind == "unk":
            for a in list(node.args) + [k.value for k in node.keywords]:
                av = self.eval(a, env)
                if isinstance(av, SV) and av.kind == "crossbatch":
                    return av
        return v

    def binop(self, op, a, b, node):
        for v in (a, b):
            if isinstance(v, SV) and v.kind == "crossbatch":
                return v
        return super().binop(op, a, b, node)


def init_attr(repo: Repo, ci: ClassInfo, attr: str, env_attrs: Dict[str, SV]) -> Optional[SV]:
    init = ci.methods.get("__init__")
    if init is None:
        return None
    vals = []
    for st in stmts_of(init.body):
        if isinstance(st, ast.Assign) and any(attr_chain(t) == f"self.{attr}" for t in st.targets):
            it = Scaling(init, repo, cls=ci, attr_values=env_attrs)
            env = {p: env_attrs.get(f"self.{p}", NONE_V) for p in init.params if p != "self"}
            vals.append(it.eval(st.value, env))
    if not vals:
        return None
    out = vals[0]
    for v in vals[1:]:
        out = out if out == v else unk("different initial values")
    if isinstance(out, SV) and out.kind == "unk":
        # the value is assembled through locals of the constructor: analyse the constructor as a whole and read the attribute
        it = Scaling(init, repo, cls=ci, attr_values=env_attrs)
        env = {p: env_attrs.get(f"self.{p}", NONE_V) for p in init.params if p != "self"}
        try:
            final = it.run(env)
        except Exception:
            final = None
        got = (final or {}).get(f"self.{attr}")
        if isinstance(got, SV) and got.kind != "unk":
            return got
    return out


def judge_scaled(rep: Report, fi: FuncInfo, what: str, v: SV, cur_power: Mono, target: Mono, want_axes: Optional[str], interp: Scaling, node=None, comps: Optional[list] = None) -> None:
    """v must be sig[m] with m^2 * cur_power == target."""
    construct = f"{what}: {v.show() if isinstance(v, SV) else v}"
    if not isinstance(v, SV):
        rep.undecided("POWER-LAW", fi, construct, "no value", node=node)
        return
    if v.kind == "crossbatch":
        rep.violation("POWER-LAW", fi, construct, f"the scale factor depends on a statistic taken across the batch: {v.why}; items are no longer constrained independently", node=node)
        return
    if v.kind == "unk":
        rep.undecided("POWER-LAW", fi, construct, f"law not derived ({v.why})", node=node)
        return
    if v.kind != "sig":
        rep.violation("POWER-LAW", fi, construct, "the output is not the input multiplied by a deterministic factor (signs/phases would not be preserved)", node=node)
        return
    if v.m.neg:
        rep.violation("POWER-LAW", fi, construct, "the scale factor is negative: signs are flipped", node=node)
        return
    got = v.m.pow(2) * cur_power
    if interp is not None and interp.definite:
        rep.violation("POWER-LAW", fi, construct, interp.definite[0], node=node)
        return
    if got == target:
        ax = v.axes
        if want_axes is not None and ax != want_axes:
            rep.violation("POWER-LAW", fi, construct + f" reduced over `{ax}`", f"the current power must be reduced over `{want_axes}` (per item), found `{ax}`: batch members would influence each other", node=node)
        else:
            rep.ok("POWER-LAW", fi, construct, f"s^2 * current = {target.show()} exactly; s > 0; power reduced over {ax}", node=node)
    else:
        rep.violation("POWER-LAW", fi, construct, f"after scaling the power is {got.show()} instead of the target {target.show()}", node=node)


def judge_const(rep, fi, what, v, power_of_const: Mono, target: Mono, node=None):
    construct = f"{what}: {v.show() if isinstance(v, SV) else v}"
    if not isinstance(v, SV) or v.kind == "unk":
        rep.undecided("POWER-LAW", fi, construct, f"zero-signal substitute not derived ({getattr(v, 'why', '')})", node=node)
        return
    if not (v.kind == "det" and v.tag == "ones"):
        rep.violation("POWER-LAW", fi, construct, "the zero-signal substitute is not a constant signal of known level", node=node)
        return
    got = v.m.pow(2) * power_of_const
    rep.check(got == target, "POWER-LAW", fi, construct, f"substitute for an all-zero item has power {target.show()}", f"substitute for an all-zero item has power {got.show()} instead of {target.show()}", node=node)


#: input shapes the batch-dispatch predicate is evaluated on (own arithmetic over nested lists of that shape)
DISPATCH_SHAPES = ((4,), (1,), (1, 4), (2, 4), (3, 4), (7, 1), (1, 2, 4), (2, 2, 4), (5, 2, 2, 3))


def _zeros(shape):
    return [_zeros(shape[1:]) for _ in range(shape[0])] if shape else 0.0


def dispatch_rule(rep: Report, rule: str, fwd: FuncInfo, batched_marker) -> Optional[ast.If]:
    """The limit is per item: the branch that applies the single-item routine to the whole tensor may only be taken when
    the tensor *is* one item (1-D input, or a leading axis of length 1); an input with a leading batch axis of two or more
    items must take the per-item branch.  The predicate is evaluated on DISPATCH_SHAPES."""
    from ..constfold import Folder, Unfoldable

    ifs = [s for s in fwd.body if isinstance(s, ast.If)]
    disp = ifs[0] if ifs else None
    if disp is not None and not disp.orelse and disp.body and isinstance(disp.body[-1], ast.Return):
        # guard-clause form: `if <single item>: return f(x)` followed by the per-item code
        else_arm = fwd.body[fwd.body.index(disp) + 1 :]
    else:
        else_arm = disp.orelse if disp is not None else []
    if disp is None or not else_arm:
        rep.undecided(rule, fwd, "batch dispatch", "no two-armed dispatch statement at the top of forward (code shape not recognised)", node=fwd.node)
        return None
    in_body, in_else = batched_marker(disp.body), batched_marker(else_arm)
    if in_body == in_else:
        # the whole-tensor arm is the one that hands `x` itself to the single-item routine
        def whole(arm):
            return any(isinstance(c, ast.Call) and attr_chain(c.func) == "self._apply_constraint_to_single_item" and c.args and unparse(c.args[0]) == "x" for s_ in arm for c in ast.walk(s_))

        wb, we = whole(disp.body), whole(else_arm)
        if wb != we:
            in_body, in_else = we, wb
    disp._kv_batched_truth = bool(in_body)
    if in_body == in_else:
        rep.undecided(rule, fwd, f"batch dispatch: {unparse(disp.test)}", "cannot tell the per-item arm from the whole-tensor arm", node=disp)
        return disp
    bad, und = [], []
    for shp in DISPATCH_SHAPES:
        try:
            t = Folder({"x": _zeros(shp)}).fold(disp.test)
        except Unfoldable as exc:
            und.append(f"{shp}: {exc}")
            continue
        if isinstance(t, list):
            und.append(f"{shp}: tensor-valued test")
            continue
        per_item = bool(t) if in_body else not bool(t)
        if len(shp) == 1 and per_item:
            bad.append(f"a 1-D signal of shape {shp} is split into its samples")
        elif len(shp) >= 2 and shp[0] >= 2 and not per_item:
            bad.append(f"an input of shape {shp} ({shp[0]} items) is processed as one item: the limit holds only for the batch as a whole")
    if bad:
        rep.violation(rule, fwd, f"batch dispatch: {unparse(disp.test)}", "; ".join(bad[:3]), node=disp)
    elif und:
        rep.undecided(rule, fwd, f"batch dispatch: {unparse(disp.test)}", "predicate outside the evaluator: " + "; ".join(und[:2]), node=disp)
    else:
        rep.ok(rule, fwd, f"batch dispatch: {unparse(disp.test)}", f"evaluated on {len(DISPATCH_SHAPES)} shapes: every input with two or more leading items takes the per-item arm, a 1-D signal is one item", node=disp)
    return disp


def analyse_power_class(repo: Repo, rep: Report, cname: str, attr: str, factor_attr: str, sym: str, average: bool) -> int:
    ci = repo.cls(PW, cname)
    T = Mono.sym(sym)
    attrs = {f"self.{attr}": SV("det", T)}
    fa = init_attr(repo, ci, factor_attr, attrs)
    if fa is None or fa.kind != "det" or fa.m != T.pow(Fraction(1, 2)):
        rep.add("POWER-LAW", f"{PW}::{cname}.__init__", f"self.{factor_attr} = {fa.show() if fa else '?'}", VIOLATION if (fa is not None and fa.kind == "det") else UNDECIDED, f"precomputed factor must be sqrt({sym})")
    else:
        rep.ok("POWER-LAW", f"{PW}::{cname}.__init__", f"self.{factor_attr} = sqrt(self.{attr})", "precomputed amplitude factor")
        attrs[f"self.{factor_attr}"] = fa
    n = 1
    fwd = repo.method(ci, "forward")
    cur = (E / N) if average else E
    constpow = ONE if average else N
    # dispatch test
    disp = dispatch_rule(rep, "POWER-LAW", fwd, batched_marker=lambda b: any(isinstance(c, ast.Call) and (call_name(c) or "").split(".")[-1] in ("sum", "mean") and any(k.arg == "dim" for k in c.keywords) for s_ in b for c in ast.walk(s_)))
    n += 1
    # the "some item is all-zero" test of the batched path, in whatever spelling: `if torch.any(m):` / `if m.any():`
    zero_tests = [unparse(s_.test) for s_ in ast.walk(fwd.node) if isinstance(s_, ast.If) and s_ is not disp and isinstance(s_.test, ast.Call) and (call_name(s_.test) or "").split(".")[-1] == "any"]
    zero_atom = zero_tests[0] if len(zero_tests) == 1 else "torch.any(zero_mask)"
    for cplx in (False, True):
        for zero in (False, True):
            atoms = {(unparse(disp.test) if disp is not None else "x.dim() > 1 and x.shape[0] > 1"): getattr(disp, "_kv_batched_truth", True), "torch.is_complex(x)": cplx, zero_atom: zero}
            it = CBScaling(fwd, repo, cls=ci, config=cfg(atoms), attr_values=attrs)
            it.run({"x": SV("sig", ONE), "args": NONE_V, "kwargs": NONE_V})
            for v, r, _ in it.returns:
                tag = f"{cname}.forward batched ({'complex' if cplx else 'real'}{', zero items present' if zero else ''})"
                if isinstance(v, SV) and v.kind == "where" and v.items:
                    judge_const(rep, fwd, tag + " zero-item substitute", v.items[1], constpow, T, node=r)
                    judge_scaled(rep, fwd, tag, v.items[2], cur, T, "item", it, node=r)
                    n += 2
                else:
                    judge_scaled(rep, fwd, tag, v, cur, T, "item", it, node=r)
                    n += 1
    single = repo.method(ci, "_apply_constraint_to_single_item")
    for cplx in (False, True):
        atoms = {"torch.is_complex(x)": cplx}
        it = CBScaling(single, repo, cls=ci, config=cfg(atoms), attr_values=attrs)
        it.run({"x": SV("sig", ONE), "args": NONE_V, "kwargs": NONE_V})
        for v, r, _ in it.returns:
            tag = f"{cname} single item ({'complex' if cplx else 'real'})"
            if isinstance(v, SV) and v.kind == "det" and v.tag == "ones":
                judge_const(rep, single, tag + " zero-signal substitute", v, constpow, T, node=r)
            else:
                judge_scaled(rep, single, tag, v, cur, T, "all", it, node=r)
            n += 1
    # the single-item path is what the non-batched dispatch calls
    calls = [c for c in ast.walk(fwd.node) if isinstance(c, ast.Call) and attr_chain(c.func) == "self._apply_constraint_to_single_item"]
    rep.shape(len(calls) == 1 and unparse(calls[0].args[0]) == "x", False, "POWER-LAW", fwd, "non-batched input -> self._apply_constraint_to_single_item(x, ...)", "single item handled by the same law", "single-item delegation changed")
    return n + 1


def per_antenna_axes(rep: Report, fwd: FuncInfo) -> int:
    """The power the scaling is computed from is that of one (batch item, antenna) pair: the statements defining
    `antenna_power` are evaluated (own arithmetic) on inputs of shape (B, A), (B, A, T) and (B, A, H, W) with distinct
    entries and compared with mean |x|^2 over the trailing axes of each pair.  (torch reduces over *all* axes when `dim`
    is the empty tuple - what `tuple(range(2, x.dim()))` is for a 2-D input.)"""
    from ..constfold import Unfoldable
    from ..frag import FragRaise, FragReturn, run_fragment

    idx = [i for i, st in enumerate(fwd.body) if isinstance(st, ast.Assign) and any(isinstance(t, ast.Name) and t.id == "antenna_power" for t in st.targets)]
    what = "per-antenna power statistic `antenna_power`"
    if not idx:
        rep.undecided("POWER-LAW", fwd, what, "definition not found at the top level of forward")
        return 1
    body = fwd.body[: idx[-1] + 1]

    def mk(shape, base=[0]):
        if not shape:
            base[0] += 1
            return float(base[0] % 7 + 1) * (1.0 if base[0] % 2 else -0.5)
        return [mk(shape[1:]) for _ in range(shape[0])]

    def flat(z):
        return [y for t in z for y in flat(t)] if isinstance(z, list) else [z]

    bad = None
    for shape in ((3, 4), (2, 3, 5), (2, 2, 2, 3)):
        x = mk(list(shape))
        try:
            env = run_fragment(body, {"x": x}, {"self.power_budget": None, "self.uniform_power": 1.0}, materialise=True)
            got = env.get("antenna_power")
        except (Unfoldable, FragRaise, FragReturn, TypeError) as exc:
            rep.undecided("POWER-LAW", fwd, what, f"not evaluable for an input of shape {shape} ({exc})")
            return 1
        want = []
        for b in range(shape[0]):
            for a in range(shape[1]):
                vals = flat(x[b][a])
                want.append(sum(v * v for v in vals) / len(vals))
        g = flat(got)
        if len(g) != len(want) or any(abs(p_ - q_) > 1e-9 * max(1.0, abs(q_)) for p_, q_ in zip(g, want)):
            bad = (shape, len(g), len(want))
            break
    if bad:
        shape, ng, nw = bad
        rep.violation("POWER-LAW", fwd, what, f"for an input of shape {shape} the statistic has {ng} value(s) where {nw} (batch item, antenna) pairs each need their own power" + (": with no trailing axes `dim=()` makes torch.mean reduce over the whole tensor, so every antenna of every batch item is scaled by one global factor (the per-antenna budget is not met, and an item's output depends on the other items)" if len(shape) == 2 else ""), node=fwd.body[idx[-1]])
    else:
        rep.ok("POWER-LAW", fwd, what, "mean |x|^2 over the trailing axes of each (batch item, antenna) pair for 2-D, 3-D and 4-D inputs", node=fwd.body[idx[-1]])
    return 1


def rule_per_antenna(repo: Repo, rep: Report) -> int:
    ci = repo.cls(AT, "PerAntennaPowerConstraint")
    fwd = repo.method(ci, "forward")
    n = 0
    for mode in ("budget", "uniform"):
        # the arm for inputs with trailing axes; the 2-D arm (each entry is an antenna's whole signal) is decided by per_antenna_axes
        atoms = {"self.power_budget is not None": mode == "budget", "spatial_dims": True, "len(spatial_dims) > 0": True, "x.dim() > 2": True, "len(x.shape) > 2": True}
        attrs = {"self.power_budget": SV("det", Mono.sym("B")), "self.uniform_power": SV("det", Mono.sym("U"))}
        it = CBScaling(fwd, repo, cls=ci, config=cfg(atoms), attr_values=attrs)
        it.run({"x": SV("sig", ONE), "args": NONE_V, "kwargs": NONE_V})
        T = Mono.sym("B" if mode == "budget" else "U")
        for v, r, _ in it.returns:
            judge_scaled(rep, fwd, f"PerAntennaPowerConstraint.forward ({mode})", v, E / N, T, "other:spatial_dims", it, node=r)
            n += 1
    n += per_antenna_axes(rep, fwd)
    sd = [s for s in stmts_of(fwd.body) if isinstance(s, ast.Assign) and unparse(s.targets[0]) == "spatial_dims"]
    for s in sd:
        st, d, _ = classify(Inliner(fwd).inline(s.value), ["tuple(range(2, len(x.shape)))", "tuple(range(2, x.dim()))", "tuple(range(2, x.ndim))"])
        rep.add("POWER-LAW", fwd, f"reduced axes: spatial_dims = {unparse(s.value)}", st, d or "all axes but batch (0) and antenna (1)", node=s)
        n += 1
    rep.floor("per-antenna reduced-axes definition", len(sd), 1)
    return n


def rule_peak(repo: Repo, rep: Report) -> int:
    fi = repo.func(SG, "PeakAmplitudeConstraint.forward")
    set_parents(fi.node)
    n = 0
    inl = Inliner(fi)
    for r in returns_of(fi.node):
        e = inl.inline(r.value)
        forms = ["torch.clamp(x, -self.max_amplitude, self.max_amplitude)", "torch.clamp(x, min=-self.max_amplitude, max=self.max_amplitude)", "x.clamp(-self.max_amplitude, self.max_amplitude)", "x.clamp(min=-self.max_amplitude, max=self.max_amplitude)"]
        s, d, _ = classify(e, forms)
        if s != OK and isinstance(e, ast.Call) and (call_name(e) or "").split(".")[-1] in ("clamp", "clip"):
            # asymmetric / one-sided clamp
            is_m = isinstance(e.func, ast.Attribute) and not (call_name(e) or "").startswith("torch.")
            pos = list(e.args) if is_m else list(e.args[1:])
            lo = pos[0] if len(pos) > 0 else next((k.value for k in e.keywords if k.arg == "min"), None)
            hi = pos[1] if len(pos) > 1 else next((k.value for k in e.keywords if k.arg == "max"), None)
            lo_ok = lo is not None and unparse(lo) == "-self.max_amplitude"
            hi_ok = hi is not None and unparse(hi) == "self.max_amplitude"
            if not (lo_ok and hi_ok):
                rep.violation("PEAK", fi, f"return {unparse(e)}", f"the clamp bounds are ({unparse(lo) if lo is not None else 'none'}, {unparse(hi) if hi is not None else 'none'}) instead of (-max_amplitude, +max_amplitude): samples beyond one side survive", node=r)
                n += 1
                continue
        if s != OK and isinstance(e, ast.Name) and e.id == "x":
            guard = next((a for a in ancestors(r) if isinstance(a, ast.If)), None)
            gt = unparse(guard.test) if guard is not None else ""
            okg = gt in ("torch.max(torch.abs(x)) <= self.max_amplitude", "x.abs().max() <= self.max_amplitude", "torch.abs(x).max() <= self.max_amplitude")
            rep.shape(okg, ("abs" not in gt) or (">" in gt and "<=" not in gt and "<" not in gt), "PEAK", fi, f"shortcut `return x` under `{gt}`", "input returned unchanged only when |x| is already within the limit", "the input is returned unclipped under a test that does not bound |x| on both sides", node=r)
        else:
            rep.add("PEAK", fi, f"return {unparse(e)}", s, d or "symmetric clamp to +-max_amplitude from the one configured parameter", node=r)
        n += 1
    init = repo.func(SG, "PeakAmplitudeConstraint.__init__")
    asg = [s for s in stmts_of(init.body) if isinstance(s, ast.Assign) and attr_chain(s.targets[0]) == "self.max_amplitude"]
    rep.shape(len(asg) == 1 and unparse(asg[0].value) in ("max_amplitude", "float(max_amplitude)"), len(asg) == 1 and isinstance(asg[0].value, (ast.BinOp, ast.Constant)), "PEAK", init, f"self.max_amplitude = {unparse(asg[0].value) if asg else '?'}", "limit stored unchanged", "the stored limit is not the configured one")
    return n + 1


class ClipScaling(Scaling):
    """Records clipping events: `r[mask] = v` and `r = torch.where(mask, v, r)` on the signal variable."""

    def __init__(self, *a, **k):
        super().__init__(*a, **k)
        self.clips: List[tuple] = []  # (stmt, value SV, mask node, form)

    def store_subscript(self, target, value, env, stmt):
        super().store_subscript(target, value, env, stmt)
        key = self.lvalue_key(target.value)
        if key is not None:
            self.clips.append((stmt, value, target.slice, key, "masked store"))

    def stmt_Assign(self, st, env):
        if len(st.targets) == 1 and isinstance(st.targets[0], ast.Name) and isinstance(st.value, ast.Call) and (call_name(st.value) or "").split(".")[-1] == "where" and len(st.value.args) == 3:
            m, v, old = st.value.args
            if isinstance(old, ast.Name) and old.id == st.targets[0].id:
                val = self.eval(v, env)
                self.eval(m, env)
                self.clips.append((st, val, m, old.id, "torch.where"))
                # the variable keeps its abstract identity (a clipped version of the signal)
                from ..absint import _Flow

                return _Flow(env)
        return super().stmt_Assign(st, env)


#: dense signals (feasible: many samples carry power) the PAPR projection is evaluated on, and the limits used
PAPR_SIGNALS = (
    [0.1, 0.2, -0.1, 3.0, 0.05, -0.2, 0.1, 0.15],
    [2.0, 0.1, -0.3, 0.2, 1.9, -0.1, 0.05, 0.0, -2.1, 0.3],
    [complex(0.1, 0.2), complex(-2, 2), complex(0.3, -0.1), complex(0.1, 0), complex(0, 0.2), complex(-0.1, -0.1)],
    [1.0, -1.0, 1.0, -1.0],
    [0.5, -0.4, 0.45, 0.55, -0.5, 0.6, -0.45, 0.5, 4.0, -0.5, 0.5, 0.45],
    [[0.2, -0.1, 2.5, 0.3], [0.1, -0.3, 0.2, -2.4]],
    [complex(1, 1), complex(-1, 1), complex(1.2, -0.9), complex(-3, -3), complex(0.8, 1.1), complex(1, -1), complex(-0.9, 1), complex(1, 1)],
)
PAPR_LIMITS = (1.5, 2.0, 3.0, 4.0)
#: a heavy-tailed signal on which, for the limit 1.1, the iteration does not reach its target and the final clip acts
PAPR_SLOW = ([0.3929, -0.5189, -0.5231, -0.2731, 0.5772, -0.267, -0.3003, -1.1285, -0.02, -3.5008, 0.999, 2.622, -2.2969, 3.4727, 0.696, 0.004], 1.1)


def papr_evaluated(repo: Repo):
    """_apply_constraint_to_single_item (class helpers followed) evaluated with own arithmetic on dense real and complex
    signals for four limits: the output's peak-to-average power ratio must not exceed the limit, and every output sample
    must be its input sample times a real factor in [0, 1] (sign / phase kept, nothing amplified).
    Returns (status, detail) or (None, reason)."""
    from ..constfold import Unfoldable
    from ..frag import FragRaise, FragReturn, run_fragment

    ci = repo.cls(PW, "PAPRConstraint")
    fi = repo.method(ci, "_apply_constraint_to_single_item")
    funcs = {f"self.{nm}": m.node for nm, m in ci.methods.items() if nm not in ("forward", "__init__", "_apply_constraint_to_single_item")}

    def flat(z):
        return [y for t in z for y in flat(t)] if isinstance(z, list) else [z]

    cases = 0
    scaled_out = []
    from ..frag import coverage_scope

    scope = coverage_scope()
    scope.__enter__()
    followed = [fi.node] + [m.node for nm, m in ci.methods.items() if f"self.{nm}" in funcs and any(isinstance(c_, ast.Call) and attr_chain(c_.func) == f"self.{nm}" for c_ in ast.walk(fi.node))]
    for mp, x in [(mp_, x_) for mp_ in PAPR_LIMITS for x_ in PAPR_SIGNALS] + [(PAPR_SLOW[1], [v_ * sc_ for v_ in PAPR_SLOW[0]]) for sc_ in (1.0, 30.0, 0.02)]:
        if True:
            try:
                run_fragment(fi.body, {"x": x, "args": [], "kwargs": {}}, {"self.max_papr": mp}, funcs=funcs, materialise=True, max_steps=4000000, attrs_live=True)
                scope.__exit__()
                return None, "no value returned"
            except FragReturn as ret:
                y = ret.value
            except (Unfoldable, FragRaise, TypeError, IndexError, ValueError, ZeroDivisionError, OverflowError) as exc:
                scope.__exit__()
                return None, str(exc)
            xf, yf = flat(x), flat(y) if isinstance(y, list) else None
            if yf is None or len(yf) != len(xf) or not all(isinstance(v, (int, float, complex)) and not isinstance(v, bool) for v in yf):
                scope.__exit__()
                return None, "the result is not a signal of the input's size"
            pw = [abs(v) ** 2 for v in yf]
            avg = sum(pw) / len(pw)
            if avg <= 0 or any(v != v for v in pw):
                scope.__exit__()
                return VIOLATION, f"max_papr = {mp}, input {str(x)[:70]}: the output has no power / is not a number"
            ratio = max(pw) / avg
            if ratio > mp * (1 + 1e-9):
                scope.__exit__()
                return VIOLATION, f"max_papr = {mp}, input {str(x)[:90]} (PAPR {max(abs(v) ** 2 for v in xf) / (sum(abs(v) ** 2 for v in xf) / len(xf)):.3f}): the output has PAPR {ratio:.4f} > {mp}: the limit is not enforced for this item"
            for a, b in zip(xf, yf):
                if abs(a) == 0:
                    if abs(b) > 1e-12:
                        scope.__exit__()
                        return VIOLATION, f"max_papr = {mp}: a zero sample becomes {b}"
                    continue
                f_ = complex(b) / complex(a)
                if abs(f_.imag) > 1e-9 or f_.real < -1e-12 or f_.real > 1 + 1e-9:
                    scope.__exit__()
                    return VIOLATION, f"max_papr = {mp}, input {str(x)[:70]}: the sample {a} becomes {b} (factor {f_:.6g}): clipping must scale a sample by a real factor in [0, 1] - its sign / phase is kept and it is not amplified"
            cases += 1
            if mp == PAPR_SLOW[1] and len(xf) == len(PAPR_SLOW[0]):
                scaled_out.append((abs(complex(xf[9])) / abs(PAPR_SLOW[0][9]), [complex(v) for v in yf]))
    scope.__exit__()
    # the projection commutes with a rescaling of its input (every bound is a multiple of the signal's own rms)
    if len(scaled_out) >= 2:
        s0, y0 = scaled_out[0]
        for s1, y1 in scaled_out[1:]:
            dev = max(abs(b / s1 - a / s0) for a, b in zip(y0, y1)) / max(abs(a / s0) for a in y0)
            if dev > 1e-3:
                return VIOLATION, f"the heavy-tailed signal scaled by {s1 / s0:g} is not mapped to the scaled output (relative deviation {dev:.3g}): a clipping level of the projection is not a multiple of the signal's own rms amplitude (sqrt(avg_power * max_papr * c)), so what the constraint does depends on the unit the signal is expressed in"
    gap = scope.note(followed)
    if gap:
        return None, f"branches never reached by the samples: {gap}"
    return OK, f"{cases} (signal, limit) pairs - dense real, complex and 2-D items, limits {PAPR_LIMITS}, and a heavy-tailed signal (at three scales, limit 1.1) on which the final clip acts: output PAPR <= limit, every sample scaled by a real factor in [0, 1], the map commutes with rescaling the input; every branch of the method was taken"


def rule_papr(repo: Repo, rep: Report) -> int:
    ci = repo.cls(PW, "PAPRConstraint")
    fi = repo.method(ci, "_apply_constraint_to_single_item")
    set_parents(fi.node)
    n = 0
    est_, ed_ = papr_evaluated(repo)
    if est_ is not None:
        rep.add("PAPR", fi, "_apply_constraint_to_single_item evaluated on dense signals for four limits", est_, ed_, node=fi.node)
        return 8 + _papr_dispatch(repo, rep, ci)
    MP = Mono.sym("MP")
    it = ClipScaling(fi, repo, cls=ci, attr_values={"self.max_papr": SV("det", MP)})
    it.MAX_ITER = 2
    it.run({"x": SV("sig", ONE), "args": NONE_V, "kwargs": NONE_V})
    seen = set()
    final_clips = []
    for st, val, mask, key, form in it.clips:
        if key != "result" or id(st) in seen:
            continue
        seen.add(id(st))
        in_loop = any(isinstance(a, (ast.For, ast.While)) for a in ancestors(st))
        if isinstance(val, SV) and val.kind == "dir":
            rep.ok("PAPR", fi, st, f"clipped samples keep their direction v/(|v|+eps): phase / sign preserved ({form})", node=st)
        elif isinstance(val, SV) and val.kind == "unk":
            rep.undecided("PAPR", fi, st, f"clipped value not derived ({val.why})", node=st)
        else:
            rep.violation("PAPR", fi, st, f"a clipping step writes {val.show() if isinstance(val, SV) else val}, not direction*bound: sign or phase of clipped samples is not preserved", node=st)
        n += 1
        if not in_loop:
            final_clips.append((st, val, mask, form))
    rep.floor("PAPR clipping steps", len(seen), 3)
    if len(final_clips) != 1:
        rep.violation("PAPR", fi, f"{len(final_clips)} clipping step(s) after the iteration loop", "exactly one final hard clip must follow the iteration loop on every path to the return")
        return n + 1
    st, val, mask, form = final_clips[0]
    guards = [a for a in ancestors(st) if isinstance(a, ast.If)]
    okg = (len(guards) == 1 and match(guards[0].test, "torch.any(_M)") is not None and guards[0] in fi.body) or (len(guards) == 0 and st in fi.body)
    rep.check(okg, "PAPR", fi, f"final clip guarded by: {[unparse(g.test) for g in guards] or 'nothing'}", "applied whenever any sample exceeds the bound, on every path (not inside the loop, not skipped by its break)", "the final clip is conditional on something other than `any(excess)` or is nested", node=st)
    n += 1
    top = guards[0] if guards else st
    idx = fi.body.index(top) if okg else -1
    tail = fi.body[idx + 1 :] if idx >= 0 else []
    rep.shape(len(tail) == 1 and isinstance(tail[0], ast.Return) and unparse(tail[0].value) == "result", False, "PAPR", fi, "return result directly after the final clip", "nothing modifies the signal after the final clip", "statements between the final clip and the return", node=tail[0] if tail else st)
    n += 1
    if isinstance(val, SV) and val.kind == "dir" and val.m is not None:
        b2 = val.m.pow(2)
        ratio = b2 / (E / N * MP)
        if ratio.only_coef():
            c = ratio.coef_value()
            rep.check(0 < c <= 1.0 + 1e-12, "PAPR", fi, f"final bound^2 = avg_power * max_papr * {c:.4g}", "clipping at or below sqrt(avg_power*max_papr)", f"final clipping level is {c:.4g} times the PAPR limit (> 1): peaks above the limit survive", node=st)
        else:
            rep.violation("PAPR", fi, f"final bound^2 = {b2.show()}", f"the final clipping level must be sqrt(avg_power * max_papr * c), c <= 1; found ratio {ratio.show()}", node=st)
    else:
        rep.undecided("PAPR", fi, "final bound", f"magnitude not derived ({val.show() if isinstance(val, SV) else val})", node=st)
    n += 1
    # the mask of the final clip compares |result| with the same bound
    mname = unparse(mask)
    finals = [(c, l, r) for (c, l, r) in it.compares if isinstance(l, SV) and l.kind == "sigabs" and isinstance(r, SV) and r.kind == "det" and not any(isinstance(a, (ast.For, ast.While)) for a in ancestors(c))]
    okm = any(isinstance(c.ops[0], ast.Gt) and isinstance(val, SV) and val.m is not None and r.m == val.m for (c, l, r) in finals)
    rep.check(okm, "PAPR", fi, f"final mask `{mname}`: {[unparse(c) for (c, l, r) in finals]}", "samples with |v| > bound are exactly the ones clipped to the bound", "the final mask does not compare |v| with the bound it clips to", node=st)
    n += 1
    return n + _papr_dispatch(repo, rep, ci)


def _papr_dispatch(repo: Repo, rep: Report, ci) -> int:
    n = 0
    fwd = repo.method(ci, "forward")
    dispatch_rule(rep, "PAPR", fwd, batched_marker=lambda b: any((isinstance(c, ast.Call) and call_name(c) == "torch.vmap") or (isinstance(c, ast.Subscript) and unparse(c) == "x[i]") for s_ in b for c in ast.walk(s_)))
    n += 1
    ROUTINE = "self._apply_constraint_to_single_item"
    wrappers = {}
    for d_ in ast.walk(fwd.node):
        if isinstance(d_, ast.FunctionDef) and d_ is not fwd.node and d_.args.args:
            par_ = d_.args.args[0].arg
            rets_ = [r_ for r_ in ast.walk(d_) if isinstance(r_, ast.Return) and isinstance(r_.value, ast.Call) and attr_chain(r_.value.func) == ROUTINE and r_.value.args and unparse(r_.value.args[0]) == par_]
            if rets_:
                wrappers[d_.name] = par_
    applied = []  # argument texts the single-item routine is (directly or through a local wrapper) applied to
    vmapped = False
    for c in ast.walk(fwd.node):
        if not isinstance(c, ast.Call):
            continue
        if attr_chain(c.func) == ROUTINE and c.args:
            a_ = unparse(c.args[0])
            if a_ not in wrappers.values():
                applied.append(a_)
        elif isinstance(c.func, ast.Name) and c.func.id in wrappers and c.args:
            applied.append(unparse(c.args[0]))
        elif isinstance(c.func, ast.Call) and call_name(c.func) == "torch.vmap" and c.func.args and isinstance(c.func.args[0], ast.Name) and c.func.args[0].id in wrappers and c.args and unparse(c.args[0]) == "x":
            vmapped = True
    vm_names = {s_.targets[0].id for s_ in ast.walk(fwd.node) if isinstance(s_, ast.Assign) and isinstance(s_.targets[0], ast.Name) and isinstance(s_.value, ast.Call) and call_name(s_.value) == "torch.vmap" and s_.value.args and isinstance(s_.value.args[0], ast.Name) and s_.value.args[0].id in wrappers}
    vmapped = vmapped or any(isinstance(c, ast.Call) and isinstance(c.func, ast.Name) and c.func.id in vm_names and c.args and unparse(c.args[0]) == "x" for c in ast.walk(fwd.node))
    applied = [a_ for a_ in applied if not (a_ == "x" and False)]
    ok_items = set(applied) <= {"x", "x[i]"} and "x" in applied and ("x[i]" in applied or vmapped)
    rep.expect(ok_items, "PAPR", fwd, f"per-item application on {sorted(set(applied))}{' + vmap over x' if vmapped else ''}", "vmap over the batch axis / per-row fallback / single item", "the PAPR constraint is no longer applied to each batch item separately", node=fwd.node)
    return n + 1


# ---------------------------------------------------------------------------
# COMPOSITE-ORDER
# ---------------------------------------------------------------------------

# what each stage establishes / preserves (reasons in EXPLANATION and DESIGN.md §2 C08.5)
STAGES = {
    "TotalPowerConstraint": {"est": {"power"}, "keeps": {"power", "papr"}, "why": "global rescaling keeps ratios (PAPR) but moves every sample: amplitude bounds and spectral masks are not kept"},
    "AveragePowerConstraint": {"est": {"power"}, "keeps": {"power", "papr"}, "why": "global rescaling"},
    "PerAntennaPowerConstraint": {"est": {"power"}, "keeps": {"power"}, "why": "per-antenna rescaling"},
    "PAPRConstraint": {"est": {"papr"}, "keeps": {"papr", "power", "amplitude"}, "why": "clipping only shrinks samples: power<=, amplitude<= and PAPR<= survive"},
    "PeakAmplitudeConstraint": {"est": {"amplitude"}, "keeps": {"amplitude", "power", "papr"}, "why": "clipping only shrinks samples"},
    "SpectralMaskConstraint": {"est": {"mask"}, "keeps": {"mask", "power"}, "why": "frequency-domain scaling re-shapes the time signal: PAPR and amplitude bounds are not kept"},
}


def factory_configs(fi: FuncInfo) -> List[Tuple[Dict[str, bool], List[Tuple[str, ast.AST]]]]:
    """All configurations (optional parameter present/absent) -> ordered stage class names."""
    tests: List[str] = []
    for st in stmts_of(fi.body):
        if isinstance(st, ast.If) and any(isinstance(c, ast.Call) and isinstance(c.func, ast.Attribute) and c.func.attr == "append" for s2 in st.body + st.orelse for c in ast.walk(s2)):
            t = unparse(st.test)
            if t not in tests:
                tests.append(t)
    out = []
    from itertools import product

    for combo in product([True, False], repeat=len(tests)):
        atoms = dict(zip(tests, combo))
        stages: List[Tuple[str, ast.AST]] = []

        def walk(body):
            for st in body:
                if isinstance(st, ast.If):
                    t = unparse(st.test)
                    if t in atoms:
                        walk(st.body if atoms[t] else st.orelse)
                    elif any(isinstance(x, ast.Raise) for x in st.body):
                        continue
                    else:
                        walk(st.body)
                        walk(st.orelse)
                elif isinstance(st, ast.Expr) and isinstance(st.value, ast.Call) and isinstance(st.value.func, ast.Attribute) and st.value.func.attr == "append" and st.value.args and isinstance(st.value.args[0], ast.Call):
                    stages.append((call_name(st.value.args[0]) or "?", st))

        walk(fi.body)
        out.append((atoms, stages))
    return out


def factory_configs_evaluated(fi: FuncInfo):
    """The factory body is run (own arithmetic, model objects for the constraint classes) for every presence / absence
    pattern of its optional parameters; returns [(configuration, [stage class names])] or None if not evaluable."""
    from itertools import product

    from ..constfold import PySeq, Unfoldable
    from ..frag import FragRaise, FragReturn, run_fragment
    from ..gf2 import EvalObj

    class Stage(EvalObj):
        def __init__(self, cls_name, *a, **k):
            self.cls_name = cls_name
            self.limit = a[0] if a else (next(iter(k.values())) if k else None)

    class Comp(EvalObj):
        def __init__(self, constraints):
            self.constraints = PySeq(constraints)

    def mk(name):
        return lambda *a, **k: Stage(name, *a, **k)

    ctors = {nm: mk(nm) for nm in STAGES}
    ctors["CompositeConstraint"] = Comp
    a = fi.node.args
    params = [p.arg for p in a.args + a.kwonlyargs]
    defaults = [None] * (len(a.args) - len(a.defaults)) + list(a.defaults) + list(a.kw_defaults)
    none_tested = {c.left.id for c in ast.walk(fi.node) if isinstance(c, ast.Compare) and isinstance(c.left, ast.Name) and len(c.ops) == 1 and isinstance(c.ops[0], (ast.Is, ast.IsNot)) and isinstance(c.comparators[0], ast.Constant) and c.comparators[0].value is None}
    optional = [p for p, d in zip(params, defaults) if (isinstance(d, ast.Constant) and d.value is None) or p in none_tested]
    flags = [p for p, d in zip(params, defaults) if isinstance(d, ast.Constant) and isinstance(d.value, bool)]
    out = []
    sizes = (4, 1, 2) if "num_antennas" in params else (None,)
    for combo, size_ in ((c_, z_) for z_ in sizes for c_ in product([True, False], repeat=len(optional))):
        for fl in product([True, False], repeat=len(flags)):
            names = {}
            for p, d in zip(params, defaults):
                names[p] = SAMPLE_LIMITS.get(p, 1.5)
            if size_ is not None:
                names["num_antennas"] = size_
                if p == "spectral_mask":
                    names[p] = [1.0, 1.0]
            for p, present in zip(optional, combo):
                if not present:
                    names[p] = None
            for p, v in zip(flags, fl):
                names[p] = v
            try:
                run_fragment(fi.body, names, {}, ctors=ctors, max_steps=5000)
                return None
            except FragReturn as r:
                res = r.value
            except FragRaise:
                continue  # an inadmissible combination of arguments
            except (Unfoldable, TypeError) :
                return None
            if not isinstance(res, Comp) or not all(isinstance(x, Stage) for x in res.constraints):
                return None
            cfg_ = dict(zip(optional, combo))
            for p in params:
                if p not in optional and p in SAMPLE_LIMITS and p != "num_antennas":
                    cfg_[p] = True  # a required limit is always configured
            if size_ is not None:
                cfg_["num_antennas"] = size_
            out.append((cfg_, [(x.cls_name, x.limit) for x in res.constraints]))
    return out


def rule_factories(repo: Repo, rep: Report) -> int:
    n = 0
    for fname in ("create_ofdm_constraints", "create_mimo_constraints"):
        fi = repo.func(CU, fname)
        rets = returns_of(fi.node)
        ok = len(rets) == 1 and match(rets[0].value, "CompositeConstraint(constraints)") is not None
        evaluated = factory_configs_evaluated(fi)
        if not ok and evaluated:
            # the list is assembled differently: the factory was evaluated with model constructors and returned a composite
            # whose stages are judged below for every presence pattern of the optional parameters
            rep.ok("COMPOSITE-ORDER", fi, f"{fname} returns {unparse(rets[-1].value) if rets else '?'}", f"evaluated for {len(evaluated)} argument patterns: a CompositeConstraint over the stages it built", node=rets[-1] if rets else fi.node)
        else:
            rep.shape(ok, False, "COMPOSITE-ORDER", fi, f"{fname} returns {unparse(rets[-1].value) if rets else '?'}", "the appended list, in order", "the factory does not return CompositeConstraint(<the list it built>)")
        n += 1
        seen = set()
        for atoms, stages in (evaluated if evaluated else factory_configs(fi)):
            names = [s for s, _ in stages]
            key = tuple(names)
            if key in seen or not names:
                continue
            seen.add(key)
            unknown = [s for s in names if s not in STAGES]
            if unknown:
                rep.undecided("COMPOSITE-ORDER", fi, f"{fname}: [{', '.join(names)}]", f"no preservation entry for {unknown}")
                continue
            broken = []
            for i, s in enumerate(names):
                for lim in STAGES[s]["est"]:
                    for j in range(i + 1, len(names)):
                        if lim not in STAGES[names[j]]["keeps"]:
                            broken.append((lim, s, names[j]))
            n += 1
            if not broken:
                rep.ok("COMPOSITE-ORDER", fi, f"{fname}: [{', '.join(names)}]", "every limit established by a stage is preserved by all later stages")
            else:
                lim, s, later = broken[0]
                rep.violation("COMPOSITE-ORDER", fi, f"{fname}: [{', '.join(names)}]", f"the {lim} limit established by {s} is not preserved by the later {later} ({STAGES[later]['why']}): the composite does not satisfy all its limits simultaneously")
        rep.floor(f"{fname} configurations", len(seen), 2)
    return n


#: the factory parameter that carries the limit of each stage class
LIMIT_PARAM = {"PAPRConstraint": "max_papr", "PeakAmplitudeConstraint": "peak_amplitude", "TotalPowerConstraint": "total_power", "PerAntennaPowerConstraint": "uniform_power", "AveragePowerConstraint": "average_power", "SpectralMaskConstraint": "spectral_mask"}
SAMPLE_LIMITS = {"max_papr": 3.7, "peak_amplitude": 0.9, "total_power": 1.3, "uniform_power": 0.6, "average_power": 0.8, "num_antennas": 4}


def rule_combine(repo: Repo, rep: Report) -> int:
    """combine_constraints(list) applies the given constraints in the given order (a nested composite contributes its own
    parts in their order at its place).  The function body is run (own arithmetic, model objects for composites) on sample
    lists and the depth-first order of the result is compared with that of the argument."""
    from ..constfold import PySeq, Unfoldable
    from ..frag import FragRaise, FragReturn, run_fragment
    from ..gf2 import EvalObj

    class Comp(EvalObj):
        def __init__(self, constraints):
            self.constraints = PySeq(constraints)

    def flat(z):
        if isinstance(z, Comp):
            return [y for t in z.constraints for y in flat(t)]
        return [z]

    fi = repo.func(CU, "combine_constraints")
    samples = [["A", "B"], ["A", Comp(["B", "C"])], [Comp(["A", "B"]), Comp(["C", "D"])], ["A", Comp(["B", Comp(["C", "D"]), "E"]), "F"], [Comp(["A", "B", "C"]), "D"]]
    what = "combine_constraints: order of application"
    for smp in samples:
        try:
            run_fragment(fi.body, {"constraints": PySeq(smp)}, {}, ctors={"CompositeConstraint": Comp}, max_steps=5000)
            rep.undecided("COMPOSITE-ORDER", fi, what, "no value returned")
            return 1
        except FragReturn as r:
            got = r.value
        except (Unfoldable, FragRaise, TypeError) as exc:
            rep.undecided("COMPOSITE-ORDER", fi, what, f"not evaluable ({exc})")
            return 1
        want = [y for t in smp for y in flat(t)]
        if flat(got) != want:
            rep.violation("COMPOSITE-ORDER", fi, what, f"for the list {[('(' + ' '.join(flat(t)) + ')') if isinstance(t, Comp) else t for t in smp]} the combined constraint applies {flat(got)} instead of {want}: non-commuting parts (power scaling and clipping) give a different signal, and the last-applied limit is not the one the caller put last", node=fi.node)
            return 1
    rep.ok("COMPOSITE-ORDER", fi, what, f"depth-first order of the argument on {len(samples)} sample lists (nested composites included)", node=fi.node)
    return 1


def rule_limit_forward(repo: Repo, rep: Report) -> int:
    """Each stage of a factory-built composite enforces the limit the caller configured: the limit argument of every stage
    constructor, evaluated (own arithmetic) for sample parameter values and both values of every boolean option, equals
    the factory parameter of that meaning."""
    from ..constfold import Folder, Unfoldable
    from itertools import product

    n = 0
    for fname in ("create_ofdm_constraints", "create_mimo_constraints"):
        fi = repo.func(CU, fname)
        local = {}
        for st in stmts_of(fi.body):
            if isinstance(st, ast.Assign) and len(st.targets) == 1 and isinstance(st.targets[0], ast.Name) and st.targets[0].id not in fi.params:
                local.setdefault(st.targets[0].id, []).append(st.value)
        local = {k: v[0] for k, v in local.items() if len(v) == 1}
        flags = [p for p in fi.params if p.startswith(("is_", "use_", "enable"))]
        ctors = [c.args[0] for c in ast.walk(fi.node) if isinstance(c, ast.Call) and isinstance(c.func, ast.Attribute) and c.func.attr == "append" and c.args and isinstance(c.args[0], ast.Call)]
        for ctor in ctors:
            cname = call_name(ctor) or "?"
            par = LIMIT_PARAM.get(cname)
            arg = ctor.args[0] if ctor.args else next((k.value for k in ctor.keywords if k.arg == par), ctor.keywords[0].value if ctor.keywords else None)
            what = f"{fname}: {unparse(ctor)}"
            n += 1
            if par is None or arg is None or par not in fi.params:
                rep.undecided("LIMIT-FORWARD", fi, what, "stage class without a limit-parameter entry", node=ctor)
                continue
            if isinstance(arg, ast.Name) and arg.id == par:
                rep.ok("LIMIT-FORWARD", fi, what, f"the stage enforces the configured `{par}`", node=ctor)
                continue
            if par == "spectral_mask":
                rep.undecided("LIMIT-FORWARD", fi, what, "mask argument is not the parameter itself", node=ctor)
                continue
            bad, und = [], []
            for combo in product([True, False], repeat=len(flags)):
                names = dict(local)
                names.update(SAMPLE_LIMITS)
                names.update(dict(zip(flags, combo)))
                try:
                    v = Folder(names).fold(arg)
                except Unfoldable as exc:
                    und.append(str(exc))
                    continue
                if not (isinstance(v, (int, float)) and abs(v - SAMPLE_LIMITS[par]) < 1e-12):
                    bad.append(f"with {dict(zip(flags, combo))} and {par}={SAMPLE_LIMITS[par]} the stage is built with {v!r}")
            if bad:
                rep.violation("LIMIT-FORWARD", fi, what, f"the limit handed to {cname} is not the configured `{par}`: {bad[0]}", node=ctor)
            elif und:
                rep.undecided("LIMIT-FORWARD", fi, what, f"limit argument outside the evaluator: {und[0]}", node=ctor)
            else:
                rep.ok("LIMIT-FORWARD", fi, what, f"evaluates to the configured `{par}` for every option", node=ctor)
    # the same judged on the evaluated factories (whatever way the stage list is assembled): for every admissible presence
    # pattern of the optional limits and every array size, each configured limit is enforced by a stage of the class that
    # carries that limit, built with the configured value - and no stage is built with another value
    inv = {v: k for k, v in LIMIT_PARAM.items()}
    for fname in ("create_ofdm_constraints", "create_mimo_constraints"):
        fi = repo.func(CU, fname)
        ev = factory_configs_evaluated(fi)
        if not ev:
            continue
        bad = None
        for cfg_, stages in ev:
            present = {p_ for p_, on in cfg_.items() if on is True}
            for p_ in present:
                if p_ in inv and p_ in SAMPLE_LIMITS and not any(nm_ == inv[p_] and isinstance(v_, (int, float)) and abs(v_ - SAMPLE_LIMITS[p_]) < 1e-12 for nm_, v_ in stages):
                    bad = bad or f"with {', '.join(sorted(present))} configured" + (f" and num_antennas = {cfg_['num_antennas']}" if "num_antennas" in cfg_ else "") + f" the composite is {[(nm_, v_ if isinstance(v_, (int, float)) else '...') for nm_, v_ in stages]}: no {inv[p_]} stage enforces {p_} = {SAMPLE_LIMITS[p_]}"
            for nm_, v_ in stages:
                par = LIMIT_PARAM.get(nm_)
                if par in SAMPLE_LIMITS and isinstance(v_, (int, float)) and (par not in present or abs(v_ - SAMPLE_LIMITS[par]) > 1e-12):
                    bad = bad or f"with {', '.join(sorted(present))} configured" + (f" and num_antennas = {cfg_['num_antennas']}" if "num_antennas" in cfg_ else "") + f" a {nm_} stage is built with {v_!r}, which is not a configured `{par}`"
        n += 1
        if bad:
            rep.violation("LIMIT-FORWARD", fi, f"{fname}: stages of the evaluated composites against the configured limits", bad + " - the limit the caller configured is not the one the composite enforces", node=fi.node)
        else:
            rep.ok("LIMIT-FORWARD", fi, f"{fname}: stages of the evaluated composites against the configured limits", f"{len(ev)} evaluated configurations (presence patterns of the optional limits" + (", array sizes 1, 2, 4" if any("num_antennas" in c_ for c_, _ in ev) else "") + "): every configured limit is enforced by the stage class that carries it, with the configured value", node=fi.node)
    rep.floor("factory stage constructors", n, 4)
    return n


def rule_result_dtype(repo: Repo, rep: Report, classes) -> int:
    """RESULT-DTYPE: a constraint returns a tensor of the input's dtype.  A result buffer created with
    torch.empty / zeros / ones / full(shape...) gets the DEFAULT dtype (float32) unless `dtype=` names the input's: per-item
    results stored into it are cast - a complex signal loses its imaginary part (UserWarning only), and the limit is
    enforced on another signal than the one returned.  `*_like(x)` and `new_*` inherit the dtype."""
    n = 0
    for ci in classes:
        for m, fi in ci.methods.items():
            if m.startswith("__") or m in ("extra_repr",):
                continue
            params = [p_ for p_ in fi.params if p_ not in ("self", "args", "kwargs")]
            if not params:
                continue
            sig = params[0]
            for st in ast.walk(fi.node):
                if not (isinstance(st, ast.Assign) and len(st.targets) == 1 and isinstance(st.targets[0], ast.Name) and isinstance(st.value, ast.Call)):
                    continue
                nm = call_name(st.value) or ""
                if nm not in ("torch.empty", "torch.zeros", "torch.ones", "torch.full"):
                    continue
                buf = st.targets[0].id
                # does the shape come from the signal, and are items of a signal-derived computation stored into it?
                shaped = any(isinstance(x_, ast.Name) and x_.id == sig for a_ in st.value.args for x_ in ast.walk(a_))
                stores = [s_ for s_ in ast.walk(fi.node) if isinstance(s_, ast.Assign) and any(isinstance(t_, ast.Subscript) and isinstance(t_.value, ast.Name) and t_.value.id == buf for t_ in s_.targets) and any(isinstance(x_, ast.Name) and x_.id == sig for x_ in ast.walk(s_.value))]
                rets = any(isinstance(r_, ast.Return) and r_.value is not None and any(isinstance(x_, ast.Name) and x_.id == buf for x_ in ast.walk(r_.value)) for r_ in ast.walk(fi.node))
                if not (shaped and stores and rets):
                    continue
                n += 1
                dt = next((k.value for k in st.value.keywords if k.arg == "dtype"), None)
                if dt is not None and any(isinstance(x_, ast.Name) and x_.id == sig for x_ in ast.walk(dt)):
                    rep.ok("RESULT-DTYPE", fi, f"{ci.name}.{m}: result buffer {unparse(st)[:70]}", "created in the input's dtype", node=st, nontrivial=False)
                else:
                    rep.violation("RESULT-DTYPE", fi, f"{ci.name}.{m}: result buffer `{buf}` without the input's dtype", f"`{unparse(st)[:80]}` creates the returned buffer in {'the dtype ' + unparse(dt) if dt is not None else 'the default dtype (float32)'} and `{unparse(stores[0])[:70]}` stores per-item results of `{sig}` into it: a complex (or float64) signal is cast on the way - the imaginary part is dropped with a warning only, and the returned signal no longer meets the limit that was enforced on the item", node=st)
    rep.ok("RESULT-DTYPE", "kaira::constraints", f"{len(classes)} classes scanned for result buffers that do not inherit the input's dtype", "none found" if n == 0 else f"{n} buffer(s) judged", nontrivial=False)
    return n + 1


def rule_ctor_alias(repo: Repo, rep: Report, classes) -> int:
    """CTOR-ALIAS: a constructor must not work in place on a tensor that shares storage with one of its arguments
    (`t = limit.detach(); t.sqrt_()`): `detach()`, `.data`, `view` and a conditional with such an arm hand out the caller's
    storage, so the in-place operation rewrites the configured limit itself (and the caller's tensor) - the object then
    enforces a different limit than the one it was given and reports."""
    n = 0
    SHARE = ("detach", "view", "view_as", "reshape", "squeeze", "unsqueeze", "flatten", "contiguous", "to", "float", "double", "type", "expand", "T", "t")
    for ci in classes:
        init = ci.methods.get("__init__")
        if init is None:
            continue
        params = {a.arg for a in init.node.args.args + init.node.args.kwonlyargs} - {"self"}
        ldefs = {}
        for st in ast.walk(init.node):
            if isinstance(st, ast.Assign) and len(st.targets) == 1 and isinstance(st.targets[0], ast.Name):
                ldefs.setdefault(st.targets[0].id, []).append(st.value)

        def shares(e, depth=0):
            """name of the constructor argument whose storage the expression may hand out, or None"""
            if isinstance(e, ast.IfExp):
                return shares(e.body, depth) or shares(e.orelse, depth)
            while True:
                if isinstance(e, ast.Call) and isinstance(e.func, ast.Attribute) and e.func.attr in SHARE:
                    e = e.func.value
                elif isinstance(e, ast.Attribute) and e.attr in ("data", "T", "real", "imag"):
                    e = e.value
                else:
                    break
            if isinstance(e, ast.Name):
                if e.id in params:
                    return e.id
                if depth < 3:
                    for d_ in ldefs.get(e.id, []):
                        r_ = shares(d_, depth + 1)
                        if r_:
                            return r_
            if isinstance(e, ast.Attribute) and (attr_chain(e) or "").startswith("self."):
                for st in ast.walk(init.node):
                    if isinstance(st, ast.Assign) and any(attr_chain(t_) == attr_chain(e) for t_ in st.targets) and depth < 3:
                        return shares(st.value, depth + 1)
            return None

        n += 1
        bad = False
        for st in ast.walk(init.node):
            recv = None
            if isinstance(st, ast.Call) and isinstance(st.func, ast.Attribute) and st.func.attr.endswith("_") and not st.func.attr.startswith("_") and st.func.attr not in ("requires_grad_",):
                recv = st.func.value
            elif isinstance(st, ast.AugAssign) and isinstance(st.target, (ast.Name, ast.Subscript)):
                recv = st.target if isinstance(st.target, ast.Name) else st.target.value
            if recv is None:
                continue
            who = shares(recv)
            if who:
                bad = True
                rep.violation("CTOR-ALIAS", init, f"{ci.name}.__init__: in-place operation on storage shared with the argument `{who}`", f"`{unparse(st)[:70]}` works in place on a tensor that `detach()` / a view / a plain name shares with the constructor argument `{who}`: when a tensor is passed, the configured limit itself (and the caller's tensor) is overwritten, and forward enforces a different limit than the one configured", node=st)
        if not bad:
            rep.ok("CTOR-ALIAS", init, f"{ci.name}.__init__: no in-place operation reaches the storage of an argument", "the configured limits are stored as given", node=init.node, nontrivial=False)
    return n


def run(repo: Repo, rep: Report, tier: str) -> None:
    n = rule_limit_forward(repo, rep)
    n += rule_combine(repo, rep)
    n += analyse_power_class(repo, rep, "TotalPowerConstraint", "total_power", "total_power_factor", "T", False)
    n += analyse_power_class(repo, rep, "AveragePowerConstraint", "average_power", "power_avg_factor", "A", True)
    n += rule_per_antenna(repo, rep)
    n += rule_peak(repo, rep)
    n += rule_papr(repo, rep)
    n += rule_factories(repo, rep)
    # a constraint object enforces the same limit on every call: no method modifies a stored tensor (the limit, its
    # precomputed factor) through a local alias (rule shared with C20)
    from .c20 import rule_chunk_cover, rule_state_alias

    n += rule_chunk_cover(repo, rep, [c_ for mi_ in repo.modules.values() if mi_.relpath.startswith("kaira/constraints/") for c_ in mi_.classes.values()])
    n += rule_state_alias(repo, rep, [c_ for mi_ in repo.modules.values() if mi_.relpath.startswith("kaira/constraints/") for c_ in mi_.classes.values()])
    n += rule_ctor_alias(repo, rep, [c_ for mi_ in repo.modules.values() if mi_.relpath.startswith("kaira/constraints/") for c_ in mi_.classes.values()])
    n += rule_result_dtype(repo, rep, [c_ for mi_ in repo.modules.values() if mi_.relpath.startswith("kaira/constraints/") for c_ in mi_.classes.values()])
    # composite = sequential loop (shared with C17)
    from .c17 import seq_loop

    fi = repo.func(CO, "CompositeConstraint.forward")
    seq_loop(rep, fi, lambda e: attr_chain(e) == "self.constraints", True, "CompositeConstraint applies self.constraints")
    # the stored list is the caller's sequence: same order, same multiplicity (a constraint object that occurs twice runs twice)
    cinit = repo.func(CO, "CompositeConstraint.__init__")
    for st_ in ast.walk(cinit.node):
        if isinstance(st_, ast.Assign) and any(attr_chain(t_) == "self.constraints" for t_ in st_.targets):
            vals = [st_.value.body, st_.value.orelse] if isinstance(st_.value, ast.IfExp) else [st_.value]
            for v_ in vals:
                txt_ = unparse(v_)
                good = txt_ in ("constraints", "torch.nn.ModuleList(constraints)", "nn.ModuleList(constraints)", "torch.nn.ModuleList(list(constraints))", "nn.ModuleList(list(constraints))")
                wrong = any(k_ in txt_ for k_ in ("dict.fromkeys(", "set(", "sorted(", "reversed(", "[::-1]", "unique"))
                rep.shape(good, wrong, "COMPOSITE-ORDER", cinit, f"self.constraints = {txt_}", "the caller's sequence in its order, every entry kept", "the stored chain is not the caller's sequence: entries are dropped, merged or re-ordered, so the composite differs from applying the given constraints one after the other", node=st_)
                n += 1
    fi = repo.func(CU, "apply_constraint_chain")
    seq_loop(rep, fi, lambda e: isinstance(e, ast.Name) and e.id == "constraints", False, "apply_constraint_chain applies its list")
    rep.floor("C08 rule instances", n + 2, 40)
    rep.decided_clauses += [
        "total / average / per-antenna power: output = x * s, s > 0, s^2 * current power = target exactly, per item (per antenna), zero-signal substitute has the target power",
        "peak amplitude: symmetric clamp on every path",
        "PAPR: phase-preserving clipping stores; final clip on every path with bound^2 <= avg_power*max_papr",
        "composite = sequential application; factory orderings preserve every established limit",
    ]
    rep.undecided_clauses += ["convergence of the iterative clipping to the PAPR limit", "the 0.1% tolerance as a number", "spectral mask constraint"]
