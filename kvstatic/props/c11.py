"""C11 - polar encoding is the Arikan transform on the 5G information set; decoders agree with it (structure)."""
from __future__ import annotations

import ast
import os
from typing import Dict, List, Optional

from ..astutil import Inliner, ancestors, attr_chain, call_name, const_value, match, returns_of, set_parents, stmts_of, statement_texts, walk_no_nested
from ..closedform import classify
from ..core import OK, UNDECIDED, VIOLATION, VERIF_DIR, AnalysisError, FuncInfo, Repo, Report, unparse
from ..polarity import D, I, Polarity, mk
from ..speciallint import lint_value_keyed

EXPLANATION = (
    "KERNEL: calculate_gm uses the literal kernel [[1,0],[1,1]] and log2(N)-1 Kronecker steps. RANK-TABLE: kaira/models/fec/rank_polar.csv is parsed by the checker; it must be a "
    "permutation of 0..1023, respect bitwise-subset dominance (a position whose binary index is a subset of another's is never more reliable) and equal, entry by entry, the "
    "reliability sequence of 3GPP TS 38.212 Table 5.3.1.2-1 kept in /verif/fixtures (the table is defined by the standard: any differing entry changes an information set). "
    "INFO-SET: frozen positions are the first N-k entries of the ranking restricted to values < N; user masks are validated (length N, exactly k ones). FROZEN-VALUE: the encoder "
    "fills frozen positions with zeros iff frozen_zeros, the SC leaf uses the same selector, and polar BP initialises its frozen right-messages to +clip iff frozen_zeros "
    "(positive LLR = bit 0, polarity engine). SC-SHAPE: checknode is sum_product / min_sum by regime (clipped), bitnode is exactly y2 + (1 - 2x) y1 (the textbook g-function is not "
    "saturated), f2 = cat(x1 xor x2, x2), LLRs / information mask / partial sums are split into the same halves ([:N//2] / [N//2:]; even/odd for the interleaved variant, "
    "consistently with the encoder's permutation flag); min_sum and sum_product helpers have their closed forms. Equality of the butterfly network with the Kronecker matrix and "
    "the BP schedule's correctness as values are not decided."
)

PE = "kaira/models/fec/encoders/polar_code.py"
SC = "kaira/models/fec/decoders/successive_cancellation.py"
PBP = "kaira/models/fec/decoders/belief_propagation_polar.py"
FU = "kaira/models/fec/utils.py"
CSV = "kaira/models/fec/rank_polar.csv"


def gm_evaluated(repo: Repo):
    """calculate_gm evaluated (own arithmetic) for N = 2 .. 64: the published generator matrix must be the m-fold Kronecker
    power of [[1, 0], [1, 1]]."""
    from ..constfold import Unfoldable
    from ..frag import FragRaise, FragReturn, run_fragment

    fi = repo.func(PE, "calculate_gm")
    params = [p_ for p_ in fi.params]
    funcs = {nm: f.node for nm, f in fi.module.functions.items() if nm != fi.name}
    for m in range(1, 7):
        N = 2**m
        names = {params[0]: N}
        for p_ in params[1:]:
            names[p_] = "cpu"
        try:
            run_fragment(fi.body, names, {}, funcs=funcs, materialise=True, max_steps=2000000)
            return None, "no value returned"
        except FragReturn as ret:
            G = ret.value
        except (Unfoldable, FragRaise, TypeError, IndexError, ValueError) as exc:
            return None, str(exc)
        want = [[1]]
        for _ in range(m):
            k_ = len(want)
            want = [[(want[i % k_][j % k_] if not (i < k_ and j >= k_) else 0) for j in range(2 * k_)] for i in range(2 * k_)]
        if not (isinstance(G, list) and len(G) == N and all(isinstance(r, list) and len(r) == N for r in G)):
            return None, f"N = {N}: the result is not an N x N matrix"
        try:
            same = [[float(x) for x in r] for r in G] == [[float(x) for x in r] for r in want]
        except (TypeError, ValueError):
            return None, "the result is not numeric"
        if not same:
            return VIOLATION, f"N = {N}: calculate_gm returns {str(G)[:120]}..., the {m}-fold Kronecker power of [[1,0],[1,1]] is {str(want)[:120]}..."
    return OK, "equals the m-fold Kronecker power of [[1,0],[1,1]] for N = 2 .. 64"


def rule_kernel(repo: Repo, rep: Report) -> int:
    fi = repo.func(PE, "calculate_gm")
    gst_, gd_ = gm_evaluated(repo)
    if gst_ is not None:
        rep.add("KERNEL", fi, "calculate_gm evaluated for N = 2 .. 64", gst_, gd_, node=fi.node)
        return 2
    body = {unparse(s.targets[0]): s.value for s in stmts_of(fi.body) if isinstance(s, ast.Assign)}
    k = body.get("factor_graph")
    lit = None
    if isinstance(k, ast.Call) and k.args:
        try:
            lit = const_value(k.args[0])
        except ValueError:
            lit = None
    rep.check(lit == [[1, 0], [1, 1]], "KERNEL", fi, f"kernel literal {lit}", "Arikan kernel [[1,0],[1,1]]", "the polar kernel is not [[1,0],[1,1]]")
    loops = [s for s in fi.body if isinstance(s, ast.For)]
    it = unparse(loops[0].iter) if loops else "?"
    okl = it == "range(int(torch.log2(torch.tensor(code_length, dtype=torch.float32)).item()) - 1)" and any(unparse(s) == "n_factor = torch.kron(n_factor, factor_graph)" for s in stmts_of(fi.body))
    rep.expect(okl, "KERNEL", fi, f"Kronecker steps: for _ in {it}: n_factor = kron(n_factor, kernel)", "m-fold Kronecker power (m = log2 N)", "number of Kronecker steps changed")
    return 2


def rule_rank_table(repo: Repo, rep: Report) -> int:
    path = os.path.join(repo.root, CSV)
    where = f"{CSV}::table"
    if not os.path.exists(path):
        raise AnalysisError(f"anchor vanished: {CSV}")
    repo.consulted.add(PE)
    rows = [l.split() for l in open(path, encoding="utf-8").read().strip().splitlines()]
    try:
        seq = [int(r[1]) for r in rows[1:]]
        idx = [int(r[0]) for r in rows[1:]]
    except (ValueError, IndexError):
        rep.undecided("RANK-TABLE", where, "parse", "not `index value` rows")
        return 1
    n = 0
    rep.check(idx == list(range(len(idx))), "RANK-TABLE", where, f"row indices 0..{len(idx) - 1} in order", "the row index is the reliability rank", "row indices are not 0..N-1 in order (pandas index_col=0 keeps file order; the rank is the row position)")
    rep.check(sorted(seq) == list(range(1024)), "RANK-TABLE", where, f"{len(seq)} entries, permutation of 0..1023: {sorted(seq) == list(range(1024))}", "every position ranked exactly once", "the ranking is not a permutation of 0..1023")
    n += 2
    pos = {v: i for i, v in enumerate(seq)}
    viol = []
    if sorted(seq) == list(range(1024)):
        for a in range(1024):
            # a subset-dominated by b = a | (1 << t)
            for t in range(10):
                b = a | (1 << t)
                if b != a and pos[a] > pos[b]:
                    viol.append((a, b))
    rep.check(not viol, "RANK-TABLE", where, f"bitwise-subset dominance: {len(viol)} violations", "if the index bits of a are a subset of those of b then a is not more reliable than b (holds for every polar reliability order)", f"dominance violated, e.g. {viol[:3]}: a sub-channel is ranked above one that dominates it")
    n += 1
    ref_path = os.path.join(VERIF_DIR, "fixtures", "ts38212_polar_sequence.txt")
    ref = [int(x) for x in open(ref_path).read().split()]
    diffs = [(i, a, b) for i, (a, b) in enumerate(zip(seq, ref)) if a != b]
    rep.check(not diffs and len(seq) == len(ref), "RANK-TABLE", where, f"agreement with TS 38.212 Table 5.3.1.2-1: {len(diffs)} differing entries", "the 5G reliability sequence, entry by entry", f"entries differ from the standard's sequence at ranks {[d[0] for d in diffs[:6]]} (file has {[d[1] for d in diffs[:6]]}, standard has {[d[2] for d in diffs[:6]]}): information sets of some (N, k) change")
    return n + 1


def rule_info_set(repo: Repo, rep: Report) -> int:
    fi = repo.func(PE, "PolarCodeEncoder.__init__")
    body = statement_texts(fi)
    n = 0
    frozen = [s for s in stmts_of(fi.body) if isinstance(s, ast.Assign) and isinstance(s.targets[0], ast.Subscript) and unparse(s.targets[0].value) == "F"]
    if len(frozen) != 1:
        rep.undecided("INFO-SET", fi, "frozen-set store", f"{len(frozen)} stores into F")
    else:
        idx = frozen[0].targets[0].slice
        st, d, _ = classify(idx, ["rank_array[rank_array < self.code_length][:self.code_length - self.code_dimension]"])
        if st != OK:
            # recognised wrong forms: the most reliable end / not restricted to < N
            txt = unparse(idx)
            if "[-" in txt or "rank_array[:self.code_length" in txt.replace(" ", ""):
                st, d = VIOLATION, "the frozen set must be the FIRST N-k entries (least reliable) of the ranking restricted to positions < N"
            elif st == VIOLATION:
                pass
        rep.add("INFO-SET", fi, f"frozen positions: F[{unparse(idx)}] = 1", st, d or "the N-k least reliable positions among those < N")
    n += 1
    ok = "info_ind = torch.where(F == 0)[0]" in body and "self.info_indices[info_ind] = True" in body and "self.info_indices = torch.zeros(self.code_length, dtype=torch.bool)" in body and "F = torch.zeros(self.code_length)" in body
    rep.expect(ok, "INFO-SET", fi, "information mask = complement of the frozen set, as a length-N boolean mask", "exactly k information positions", "information mask construction changed")
    rd = [s for s in stmts_of(fi.body) if isinstance(s, ast.Assign) and unparse(s.targets[0]) == "self.rank"]
    rep.expect(len(rd) == 1 and unparse(rd[0].value) == "rank.Q.values" and any(b.startswith("rank = pd.read_csv(csv_path, sep=' ', index_col=0)") for b in body) and any("'rank_polar.csv'" in b for b in body), "INFO-SET", fi, "ranking = column Q of rank_polar.csv in file order", "the validated table is the one that is read", "the ranking is not read from rank_polar.csv column Q")
    # the ranking that is sliced is the table and nothing else: every (re)definition of `rank_array` derives from self.rank
    ra = [s for s in ast.walk(fi.node) if isinstance(s, (ast.Assign, ast.AugAssign)) and any(isinstance(t, ast.Name) and t.id == "rank_array" for t in (s.targets if isinstance(s, ast.Assign) else [s.target]))]
    listed = ("np.asarray(self.rank)", "np.array(self.rank)", "np.asarray(rank.Q.values)", "self.rank", "numpy.asarray(self.rank)", "torch.as_tensor(self.rank)")
    for s_ in ra:
        v = unparse(s_.value)
        n += 1
        if v in listed:
            rep.ok("INFO-SET", fi, f"ranking used: rank_array = {v}", "the 5G table as read", node=s_)
        elif not any(isinstance(x, ast.Attribute) and attr_chain(x) in ("self.rank", "rank.Q", "rank.Q.values") or (isinstance(x, ast.Name) and x.id == "rank_array") for x in ast.walk(s_.value)):
            rep.violation("INFO-SET", fi, f"ranking used: rank_array = {v[:80]}", "for some code lengths the positions are ranked by something other than the 5G reliability sequence (a re-definition that does not derive from the table): the information set is then not the one the property names - e.g. a BEC(0.5) Bhattacharyya ranking exchanges positions 6 and 9 for N = 16", node=s_)
        else:
            rep.undecided("INFO-SET", fi, f"ranking used: rank_array = {v[:80]}", "derivation of the ranking from the table not recognised", node=s_)
    rep.floor("definitions of the ranking array", len(ra), 1)
    # user masks validated
    checks = [unparse(s.test) for s in stmts_of(fi.body) if isinstance(s, ast.If) and any(isinstance(x, ast.Raise) for x in s.body)]
    rep.shape("len(info_indices) != self.code_length" in checks and "torch.sum(info_indices) != self.code_dimension" in checks, (not checks) or (any("len(info_indices)" in c_ or "numel()" in c_ or "shape[0]" in c_ for c_ in checks) and not any(("sum" in c_ or "count_nonzero" in c_) and "code_dimension" in c_ for c_ in checks)), "INFO-SET", fi, "user mask: length N and exactly k ones, else ValueError", "an inadmissible mask is rejected", "user-supplied information masks are not validated (length N, exactly k ones)")
    m = [s for s in stmts_of(fi.body) if isinstance(s, ast.Assign) and attr_chain(s.targets[0]) == "self.m"]
    rep.expect(len(m) == 1 and any(b.startswith("assert 2 ** self.m == code_length") for b in body), "INFO-SET", fi, "N must be a power of two (assert 2**m == N)", "admissible lengths only", "length validation changed")
    return n + 4


def encoder_evaluated(repo: Repo):
    """The per-block encoder (the function handed to apply_blockwise, class helpers followed) evaluated for N = 4 and 8
    with every message of k bits, both frozen values, both interleaving options and a scattered information mask:
    the codeword is u (message on the information positions in order, frozen value elsewhere) times F^(x)m, columns
    bit-reversed for the interleaved variant."""
    from ..constfold import BoolList, Unfoldable
    from ..frag import FragRaise, FragReturn, run_fragment

    ci = repo.cls(PE, "PolarCodeEncoder")
    fwd = repo.method(ci, "forward")
    cl = fwd.nested("encode_fn")
    if cl is None or len(cl.node.args.args) != 1:
        return None, "per-block encoder function not found"
    funcs = {nm: f.node for nm, f in ci.module.functions.items()}
    funcs.update({f"self.{nm}": m.node for nm, m in ci.methods.items() if nm not in ("forward", "__init__")})
    param = cl.node.args.args[0].arg

    def kron(m):
        G = [[1]]
        for _ in range(m):
            n_ = len(G)
            G = [[(G[i % n_][j % n_] if not (i < n_ and j >= n_) else 0) for j in range(2 * n_)] for i in range(2 * n_)]
        return G

    words = 0
    for N, info in ((4, [1, 3]), (8, [3, 5, 6, 7]), (8, [0, 2, 7])):
        m = N.bit_length() - 1
        k = len(info)
        G = kron(m)
        msgs = [[(w >> (k - 1 - t)) & 1 for t in range(k)] for w in range(2**k)]
        for fz in (True, False):
            for pi in (False, True):
                attrs = {"self.code_length": N, "self.m": m, "self.code_dimension": k, "self.mask_dict": None, "self.polar_i": pi, "self.frozen_zeros": fz, "self.dtype": "torch.float32", "self.device": "cpu", "self.info_indices": BoolList([i in info for i in range(N)])}
                try:
                    run_fragment(cl.body, {param: [[float(b) for b in r] for r in msgs]}, attrs, funcs=funcs, materialise=True, max_steps=4000000, attrs_live=True)
                    return None, "no value returned"
                except FragReturn as ret:
                    out = ret.value
                except (Unfoldable, FragRaise, TypeError, IndexError, ValueError) as exc:
                    return None, f"N = {N}: {exc}"
                if not (isinstance(out, list) and len(out) == len(msgs) and all(isinstance(r, list) and len(r) == N and all(isinstance(v, (int, float)) and not isinstance(v, bool) for v in r) for r in out)):
                    return None, f"N = {N}: the result is not a ({len(msgs)}, {N}) block"
                Gp = [[G[i][int(format(j, f"0{m}b")[::-1], 2)] for j in range(N)] for i in range(N)] if pi else G
                for msg, got in zip(msgs, out):
                    u = [0 if fz else 1] * N
                    for t, pos in enumerate(info):
                        u[pos] = msg[t]
                    want = [sum(u[i] * Gp[i][j] for i in range(N)) % 2 for j in range(N)]
                    if [float(v) for v in got] != [float(v) for v in want]:
                        return VIOLATION, f"N = {N}, information positions {info}, frozen value {0 if fz else 1}, {'interleaved' if pi else 'plain'}: message {msg} is encoded as {[int(v) if float(v) == int(v) else v for v in got]}; u = {u} times {'B_N ' if pi else ''}F^(x){m} is {want} - the decoders (which take frozen value, interleaving and information set from the encoder) do not invert this map"
                    words += 1
    return OK, f"{words} codewords (N = 4, 8; every message; frozen 0 / 1; plain / interleaved; scattered information sets) equal u F^(x)m with the message on the information positions in order and the configured frozen value elsewhere"


def rule_frozen_value(repo: Repo, rep: Report) -> int:
    n = 0
    fwd = repo.func(PE, "PolarCodeEncoder.forward")
    cl = fwd.nested("encode_fn")
    est_, ed_ = encoder_evaluated(repo)
    if est_ is not None:
        rep.add("FROZEN-VALUE", cl or fwd, "encoder block function evaluated: every message for N = 4, 8, both frozen values, plain and interleaved", est_, ed_, node=(cl or fwd).node)
        n += 2
        return n + _frozen_value_decoders(repo, rep)
    ifs = [s for s in stmts_of(cl.body) if isinstance(s, ast.If)] if cl else []
    ok = False
    if len(ifs) == 1 and unparse(ifs[0].test) == "self.frozen_zeros":
        a = [s for s in ifs[0].body if isinstance(s, ast.Assign)]
        b = [s for s in ifs[0].orelse if isinstance(s, ast.Assign)]
        if len(a) == 1 and len(b) == 1:
            fa, fb = call_name(a[0].value), call_name(b[0].value)
            if (fa, fb) == ("torch.zeros", "torch.ones"):
                ok = True
            elif (fa, fb) == ("torch.ones", "torch.zeros"):
                rep.violation("FROZEN-VALUE", cl, f"if self.frozen_zeros: {unparse(a[0])} else: {unparse(b[0])}", "the encoder fills frozen positions with ones when frozen_zeros is set (inverted selector)")
                ok = None
    if ok is not None:
        rep.expect(bool(ok), "FROZEN-VALUE", cl or fwd, "encoder: frozen fill = zeros if frozen_zeros else ones", "configured frozen value", "frozen fill not recognised")
    body = [unparse(s) for s in stmts_of(cl.body)] if cl else []
    rep.expect("codeword[:, self.info_indices] = x.view(bs, self.code_dimension)" in body and "codeword = self.polar_transform(codeword, return_arr=False)" in body, "FROZEN-VALUE", cl or fwd, "message bits stored at the information positions, then the polar transform", "u = (message on the information set, frozen value elsewhere); x = transform(u)", "placement / transform order changed")
    n += 2
    return n + _frozen_value_decoders(repo, rep)


def _frozen_value_decoders(repo: Repo, rep: Report) -> int:
    n = 0
    # SC leaf
    dr = repo.func(SC, "SuccessiveCancellationDecoder.decode_recursive")
    leaf_ifs = [s for s in stmts_of(dr.body) if isinstance(s, ast.If) and unparse(s.test) == "self.frozen_zeros"]
    ok = False
    if len(leaf_ifs) == 1:
        a = [s for s in leaf_ifs[0].body if isinstance(s, ast.Assign)]
        b = [s for s in leaf_ifs[0].orelse if isinstance(s, ast.Assign)]
        if len(a) == 1 and len(b) == 1:
            fa = (call_name(a[0].value.func.value) if isinstance(a[0].value, ast.Call) and isinstance(a[0].value.func, ast.Attribute) and isinstance(a[0].value.func.value, ast.Call) else call_name(a[0].value)) or ""
            fb = (call_name(b[0].value.func.value) if isinstance(b[0].value, ast.Call) and isinstance(b[0].value.func, ast.Attribute) and isinstance(b[0].value.func.value, ast.Call) else call_name(b[0].value)) or ""
            if fa.endswith("zeros_like") and fb.endswith("ones_like"):
                ok = True
            elif fa.endswith("ones_like") and fb.endswith("zeros_like"):
                rep.violation("FROZEN-VALUE", dr, f"SC leaf: if self.frozen_zeros: {unparse(a[0])} else: {unparse(b[0])}", "the SC decoder assumes frozen value 1 when the encoder used 0 (selector inverted relative to the encoder): partial sums are wrong from the first frozen bit on")
                ok = None
    if ok is not None:
        rep.expect(bool(ok), "FROZEN-VALUE", dr, "SC leaf: frozen bit = zeros if frozen_zeros else ones", "same selector as the encoder", "SC frozen leaf not recognised")
    init = repo.func(SC, "SuccessiveCancellationDecoder.__init__")
    vals = {attr_chain(s.targets[0]): unparse(s.value) for s in stmts_of(init.body) if isinstance(s, ast.Assign) and attr_chain(s.targets[0])}
    def _cfg_wrong(v, attr):
        return v is not None and v != f"encoder.{attr}" and (v in ("True", "False") or v.startswith("not ") or (v.startswith("encoder.") and v != f"encoder.{attr}"))

    rep.shape(vals.get("self.frozen_zeros") == "encoder.frozen_zeros" and vals.get("self.polar_i") == "encoder.polar_i" and vals.get("self.info_indices") == "encoder.info_indices", any(_cfg_wrong(vals.get(f"self.{a_}"), a_) for a_ in ("frozen_zeros", "polar_i", "info_indices")), "FROZEN-VALUE", init, f"SC takes frozen_zeros={vals.get('self.frozen_zeros')}, polar_i={vals.get('self.polar_i')}, info_indices={vals.get('self.info_indices')}", "decoder configuration = encoder configuration", "the SC decoder does not take its frozen value / interleaving / information set from the encoder")
    n += 2
    # polar BP init: +clip <=> bit 0
    ig = repo.func(PBP, "BeliefPropagationPolarDecoder._initialize_graph")
    ifs = [s for s in stmts_of(ig.body) if isinstance(s, ast.If) and unparse(s.test) == "self.frozen_zeros"]
    done = False
    if len(ifs) == 1:
        a = [s for s in ifs[0].body if isinstance(s, ast.Assign)]
        b = [s for s in ifs[0].orelse if isinstance(s, ast.Assign)]
        if len(a) == 1 and len(b) == 1:
            it = Polarity(ig, repo, positives={"self.clip"})
            va, vb = it.eval(a[0].value, {}), it.eval(b[0].value, {})
            sa, sb = va.sign, vb.sign
            same_tgt = unparse(a[0].targets[0]) == unparse(b[0].targets[0]) == "R[:, 0, self.frozen_ind]"
            if sa == "pos" and sb == "neg" and same_tgt:
                rep.ok("FROZEN-VALUE", ig, f"BP init: frozen_zeros -> {unparse(a[0].value)}, else {unparse(b[0].value)}", "frozen bit 0 <-> large positive LLR (positive = bit 0), frozen bit 1 <-> large negative")
                done = True
            elif sa == "neg" and sb == "pos" and same_tgt:
                rep.violation("FROZEN-VALUE", ig, f"BP init: frozen_zeros -> {unparse(a[0].value)}, else {unparse(b[0].value)}", "a frozen 0 is initialised with a negative LLR (bit 1): polarity inverted relative to the library convention and the encoder")
                done = True
    # the frozen positions are selected by a MASK: the attribute used in `R[:, 0, self.frozen_ind]` must be boolean-typed - a
    # 0/1 integer tensor in the same place is a list of positions (0 and 1), and the frozen prior lands on those two only
    binit = repo.func(PBP, "BeliefPropagationPolarDecoder.__init__")
    fdefs = [s_ for s_ in ast.walk(binit.node) if isinstance(s_, ast.Assign) and any(attr_chain(t_) == "self.frozen_ind" for t_ in s_.targets)]
    uses_mask = any(isinstance(x_, ast.Subscript) and any(isinstance(y_, ast.Attribute) and attr_chain(y_) == "self.frozen_ind" for y_ in ast.walk(x_.slice)) for x_ in ast.walk(ig.node))
    if uses_mask and len(fdefs) == 1:
        e_ = fdefs[0].value
        while isinstance(e_, ast.Call) and isinstance(e_.func, ast.Attribute) and e_.func.attr in ("to", "clone", "detach", "cpu", "cuda", "contiguous", "view", "reshape", "flatten") and not (e_.func.attr == "to" and any("torch.bool" in unparse(a_) for a_ in list(e_.args) + [k_.value for k_ in e_.keywords])):
            e_ = e_.func.value
        is_bool = (isinstance(e_, ast.Call) and isinstance(e_.func, ast.Attribute) and (e_.func.attr in ("bool", "logical_not", "logical_and", "logical_or", "eq", "ne", "lt", "gt", "le", "ge", "isin") or (e_.func.attr == "to" and "torch.bool" in unparse(e_)))) or isinstance(e_, ast.Compare) or (isinstance(e_, ast.UnaryOp) and isinstance(e_.op, ast.Invert)) or (isinstance(e_, ast.Call) and (call_name(e_) or "") in ("torch.logical_not", "torch.logical_and", "torch.logical_or", "torch.isin", "torch.eq", "torch.ne"))
        is_int = (isinstance(e_, ast.BinOp) and isinstance(e_.op, (ast.Sub, ast.Add, ast.Mult))) or (isinstance(e_, ast.Call) and isinstance(e_.func, ast.Attribute) and e_.func.attr in ("int", "long", "float", "double"))
        what_ = f"BP init: self.frozen_ind = {unparse(fdefs[0].value)[:70]} is used as a mask"
        if is_bool:
            rep.ok("FROZEN-VALUE", binit, what_, "boolean-typed: `R[:, 0, self.frozen_ind]` selects exactly the frozen positions", node=fdefs[0], nontrivial=False)
        elif is_int:
            rep.violation("FROZEN-VALUE", binit, "BP init: the frozen-position selector is a 0/1 number tensor, not a mask", f"`{unparse(fdefs[0])[:90]}` is integer / float typed, so `R[:, 0, self.frozen_ind] = ...` in _initialize_graph is an index store: the frozen prior is written to positions 0 and 1 (the values of the tensor) instead of to the frozen positions - an information bit at position 0 or 1 is overwritten, the other frozen bits get no prior", node=fdefs[0])
        else:
            rep.undecided("FROZEN-VALUE", binit, what_, "dtype of the selector not derived", node=fdefs[0])
    if not done:
        # the same choice as a conditional expression: R[:, 0, frozen] = A if self.frozen_zeros else B (or the negated test)
        for s_ in stmts_of(ig.body):
            if isinstance(s_, ast.Assign) and len(s_.targets) == 1 and unparse(s_.targets[0]) == "R[:, 0, self.frozen_ind]" and isinstance(s_.value, ast.IfExp) and unparse(s_.value.test) in ("self.frozen_zeros", "not self.frozen_zeros"):
                pos_arm, neg_arm = (s_.value.body, s_.value.orelse) if unparse(s_.value.test) == "self.frozen_zeros" else (s_.value.orelse, s_.value.body)
                it = Polarity(ig, repo, positives={"self.clip"})
                sa, sb = it.eval(pos_arm, {}).sign, it.eval(neg_arm, {}).sign
                if sa == "pos" and sb == "neg":
                    rep.ok("FROZEN-VALUE", ig, f"BP init: {unparse(s_)[:90]}", "frozen bit 0 <-> large positive LLR (positive = bit 0), frozen bit 1 <-> large negative")
                    done = True
                elif sa == "neg" and sb == "pos":
                    rep.violation("FROZEN-VALUE", ig, f"BP init: {unparse(s_)[:90]}", "a frozen 0 is initialised with a negative LLR (bit 1): polarity inverted relative to the library convention and the encoder", node=s_)
                    done = True
    if not done:
        rep.undecided("FROZEN-VALUE", ig, "BP frozen initialisation", "not recognised")
    vals = {attr_chain(s.targets[0]): unparse(s.value) for s in stmts_of(repo.func(PBP, "BeliefPropagationPolarDecoder.__init__").body) if isinstance(s, ast.Assign) and attr_chain(s.targets[0])}
    rep.shape(vals.get("self.frozen_zeros") == "encoder.frozen_zeros", vals.get("self.frozen_zeros") in ("True", "False", "not encoder.frozen_zeros"), "FROZEN-VALUE", repo.func(PBP, "BeliefPropagationPolarDecoder.__init__"), f"BP takes frozen_zeros = {vals.get('self.frozen_zeros')}", "encoder's configuration", "polar BP does not take the frozen value from the encoder")
    return n + 2


def checknode_numeric(repo: Repo, rep: Report, cn: FuncInfo) -> None:
    """An unlisted spelling of the f-function is evaluated (own arithmetic, helpers of fec/utils inlined) on sample LLR
    pairs for both regimes and two clipping levels and compared with the definitions
    2 atanh(tanh(a/2) tanh(b/2)) and sign(a) sign(b) min(|a|, |b|)."""
    import math

    from ..constfold import Unfoldable
    from ..frag import FragRaise, FragReturn, run_fragment

    funcs = {name: repo.func(FU, name).node for name in ("min_sum", "sum_product")}
    pts = [(0.5, 0.8), (-1.2, 2.0), (3.0, -0.7), (-2.0, -2.5), (0.3, 4.0), (1.0, 1.0), (6.0, -5.5)]
    defs = {"sum_product": lambda a, b: 2 * math.atanh(math.tanh(a / 2) * math.tanh(b / 2)), "min_sum": lambda a, b: (1 if a * b > 0 else -1) * min(abs(a), abs(b))}
    what = "checknode: f-function by regime, clipped to +-clip"
    for regime, fn in defs.items():
        for clip in (1000.0, 1.0):
            for a, b in pts:
                try:
                    run_fragment(cn.body, {"y": [a, b]}, {"self.regime": regime, "self.clip": clip}, funcs=funcs)
                    rep.undecided("SC-SHAPE", cn, what, f"no value returned for regime {regime}", node=cn.node)
                    return
                except FragReturn as r:
                    got = r.value
                except FragRaise:
                    rep.violation("SC-SHAPE", cn, what, f"the regime '{regime}' raises", node=cn.node)
                    return
                except (Unfoldable, TypeError, ValueError, OverflowError) as exc:
                    rep.undecided("SC-SHAPE", cn, what, f"not evaluable with literal arithmetic ({exc})", node=cn.node)
                    return
                want = max(-clip, min(clip, fn(a, b)))
                if not (isinstance(got, (int, float)) and abs(got - want) <= 1e-9 * max(1.0, abs(want))):
                    rep.violation("SC-SHAPE", cn, what, f"regime '{regime}', clip {clip}: f({a}, {b}) evaluates to {got!r}; the definition gives {want!r}", node=cn.node)
                    return
    rep.ok("SC-SHAPE", cn, what, f"unlisted spelling; agrees with both definitions on {len(pts)} LLR pairs x 2 clipping levels")


def _reindex_steps(fi: FuncInfo):
    """(`T = T[:, P]` statement, P expression, guards) for every column re-indexing of a tensor by an index vector."""
    set_parents(fi.node)
    out = []
    single = {}
    for st in stmts_of(fi.body):
        if isinstance(st, ast.Assign) and len(st.targets) == 1 and isinstance(st.targets[0], ast.Name):
            single.setdefault(st.targets[0].id, []).append(st.value)
    for st in stmts_of(fi.body):
        if not (isinstance(st, ast.Assign) and len(st.targets) == 1 and isinstance(st.targets[0], ast.Name) and isinstance(st.value, ast.Subscript)):
            continue
        sl = st.value.slice
        if not (isinstance(sl, ast.Tuple) and len(sl.elts) == 2 and isinstance(sl.elts[0], ast.Slice) and sl.elts[0].lower is None and sl.elts[0].upper is None):
            continue
        if not (isinstance(st.value.value, ast.Name) and st.value.value.id == st.targets[0].id):
            continue
        pe = sl.elts[1]
        if isinstance(pe, ast.Name) and len(single.get(pe.id, [])) == 1:
            pe = single[pe.id][0]
        guards = [unparse(a.test) if any(st is x for x in stmts_of(a.body)) else f"not ({unparse(a.test)})" for a in ancestors(st) if isinstance(a, ast.If)]
        out.append((st, pe, guards))
    return out


def partial_sum_order(rep: Report, f2: FuncInfo, dr: FuncInfo) -> None:
    """With the interleaved transform (polar_i) a block's codeword is the perfect shuffle of its two re-encoded halves:
    position 2j carries (x1 xor x2)[j], position 2j+1 carries x2[j]; without it the block is the plain concatenation.
    The re-indexing steps applied to cat([x1^x2, x2]) in f2 and decode_recursive are evaluated for N = 2..32."""
    from ..constfold import Unfoldable
    from ..ndlist import eval_shuffle

    what = "order of the re-encoded partial sums"
    # the block's re-encoded word in decode_recursive: the local that receives the recombination helper's result, whatever it is called
    xnames = {s_.targets[0].id for s_ in ast.walk(dr.node) if isinstance(s_, ast.Assign) and len(s_.targets) == 1 and isinstance(s_.targets[0], ast.Name) and isinstance(s_.value, ast.Call) and attr_chain(s_.value.func) == f"self.{f2.name}"} or {"x"}
    steps = [(f2, *t) for t in _reindex_steps(f2)] + [(dr, *t) for t in _reindex_steps(dr) if t[0].targets[0].id in xnames]
    for fi, st, pe, guards in steps:
        if guards != ["self.polar_i"]:
            rep.undecided("SC-SHAPE", fi, f"{what}: {unparse(st)}", f"re-indexing under guards {guards} (code shape not recognised)", node=st)
            return
    bad = None
    for N in (2, 4, 8, 16, 32):
        h = N // 2
        cur = list(range(N))
        try:
            for fi, st, pe, guards in steps:
                names = {"N": N, "x1": [[0] * h], "x2": [[0] * h], "x": [[0] * N], "n": N}
                for s_ in stmts_of(fi.body):
                    if isinstance(s_, ast.Assign) and len(s_.targets) == 1 and isinstance(s_.targets[0], ast.Name) and isinstance(s_.value, ast.Call) and (call_name(s_.value) or "").endswith("cat"):
                        names[s_.targets[0].id] = [[0] * N]
                perm = eval_shuffle(pe, names, {}, {})
                if len(perm.shape) != 1 or sorted(perm.data) != list(range(N)):
                    raise Unfoldable(f"index vector {perm.data} is not a permutation of 0..{N - 1}")
                cur = [cur[i] for i in perm.data]
        except Unfoldable as exc:
            rep.undecided("SC-SHAPE", dr, what, f"re-indexing not evaluable for N = {N}: {exc}", node=steps[0][1] if steps else dr.node)
            return
        want = [v for j in range(h) for v in (j, h + j)]
        if cur != want and bad is None:
            bad = (N, cur, want)
    if not steps:
        rep.violation("SC-SHAPE", dr, what, "with polar_i the partial sums are never re-interleaved: the parent's g-function pairs x1 with the wrong LLRs", node=dr.node)
    elif bad:
        N, cur, want = bad
        rep.violation("SC-SHAPE", steps[-1][0], f"{what}: {unparse(steps[-1][1])}", f"for a block of N = {N} with polar_i the positions of cat([x1^x2, x2]) come out as {cur} instead of the perfect shuffle {want}: the parent's g-function applies the sign flips to the wrong LLRs (messages are not recovered for N >= {2 * N})", node=steps[-1][1])
    else:
        rep.ok("SC-SHAPE", dr, f"{what}: {'; '.join(unparse(s_[1]) for s_ in steps)}", "perfect shuffle of the two halves under polar_i (evaluated for N = 2..32), plain concatenation otherwise", node=steps[-1][1])


def rule_sc_shape(repo: Repo, rep: Report) -> int:
    n = 0
    ci = repo.cls(SC, "SuccessiveCancellationDecoder")
    bn = repo.method(ci, "bitnode")
    r = returns_of(bn.node)
    e = Inliner(bn).inline(r[-1].value) if r else None
    if e is not None:
        st, d, _ = classify(e, ["y2 + (1 - 2 * x) * y1", "y2 + y1 * (1 - 2 * x)", "(1 - 2 * x) * y1 + y2"])
        if st != OK and isinstance(e, ast.Call) and isinstance(e.func, ast.Attribute) and e.func.attr in ("clip", "clamp"):
            st, d = VIOLATION, "the g-function output is saturated: textbook SC adds the partial-sum-signed LLRs without clipping; saturation changes decisions whenever |y2 +- y1| exceeds the bound"
        rep.add("SC-SHAPE", bn, f"bitnode: {unparse(e)}", st, d or "g(y1, y2, x) = y2 + (1 - 2x) y1")
    n += 1
    cn = repo.method(ci, "checknode")
    rets = {unparse(s.test): [unparse(r.value) for r in ast.walk(s) if isinstance(r, ast.Return)] for s in stmts_of(cn.body) if isinstance(s, ast.If)}
    ok = rets.get("self.regime == 'sum_product'") == ["sum_product(y1, y2).clip(-self.clip, self.clip)"] and rets.get("self.regime == 'min_sum'") == ["min_sum(y1, y2).clip(-self.clip, self.clip)"]
    swapped = rets.get("self.regime == 'sum_product'") == ["min_sum(y1, y2).clip(-self.clip, self.clip)"]
    if swapped:
        rep.violation("SC-SHAPE", cn, f"checknode regimes: {rets}", "the sum_product regime calls min_sum (regimes exchanged)")
    elif ok:
        rep.ok("SC-SHAPE", cn, "checknode: sum_product / min_sum by regime, clipped to +-clip", "f-function")
    else:
        checknode_numeric(repo, rep, cn)
    n += 1
    f2 = repo.method(ci, "f2")
    r = returns_of(f2.node)
    from .c12 import _tt_eval

    e = r[-1].value if r else None
    cats = [c for c in ast.walk(f2.node) if isinstance(c, ast.Call) and match(c, "torch.cat([_A, _B], dim=1)") is not None]
    if len(cats) == 1:
        e = cats[0]
    m = match(e, "torch.cat([_A, _B], dim=1)") if e is not None else None
    if m is None:
        rep.undecided("SC-SHAPE", f2, f"partial sums: {unparse(e) if e is not None else '?'}", "not a concatenation of two halves")
    else:
        table = [_tt_eval(m["_A"], {"x1": a, "x2": b}) for a in (0, 1) for b in (0, 1)]
        second = unparse(m["_B"])
        if any(t is None for t in table):
            rep.undecided("SC-SHAPE", f2, f"partial sums: {unparse(e)}", "first half not evaluable over {0,1}^2")
        elif [int(t) for t in table] == [0, 1, 1, 0] and second == "x2":
            rep.ok("SC-SHAPE", f2, f"partial sums: {unparse(e)}", "(x1 xor x2, x2): re-encoding of the two decoded halves")
        else:
            rep.violation("SC-SHAPE", f2, f"partial sums: {unparse(e)}", f"the combined partial sums must be (x1 xor x2, x2); the first half has truth table {table}, the second half is `{second}`")
    n += 1
    dr = repo.method(ci, "decode_recursive")
    from ..astutil import normalised_statements

    norm = normalised_statements(dr.node)
    body = [unparse(s) for s in stmts_of(dr.body)] + [unparse(s) for s in norm]
    need = {
        "y1 = self.checknode((y_even, y_odd))": "upper branch LLR from both halves",
        "u1, x1, _ = self.decode_recursive(y1, info_indices[:N // 2])": "first half of the mask with the f-LLRs",
        "y2 = self.bitnode((y_even, y_odd, x1))": "lower branch uses the partial sums of the upper branch",
        "u2, x2, _ = self.decode_recursive(y2, info_indices[N // 2:])": "second half of the mask with the g-LLRs",
        "u = torch.cat([u1, u2], dim=1)": "decisions in natural order",
        "x = self.f2((x1.clone(), x2.clone()))": "re-encoded partial sums",
        "y_even = y[:, even_pos]": "LLR half (first / even positions)",
        "y_odd = y[:, odd_pos]": "LLR half (second / odd positions)",
    }
    for t, why in need.items():
        rep.expect(t in body, "SC-SHAPE", dr, f"recursion step `{t}`", why, "SC recursion step changed")
        n += 1
    halves = {unparse(s.test): [unparse(x) for x in s.body] + ["|"] + [unparse(x) for x in s.orelse] for s in norm if isinstance(s, ast.If) and unparse(s.test) == "self.polar_i" and s.orelse}
    want = ["even_pos = torch.arange(0, N, 2).reshape(-1).to(self.device)", "odd_pos = torch.arange(1, N, 2).reshape(-1).to(self.device)", "|", "even_pos = torch.arange(0, N // 2).reshape(-1).to(self.device)", "odd_pos = torch.arange(N // 2, N).reshape(-1).to(self.device)"]
    rep.expect(halves.get("self.polar_i") == want, "SC-SHAPE", dr, "split: first/second half (natural order) or even/odd (interleaved), by the encoder's polar_i flag", "same pairing as the encoder's butterfly", "LLR split changed")
    partial_sum_order(rep, f2, dr)
    n += 2
    # helpers
    for fname, forms in (("min_sum", ["torch.sign(x) * torch.sign(y) * torch.min(torch.abs(x), torch.abs(y))"]), ("sum_product", ["2 * torch.arctanh(torch.tanh(x / 2) * torch.tanh(y / 2))", "2 * torch.atanh(torch.tanh(x / 2) * torch.tanh(y / 2))"])):
        h = repo.func(FU, fname)
        r = returns_of(h.node)
        st, d, _ = classify(r[-1].value, forms) if r else (UNDECIDED, "", None)
        rep.add("SC-SHAPE", h, f"{fname}: {unparse(r[-1].value) if r else '?'}", st, d)
        n += 1
    # encoder butterfly: XOR of the paired positions
    pt = repo.func(PE, "PolarCodeEncoder.polar_transform")
    body = statement_texts(pt)
    tab_ = polar_transform_tabulated(repo)
    if tab_[0] == OK:
        # the stage-wise shapes are spellings: the composite map is tabulated (KERNEL) for both variants
        rep.ok("SC-SHAPE", pt, "butterfly and interleaver stages of polar_transform", "their composition is tabulated against u F^(x)m / its bit-reversed form for N = 2 .. 32 (rule KERNEL)", nontrivial=False)
        n += 2
    else:
        rep.expect("x[:, self.mask_dict[i]] = torch.bitwise_xor(x[:, self.mask_dict[i]], x[:, self.mask_dict[i] + add_k])" in body and "add_k = N // 2 ** (i_back + 1)" in body and "i_back = self.m - i - 1" in body, "SC-SHAPE", pt, "butterfly: x[mask_i] ^= x[mask_i + N / 2^(i_back+1)] for the m stages", "XOR network of the transform", "butterfly step changed")
        n += 1
        # interleaved variant: after stage i every block of 2^(i+1) positions is perfectly shuffled (first half to the even,
        # second half to the odd places) - the inverse of the decoder's even/odd split.  The index expression is evaluated
        # with the checker's own arithmetic for N = 8, 16.
        from ..constfold import Unfoldable
        from ..ndlist import ND, eval_shuffle

        set_parents(pt.node)
        loop = next((l for l in pt.body if isinstance(l, ast.For) and unparse(l.iter) == "range(self.m)"), None)
        shuf = [s_ for s_ in ast.walk(loop) if isinstance(s_, ast.Assign) and isinstance(s_.targets[0], ast.Name) and s_.targets[0].id == "x" and any(isinstance(a_, ast.If) and unparse(a_.test) == "self.polar_i" for a_ in ancestors(s_))] if loop is not None else []
        if len(shuf) != 1:
            rep.undecided("SC-SHAPE", pt, "interleaver step under `if self.polar_i`", f"{len(shuf)} assignments to x found")
        else:
            st_ = shuf[0]
            loc = {a_.targets[0].id: a_.value for a_ in loop.body if isinstance(a_, ast.Assign) and isinstance(a_.targets[0], ast.Name)}
            bad = None
            try:
                for m_ in (3, 4):
                    N_ = 2**m_
                    for i_ in range(m_):
                        names = {"N": N_, "i": i_, "bs": 1}
                        attrs = {"self.m": m_, "self.code_length": N_}
                        from ..constfold import Folder

                        for nm_ in ("i_back", "add_k"):
                            if nm_ in loc:
                                names[nm_] = Folder(names, attrs).fold(loc[nm_])
                        v_ = st_.value
                        mm = match(v_, "x[:, _P]")
                        if mm is not None:
                            pexpr = loc.get(mm["_P"].id, mm["_P"]) if isinstance(mm["_P"], ast.Name) else mm["_P"]
                            perm = eval_shuffle(pexpr, names, attrs, {}).reshape([-1]).data
                            out = [perm[p_] for p_ in range(N_)]  # out[p] = in[perm[p]]
                        else:
                            out = eval_shuffle(v_, names, attrs, {"x": ND([1, N_], list(range(N_)))}).reshape([-1]).data
                        B = 2 ** (i_ + 1)
                        want = [b_ * B + h_ * (B // 2) + j_ for b_ in range(N_ // B) for j_ in range(B // 2) for h_ in (0, 1)]
                        if out != want:
                            bad = (N_, i_, out, want)
                            break
                    if bad:
                        break
            except (Unfoldable, KeyError, IndexError, ValueError) as exc:
                rep.undecided("SC-SHAPE", pt, f"interleaver step: {unparse(st_)[:90]}", f"index shuffle not evaluable ({exc})", node=st_)
            else:
                if bad:
                    rep.violation("SC-SHAPE", pt, f"interleaver step: {unparse(st_)[:90]}", f"for N = {bad[0]}, stage {bad[1]} the positions come out as {bad[2]} instead of the perfect shuffle {bad[3]} of each block: the interleaved transform is no longer the one the decoder's even/odd split inverts (messages are not recovered for N >= 8 with polar_i=True)", node=st_)
                else:
                    rep.ok("SC-SHAPE", pt, f"interleaver step: {unparse(st_)[:90]}", "perfect shuffle of every block of 2^(i+1) positions at stage i (evaluated for N = 8, 16)", node=st_)
        n += 1
    # successive cancellation decides position by position: decode_recursive has no exit besides the length-1 leaf and
    # the recombination; a block may not be declared frozen from ONE entry of its mask
    rets = [r for r in ast.walk(dr.node) if isinstance(r, ast.Return)]
    set_parents(dr.node)
    extra = []
    for r in rets:
        guards = [a_ for a_ in ancestors(r) if isinstance(a_, ast.If)]
        if not guards:
            continue
        if any(unparse(g.test) in ("N == 1", "len(info_indices) == 1") for g in guards):
            continue
        extra.append((r, guards[0]))
    for r, g in extra:
        single = any(isinstance(x_, ast.Subscript) and isinstance(x_.value, ast.Name) and x_.value.id == "info_indices" and not isinstance(x_.slice, ast.Slice) for x_ in ast.walk(g.test))
        whole = any(isinstance(c_, ast.Call) and isinstance(c_.func, ast.Attribute) and c_.func.attr in ("any", "all", "sum") for c_ in ast.walk(g.test))
        if single and not whole:
            rep.violation("SC-SHAPE", dr, f"shortcut under `{unparse(g.test)}`", "a whole sub-block is decided from a single entry of its information mask: for masks that put information bits into such a block (user-supplied masks) those bits are replaced by the frozen value", node=r)
        else:
            rep.undecided("SC-SHAPE", dr, f"additional exit under `{unparse(g.test)}`", "shortcut not recognised", node=r)
    if not extra:
        rep.ok("SC-SHAPE", dr, "decode_recursive exits: the length-1 leaf and the recombination only", "every position is decided by its own leaf", nontrivial=False)
    return n + 1


def rule_bp_decision(repo: Repo, rep: Report) -> int:
    """The polar BP decoder's message estimate is a hard decision on beliefs that can be arbitrarily small (a chain of
    check nodes multiplies tanh's): it must be taken from the sign.  `llr_to_bits` is round(sigmoid(-x)); for |x| below the
    float resolution sigmoid gives exactly 0.5, which rounds (half to even) to 0 - a correctly negative belief then
    decodes as 0.  Accepted: llr_to_bits / sign_to_bin of torch.sign(.), or a comparison with 0."""
    fi = repo.func(PBP, "BeliefPropagationPolarDecoder.decode_iterative")
    conv = repo.func(FU, "llr_to_bits")
    saturating = any(isinstance(c, ast.Call) and (call_name(c) or "").split(".")[-1] in ("sigmoid", "tanh", "round", "exp") for c in ast.walk(conv.node))
    n = 0
    for r in returns_of(fi.node):
        msg = r.value.elts[0] if isinstance(r.value, ast.Tuple) and r.value.elts else r.value
        n += 1
        what = f"message decision: {unparse(msg)}"
        via_sign = any(isinstance(c, ast.Call) and call_name(c) in ("torch.sign", "torch.sgn") for c in ast.walk(msg)) or any(isinstance(c, ast.Compare) for c in ast.walk(msg))
        if via_sign:
            rep.ok("BP-DECISION", fi, what, "decided from the sign of the belief (exact for every magnitude)", node=r)
        elif isinstance(msg, ast.Call) and call_name(msg) == "llr_to_bits" and saturating:
            rep.violation("BP-DECISION", fi, what, "the belief goes through round(sigmoid(-x)) unsigned: for |x| below ~1.2e-7 (reached behind a few stacked check nodes with inputs of magnitude 0.5) sigmoid is exactly 0.5 and rounds to 0, so a correctly negative belief decodes as bit 0 - noise-free LLRs of small magnitude no longer return the message", node=r)
        else:
            rep.undecided("BP-DECISION", fi, what, "decision form not recognised", node=r)
    rep.floor("polar BP message decisions", n, 1)
    return n


#: the message equations of BP on the polar butterfly (u = upper node mask[i], l = lower node mask[i] + add_k; layer 0 = i,
#: layer 1 = i + 1): target -> (check-node operands, summand added outside the check node)
BP_POLAR_EQ = {
    ("R", 1, "u"): (frozenset({frozenset({("R", 0, "u")}), frozenset({("L", 1, "l"), ("R", 0, "l")})}), None),
    ("R", 1, "l"): (frozenset({frozenset({("R", 0, "u")}), frozenset({("L", 1, "u")})}), ("R", 0, "l")),
    ("L", 0, "u"): (frozenset({frozenset({("L", 1, "u")}), frozenset({("L", 1, "l"), ("R", 0, "l")})}), None),
    ("L", 0, "l"): (frozenset({frozenset({("R", 0, "u")}), frozenset({("L", 1, "u")})}), ("L", 1, "l")),
}


def rule_bp_polar_schedule(repo: Repo, rep: Report) -> int:
    """update_right / update_left of the polar BP decoder: every store into R / L is parsed into (array, layer, node) terms
    and compared with the four message equations of the butterfly; each message is extrinsic (it never reads the message
    of the opposite direction on its own edge)."""
    ci = repo.cls(PBP, "BeliefPropagationPolarDecoder")
    n = 0

    def ref(e: ast.AST, iv: str):
        if not (isinstance(e, ast.Subscript) and isinstance(e.value, ast.Name) and e.value.id in ("R", "L") and isinstance(e.slice, ast.Tuple) and len(e.slice.elts) == 3):
            return None
        lay, pos = unparse(e.slice.elts[1]).replace(" ", ""), unparse(e.slice.elts[2]).replace(" ", "")
        layer = 0 if lay == iv else (1 if lay in (f"{iv}+1", f"1+{iv}") else None)
        node = "u" if pos == f"mask[{iv}]" else ("l" if pos in (f"mask[{iv}]+add_k", f"add_k+mask[{iv}]") else None)
        if layer is None or node is None:
            return None
        return (e.value.id, layer, node)

    def terms(e: ast.AST, iv: str):
        """a sum of message references as a frozenset, None if anything else occurs"""
        if isinstance(e, ast.BinOp) and isinstance(e.op, ast.Add):
            a, b = terms(e.left, iv), terms(e.right, iv)
            return None if a is None or b is None else a | b
        r_ = ref(e, iv)
        return None if r_ is None else frozenset({r_})

    for mname in ("update_right", "update_left"):
        fi = repo.method(ci, mname)
        loops = [l_ for l_ in ast.walk(fi.node) if isinstance(l_, ast.For) and isinstance(l_.target, ast.Name)]
        stores = [(l_.target.id, s_) for l_ in loops for s_ in ast.walk(l_) if isinstance(s_, ast.Assign) and len(s_.targets) == 1 and isinstance(s_.targets[0], ast.Subscript) and isinstance(s_.targets[0].value, ast.Name) and s_.targets[0].value.id in ("R", "L")]
        rep.floor(f"{mname}: message stores", len(stores), 2)
        import copy as _copy

        # temporaries defined once inside the loops (`upper = mask[i]`, `r_up = R[:, i, upper]`) are written out
        ldefs: Dict[str, ast.AST] = {}
        for l_ in loops:
            for s_ in ast.walk(l_):
                if isinstance(s_, ast.Assign) and len(s_.targets) == 1 and isinstance(s_.targets[0], ast.Name) and s_.targets[0].id not in ("add_k", "mask", "i_back", "R", "L"):
                    ldefs[s_.targets[0].id] = None if s_.targets[0].id in ldefs else s_.value

        class _Sub(ast.NodeTransformer):
            def visit_Name(self, nd):
                if isinstance(nd.ctx, ast.Load) and ldefs.get(nd.id) is not None:
                    return self.visit(_copy.deepcopy(ldefs[nd.id]))
                return nd

        for iv, st in stores:
            n += 1
            tgt_e = _Sub().visit(_copy.deepcopy(st.targets[0]))
            v = _Sub().visit(_copy.deepcopy(st.value))
            tgt = ref(tgt_e, iv)
            extra = None
            call = v
            if isinstance(v, ast.BinOp) and isinstance(v.op, ast.Add):
                cands = [(v.left, v.right), (v.right, v.left)]
                call, extra_e = next(((c_, x_) for c_, x_ in cands if isinstance(c_, ast.Call)), (None, None))
                extra = ref(extra_e, iv) if extra_e is not None else None
                if call is None or extra is None:
                    tgt = None
            if tgt is None or not (isinstance(call, ast.Call) and attr_chain(call.func) == "self.checknode" and len(call.args) == 2) or tgt not in BP_POLAR_EQ:
                rep.undecided("BP-SCHEDULE", fi, st, "message equation not of the form X[:, layer, node] = checknode(a, b) [+ c] over R / L references (code shape not recognised)", node=st)
                continue
            ops = [terms(a_, iv) for a_ in call.args]
            if any(o_ is None for o_ in ops):
                rep.undecided("BP-SCHEDULE", fi, st, "check-node operand is not a sum of R / L message references", node=st)
                continue
            want_ops, want_extra = BP_POLAR_EQ[tgt]
            got = (frozenset(ops), extra)

            def show(t_):
                return f"{t_[0]}[{'i+1' if t_[1] else 'i'}, {'upper' if t_[2] == 'u' else 'lower'}]"

            if got == (want_ops, want_extra):
                rep.ok("BP-SCHEDULE", fi, st, f"{show(tgt)} follows the butterfly equation (extrinsic: it does not read the opposite message of its own edge)", node=st)
            else:
                wtxt = " , ".join(" + ".join(sorted(show(x_) for x_ in o_)) for o_ in sorted(want_ops, key=lambda z: sorted(z))) + (f" ; plus {show(want_extra)}" if want_extra else "")
                gtxt = " , ".join(" + ".join(sorted(show(x_) for x_ in o_)) for o_ in sorted(got[0], key=lambda z: sorted(z))) + (f" ; plus {show(extra)}" if extra else "")
                rep.violation("BP-SCHEDULE", fi, st, f"{show(tgt)} is computed from checknode({gtxt}); the message equation of the polar butterfly is checknode({wtxt}): a message from the wrong layer / node (or the message of the opposite direction on the same edge) is fed back, so beliefs are double counted and noise-free words are decoded wrongly in the min-sum regime", node=st)
    return n


def rule_bp_polar_answers(repo: Repo, rep: Report, rule: str = "BP-ANSWERS") -> int:
    """decode_iterative re-initialises the factor graph for every schedule permutation while the set of words that still
    fail the stop criterion is carried across permutations.  The answers of words that already passed must therefore be
    kept outside the graph: every store into a returned answer inside the loops goes through the pending-set index."""
    ci = repo.cls(PBP, "BeliefPropagationPolarDecoder")
    fi = repo.method(ci, "decode_iterative")
    rets = [r for r in walk_no_nested(fi.node) if isinstance(r, ast.Return) and r.value is not None]
    answers = sorted({nm.id for r in rets for nm in ast.walk(r.value) if isinstance(nm, ast.Name) and nm.id not in ("torch", "llr_to_bits", "self")})
    loops = [l_ for l_ in walk_no_nested(fi.node) if isinstance(l_, (ast.For, ast.While))]
    in_loop = {id(s_) for l_ in loops for s_ in ast.walk(l_)}
    pending = {t.id for a in walk_no_nested(fi.node) if isinstance(a, ast.Assign) and id(a) in in_loop and isinstance(a.value, ast.Call) and (call_name(a.value) or "").split(".")[-1] == "stop_criterion" for t in a.targets if isinstance(t, ast.Name)}
    reinit = [a for a in walk_no_nested(fi.node) if isinstance(a, ast.Assign) and id(a) in in_loop and isinstance(a.value, ast.Call) and attr_chain(a.value.func) == "self._initialize_graph"]
    if not answers or not rets:
        rep.undecided(rule, fi, "returned answers", "no returned names found", node=fi.node)
        return 1
    if not pending or not reinit:
        rep.ok(rule, fi, "answers of the polar BP decoder", "no pending set carried across a re-initialised graph: nothing to keep" if not reinit else "no early-stop set", node=fi.node, nontrivial=False)
        return 1
    n = 0
    graph = {t_.id for a in reinit for t in a.targets for t_ in ast.walk(t) if isinstance(t_, ast.Name)}
    for nm in answers:
        writes = [a for a in walk_no_nested(fi.node) if isinstance(a, (ast.Assign, ast.AugAssign)) and id(a) in in_loop and any((isinstance(t_, ast.Name) and t_.id == nm) or (isinstance(t_, ast.Subscript) and isinstance(t_.value, ast.Name) and t_.value.id == nm) for t in (a.targets if isinstance(a, ast.Assign) else [a.target]) for t_ in ((t.elts if isinstance(t, ast.Tuple) else [t])))]
        if not writes:
            continue
        n += 1
        bad = und = None
        for a in writes:
            for t in (a.targets if isinstance(a, ast.Assign) else [a.target]):
                for t_ in (t.elts if isinstance(t, ast.Tuple) else [t]):
                    if isinstance(t_, ast.Subscript) and isinstance(t_.value, ast.Name) and t_.value.id == nm:
                        idx = t_.slice.elts[0] if isinstance(t_.slice, ast.Tuple) and t_.slice.elts else t_.slice
                        if not (isinstance(idx, ast.Name) and idx.id in pending):
                            und = und or (a, f"store `{unparse(t_)}` is not indexed by the pending set {sorted(pending)}")
                    elif isinstance(t_, ast.Name) and t_.id == nm:
                        reads = {x.id for x in ast.walk(a.value) if isinstance(x, ast.Name)}
                        # one level of locals
                        for b in walk_no_nested(fi.node):
                            if isinstance(b, ast.Assign) and id(b) in in_loop and any(isinstance(bt, ast.Name) and bt.id in reads for bt in b.targets):
                                reads |= {x.id for x in ast.walk(b.value) if isinstance(x, ast.Name)}
                        if reads & graph and nm not in reads:
                            bad = bad or (a, f"`{unparse(a)[:80]}` rebinds the whole answer from the graph state ({', '.join(sorted(reads & graph))}), which `{unparse(reinit[0])[:60]}` re-initialises for every permutation: the rows of words that already passed the stop criterion are not updated any more, so from the second permutation on their answer is read from a freshly initialised graph (information LLRs 0) - with perm = 'cycle' and early_stop the decoder returns all-zero messages for them")
                        else:
                            und = und or (a, f"whole-tensor rebinding `{unparse(a)[:70]}`")
        if bad:
            rep.violation(rule, fi, f"answer `{nm}` kept for words that passed the stop criterion", bad[1], node=bad[0])
        elif und:
            rep.undecided(rule, fi, f"answer `{nm}` kept for words that passed the stop criterion", und[1], node=und[0])
        else:
            rep.ok(rule, fi, f"answer `{nm}` kept for words that passed the stop criterion", f"every store into `{nm}` inside the loops is indexed by the pending set ({', '.join(sorted(pending))}): rows of finished words are never overwritten after the graph is re-initialised", node=writes[0])
    if n == 0:
        rep.undecided(rule, fi, "returned answers", f"no store into {answers} inside the loops", node=fi.node)
        n = 1
    return n


_PT_CACHE = {}


def polar_transform_tabulated(repo: Repo):
    # kept on the repository object itself: an id() or a path may be reused by another tree within one process
    if not hasattr(repo, "_kv_pt_cache"):
        repo._kv_pt_cache = _polar_transform_tabulated(repo)
    return repo._kv_pt_cache


def _polar_transform_tabulated(repo: Repo):
    """PolarCodeEncoder.polar_transform (with the module's index helper inlined) evaluated on every unit vector and on a few
    sums of unit vectors for N = 2 .. 32, both variants: the rows must be those of the Kronecker power F^(x)m of
    F = [[1, 0], [1, 1]], with the columns in bit-reversed order for the interleaved variant (G_N = B_N F^(x)m)."""
    from ..constfold import Unfoldable
    from ..frag import FragRaise, FragReturn, run_fragment

    ci = repo.cls(PE, "PolarCodeEncoder")
    fi = repo.method(ci, "polar_transform")
    funcs = {nm: f.node for nm, f in ci.module.functions.items()}

    def kron(m):
        G = [[1]]
        for _ in range(m):
            n_ = len(G)
            G = [[(G[i % n_][j % n_] if not (i < n_ and j >= n_) else 0) for j in range(2 * n_)] for i in range(2 * n_)]
        return G

    def bitrev(i, m):
        return int(format(i, f"0{m}b")[::-1], 2) if m else 0

    count = 0
    for m in (1, 2, 3, 4, 5):
        N = 2**m
        rows = [[1 if i == j else 0 for j in range(N)] for i in range(N)]
        # sums of unit vectors (linearity is part of the claim)
        extra = [[1] * N, [1 if (j % 3 == 0) else 0 for j in range(N)], [1 if j >= N // 2 else 0 for j in range(N)]]
        U = rows + extra
        G = kron(m)
        for pi in (False, True):
            attrs = {"self.code_length": N, "self.m": m, "self.mask_dict": None, "self.polar_i": pi, "self.dtype": "torch.float32", "self.device": "cpu"}
            try:
                run_fragment(fi.body, {"u": [list(r) for r in U], "return_arr": False}, attrs, funcs=funcs, materialise=True, max_steps=6000000, attrs_live=True)
                return None, "no value returned"
            except FragReturn as ret:
                out = ret.value
            except (Unfoldable, FragRaise, TypeError, IndexError, ValueError) as exc:
                return None, f"N = {N}: {exc}"
            if not (isinstance(out, list) and len(out) == len(U) and all(isinstance(r, list) and len(r) == N for r in out)):
                return None, f"N = {N}: the result is not a ({len(U)}, {N}) matrix"
            Gp = [[G[i][bitrev(j, m)] for j in range(N)] for i in range(N)] if pi else G
            for t, u in enumerate(U):
                want = [sum(u[i] * Gp[i][j] for i in range(N)) % 2 for j in range(N)]
                got = [int(x) if float(x) == int(x) else x for x in out[t]]
                if got != want:
                    what = f"unit vector e_{t}" if t < N else f"input {u}"
                    return VIOLATION, f"N = {N}, {'interleaved' if pi else 'plain'} variant: the {what} is transformed to {got}; row-vector times {'B_N ' if pi else ''}F^(x){m} gives {want}: the encoder does not produce the polar code the decoders (and the published generator matrix) assume"
                count += 1
    return OK, f"u -> u F^(x)m (columns bit-reversed for the interleaved variant) on all unit vectors and three sums, N = 2 .. 32 ({count} words)"


SHAPE_ONLY = ("to", "reshape", "view", "float", "double", "clone", "contiguous", "detach", "flatten", "unsqueeze", "squeeze", "cpu", "cuda", "type", "type_as", "view_as", "requires_grad_")


def rule_llr_passthrough(repo: Repo, rep: Report) -> int:
    """The polar decoders hand the received LLRs to the recursion / message passing as they are: between the entry of
    forward and the decoding call the LLR variable is only reshaped / moved.  The sum-product check node
    2 atanh(tanh(a/2) tanh(b/2)) is not homogeneous, so a rescaling of the word (by its peak, its mean, a constant)
    changes the decisions of the textbook rule; clamping or squashing loses reliability information."""
    n = 0
    for file, cname in ((SC, "SuccessiveCancellationDecoder"), (PBP, "BeliefPropagationPolarDecoder")):
        ci = repo.cls(file, cname)
        fi = repo.method(ci, "forward")
        params = [p_ for p_ in fi.params if p_ != "self"]
        if not params:
            continue
        names = {params[0]}
        for d_ in ast.walk(fi.node):
            if isinstance(d_, ast.FunctionDef) and d_ is not fi.node and d_.args.args:
                names.add(d_.args.args[0].arg)
        n += 1
        bad = und = None
        for st in ast.walk(fi.node):
            if not (isinstance(st, (ast.Assign, ast.AugAssign)) and any(isinstance(t_, ast.Name) and t_.id in names for t_ in (st.targets if isinstance(st, ast.Assign) else [st.target]))):
                continue
            if isinstance(st, ast.AugAssign):
                bad = bad or st
                continue
            e = st.value
            while isinstance(e, ast.Call) and isinstance(e.func, ast.Attribute) and e.func.attr in SHAPE_ONLY:
                e = e.func.value
            if isinstance(e, ast.Name) and e.id in names:
                continue
            uses_self = any(isinstance(x_, ast.Name) and x_.id in names for x_ in ast.walk(st.value))
            arith = any(isinstance(x_, ast.BinOp) for x_ in ast.walk(st.value)) or any(isinstance(x_, ast.Call) and (call_name(x_) or unparse(x_.func)).split(".")[-1] in ("clamp", "clip", "tanh", "sign", "normalize", "abs", "sigmoid", "softmax", "round", "nan_to_num") for x_ in ast.walk(st.value))
            if uses_self and arith:
                bad = bad or st
            else:
                und = und or st
        construct = f"{cname}.forward: received LLRs up to the decoding call"
        if bad is not None:
            rep.violation("SC-SHAPE", fi, f"{construct}: {unparse(bad)[:80]}", "the received LLRs are rescaled / squashed before decoding: the sum-product check node 2 atanh(tanh(a/2) tanh(b/2)) is not invariant under a scaling of its inputs (only min-sum is), so the decisions differ from the textbook rule applied to the channel LLRs", node=bad)
        elif und is not None:
            rep.undecided("SC-SHAPE", fi, f"{construct}: {unparse(und)[:80]}", "the LLR variable is re-bound to something that is not a reshape / device move of itself", node=und)
        else:
            rep.ok("SC-SHAPE", fi, construct, "only reshaped / moved: the decoder works on the channel LLRs themselves", node=fi.node)
    return n


def rule_mask_layout(repo: Repo, rep: Report) -> int:
    """Sibling agreement on shared storage: the BP polar decoder takes over `encoder.mask_dict` (the table of upper-branch
    positions per butterfly stage) whenever the encoder has already filled it, and otherwise builds its own.  Both
    producers must therefore lay the table out identically - row i for the same stage - or the decoder's message passing
    pairs row i with another stage's distance, depending on whether the encoder was used before the decoder was built.
    Both constructions are evaluated (own arithmetic) for N = 4, 8, 16 and compared entry by entry."""
    from ..constfold import Unfoldable
    from ..frag import FragRaise, FragReturn, run_fragment

    dec_init = repo.func(PBP, "BeliefPropagationPolarDecoder.__init__")
    ci = repo.cls(PE, "PolarCodeEncoder")
    fi = repo.method(ci, "polar_transform")
    shares = [x for x in ast.walk(dec_init.node) if isinstance(x, ast.Attribute) and x.attr == "mask_dict" and isinstance(x.value, ast.Name) and x.value.id != "self"]
    if not shares:
        rep.ok("MASK-LAYOUT", dec_init, "stage table of the BP polar decoder", "built by the decoder itself: nothing shared with the encoder", node=dec_init.node, nontrivial=False)
        return 1
    builders = [s for s in ast.walk(dec_init.node) if isinstance(s, ast.If) and "mask_dict" in unparse(s.test) and any(isinstance(t, ast.Assign) and any(attr_chain(g) == "self.mask_dict" for g in t.targets) for t in ast.walk(s))]
    funcs = {nm: f.node for nm, f in ci.module.functions.items()}
    construct = f"`{unparse(shares[0])}` reused by the decoder vs. the decoder's own table"

    def ints(t):
        return [[int(v) for v in r] for r in t] if isinstance(t, list) and all(isinstance(r, list) for r in t) else None

    if len(builders) != 1:
        rep.undecided("MASK-LAYOUT", dec_init, construct, "the decoder's own construction of the table was not found", node=dec_init.node)
        return 1
    for m in (2, 3, 4):
        N = 2**m
        enc_attrs = {"self.code_length": N, "self.m": m, "self.mask_dict": None, "self.polar_i": False, "self.dtype": "torch.float32", "self.device": "cpu"}
        dec_attrs = {"self.code_length": N, "self.m": m, "self.mask_dict": None}
        try:
            try:
                run_fragment(fi.body, {"u": [[0] * N], "return_arr": False}, enc_attrs, funcs=funcs, materialise=True, max_steps=2000000, attrs_live=True)
            except FragReturn:
                pass
            run_fragment([builders[0]], {}, dec_attrs, funcs=funcs, materialise=True, max_steps=2000000, attrs_live=True)
            a, b = ints(enc_attrs.get("self.mask_dict")), ints(dec_attrs.get("self.mask_dict"))
        except (Unfoldable, FragRaise, FragReturn, TypeError, IndexError, ValueError) as exc:
            rep.undecided("MASK-LAYOUT", dec_init, construct, f"N = {N}: not evaluable ({exc})", node=shares[0])
            return 1
        if a is None or b is None:
            rep.undecided("MASK-LAYOUT", dec_init, construct, f"N = {N}: a table is not a matrix of positions", node=shares[0])
            return 1
        if a != b:
            rep.violation("MASK-LAYOUT", dec_init, construct, f"N = {N}: after an encoding the encoder holds the stage table {a}, the decoder's own construction gives {b}: a decoder built from an encoder that has already encoded works on a table whose row i belongs to another stage than its update rules assume (wrong factor graph or an index error), one built from a fresh encoder does not - the two producers of the shared table must agree", node=shares[0])
            return 1
    rep.ok("MASK-LAYOUT", dec_init, construct, "both constructions evaluated for N = 4, 8, 16: identical tables, so the decoder does not depend on whether the encoder was used first", node=shares[0])
    return 1


def run(repo: Repo, rep: Report, tier: str) -> None:
    n = rule_kernel(repo, rep)
    n += rule_mask_layout(repo, rep)
    n += rule_bp_polar_schedule(repo, rep)
    n += rule_llr_passthrough(repo, rep)
    n += rule_bp_polar_answers(repo, rep)
    tst_, td_ = polar_transform_tabulated(repo)
    tfi_ = repo.func(PE, "PolarCodeEncoder.polar_transform")
    if tst_ is None:
        rep.undecided("KERNEL", tfi_, "polar_transform = multiplication by the Kronecker power (tabulated)", f"not evaluable ({td_})", node=tfi_.node)
    else:
        rep.add("KERNEL", tfi_, "polar_transform tabulated on unit vectors for N = 2 .. 32, plain and interleaved", tst_, td_, node=tfi_.node)
    n += 1
    n += rule_bp_decision(repo, rep)
    n += rule_rank_table(repo, rep)
    n += rule_info_set(repo, rep)
    n += rule_frozen_value(repo, rep)
    n += rule_sc_shape(repo, rep)
    for file, qual in ((PE, "PolarCodeEncoder.forward"), (PE, "PolarCodeEncoder.polar_transform"), (SC, "SuccessiveCancellationDecoder.decode_recursive"), (SC, "SuccessiveCancellationDecoder.forward")):
        lint_value_keyed(rep, repo.func(file, qual), rule="G1", allowed_literals={0, 1, -1, 2})
    rep.floor("C11 rule instances", n, 32)
    rep.decided_clauses += [
        "kernel and number of Kronecker steps",
        "reliability table = TS 38.212 sequence (permutation, dominance, entry-by-entry); frozen set = first N-k ranked positions < N; user masks validated",
        "frozen value agreement between encoder, SC leaf and polar-BP initialisation (with the library's LLR polarity)",
        "SC recursion shape: f/g functions, partial sums, half splits, interleaved variant, helper closed forms",
    ]
    rep.undecided_clauses += ["convergence of the BP schedule", "SC output = textbook rule as values"]
