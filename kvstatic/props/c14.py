"""C14 - constellations: bijective labels, unit energy, Gray adjacency; Gray utilities."""
from __future__ import annotations

import ast
import math
from typing import Dict, List, Optional, Tuple

from .. import gf2
from ..astutil import Inliner, attr_chain, call_name, const_value, match, returns_of, stmts_of
from ..closedform import classify
from ..constfold import PySeq, Folder, Unfoldable, registered_buffers, straight_line_names
from ..core import OK, UNDECIDED, VIOLATION, AnalysisError, ClassInfo, FuncInfo, Repo, Report, unparse
from ..speciallint import lint_value_keyed
from .c15 import tv_eval

EXPLANATION = (
    "LITERAL-TABLE: the literal constellations and label tables (BPSK, QPSK, OQPSK, pi/4-QPSK in both rotations and both labellings) are extracted from the syntax tree by constant "
    "folding (lists, scalar arithmetic, cos/sin of literal angles, configuration-resolved conditionals) and validated with the checker's own arithmetic: 2^b distinct points, labels a "
    "bijection onto all b-bit patterns, unit average energy where normalisation is requested or implied, and one-bit difference between every pair of nearest neighbours where Gray "
    "labelling is promised. GENERATED-TABLE: for PSK, DPSK, QAM and PAM the label generator g (identity, i ^ (i >> 1), binary_to_gray) and the position permutation pi (identity unless "
    "levels/angles are re-indexed) are recognised from the construction loops; the checker then decides for every supported order whether label(position p) = g(pi^-1(p)) is a "
    "bijection and a Gray sequence along physical neighbours (cyclic for PSK, per axis for QAM). NORMALISE: division by sqrt(mean |c|^2) under the normalize flag. GRAY-UTIL: "
    "binary_to_gray is n ^ (n >> 1), gray_to_binary the full prefix-XOR loop (bounded log-step variants are rejected: the statement quantifies over all non-negative integers), "
    "array forms call the scalar forms elementwise, no value-keyed special case."
)

MD = "kaira/modulations"
UT = "kaira/modulations/utils.py"


def cfgd(atoms):
    return lambda test: tv_eval(test, atoms)


def nearest_neighbour_pairs(points: List[complex]) -> List[Tuple[int, int]]:
    n = len(points)
    dmin = min(abs(points[i] - points[j]) for i in range(n) for j in range(i + 1, n))
    return [(i, j) for i in range(n) for j in range(i + 1, n) if abs(abs(points[i] - points[j]) - dmin) <= 1e-9 * max(1.0, dmin)]


def validate_table(rep: Report, where, what: str, points: List[complex], labels: List[List[int]], unit_energy: bool, gray: bool, node=None) -> int:
    n = len(points)
    b = len(labels[0]) if labels else 0
    ok_size = n == len(labels) and n == 2**b and n > 0
    rep.check(ok_size, "LITERAL-TABLE", where, f"{what}: {n} points, {len(labels)} labels of {b} bits", "2^b points and labels", f"{n} points / {len(labels)} labels / {b} bits: not a 2^b constellation", node=node)
    if not ok_size:
        return 1
    distinct = len({(round(p.real, 9), round(p.imag, 9)) for p in points}) == n
    rep.check(distinct, "LITERAL-TABLE", where, f"{what}: points {[f'{p.real:.3g}{p.imag:+.3g}j' for p in points]}", "all points distinct", "two labels share one point", node=node)
    ints = [int("".join(str(int(round(x))) for x in lab), 2) for lab in labels]
    bij = sorted(ints) == list(range(n)) and all(abs(x - round(x)) < 1e-9 and round(x) in (0, 1) for lab in labels for x in lab)
    rep.check(bij, "LITERAL-TABLE", where, f"{what}: labels {[''.join(str(int(round(x))) for x in lab) for lab in labels]}", "a bijection onto all b-bit patterns", "labels are not a bijection onto the b-bit patterns", node=node)
    k = 3
    if unit_energy:
        e = sum(abs(p) ** 2 for p in points) / n
        rep.check(abs(e - 1.0) < 1e-9, "LITERAL-TABLE", where, f"{what}: average energy {e:.6g}", "unit average energy", f"average energy is {e:.6g}, not 1", node=node)
        k += 1
    if gray and bij and distinct:
        bad = [(i, j) for (i, j) in nearest_neighbour_pairs(points) if bin(ints[i] ^ ints[j]).count("1") != 1]
        rep.check(not bad, "LITERAL-TABLE", where, f"{what}: Gray adjacency over {len(nearest_neighbour_pairs(points))} nearest-neighbour pairs", "every pair of nearest neighbours differs in exactly one bit", f"nearest neighbours {[(format(ints[i], f'0{b}b'), format(ints[j], f'0{b}b')) for i, j in bad[:3]]} differ in more than one bit", node=node)
        k += 1
    return k


def fold_buffers(ci: ClassInfo, method: str, atoms: Dict[str, bool], attrs: Dict[str, object]) -> Dict[str, object]:
    fi = ci.methods.get(method)
    if fi is None:
        raise AnalysisError(f"anchor vanished: {ci.name}.{method}")
    dec = cfgd(atoms)
    names = straight_line_names(fi, dec)
    # attributes assigned earlier in the same method (self._normalization = ...)
    fattrs = dict(attrs)
    for st in stmts_of(fi.body):
        if isinstance(st, ast.Assign) and len(st.targets) == 1:
            ch = attr_chain(st.targets[0])
            if ch and ch.startswith("self.") and ch not in fattrs:
                fattrs[ch] = st.value
    folder = Folder(names, fattrs, dec)
    out = {}
    for bname, expr in registered_buffers(fi, dec).items():
        try:
            out[bname] = folder.fold(expr)
        except Unfoldable as exc:
            out[bname] = exc
    if any(isinstance(v_, Exception) for v_ in out.values()):
        # not a chain of plain definitions (tuple unpacking, a loop ...): the method body is run as a whole
        # helper methods of the class (a static helper that maps label bits to amplitudes) are followed
        ran = run_buffers(fi, atoms, attrs, funcs={f"self.{nm}": m.node for nm, m in ci.methods.items() if nm not in ("__init__", "forward", method)})
        for k_, v_ in ran.items():
            if isinstance(out.get(k_), Exception) or k_ not in out:
                out[k_] = v_
    return out


def run_buffers(fi: FuncInfo, atoms: Dict[str, bool], attrs: Dict[str, object], funcs=None, consts=None, max_steps: int = 200000) -> Dict[str, object]:
    """Buffers registered by a constructor-like method, from running its body (own arithmetic): `self.register_buffer(name,
    expr)` is read as the binding of `name`, `super().__init__(...)` is skipped, parameters get their defaults unless the
    configuration names them."""
    import copy

    from ..frag import FragRaise, FragReturn, run_fragment

    class _Reg(ast.NodeTransformer):
        def visit_Expr(self, nd):
            c = nd.value
            if isinstance(c, ast.Call) and attr_chain(c.func) == "self.register_buffer" and len(c.args) >= 2 and isinstance(c.args[0], ast.Constant):
                return ast.copy_location(ast.Assign(targets=[ast.Name(id=f"__buf_{c.args[0].value}", ctx=ast.Store())], value=c.args[1]), nd)
            if isinstance(c, ast.Call) and unparse(c.func) == "super().__init__":
                return ast.copy_location(ast.Pass(), nd)
            return nd

    body = [ast.fix_missing_locations(_Reg().visit(copy.deepcopy(st))) for st in fi.body]
    names: Dict[str, object] = {}
    a = fi.node.args
    pos = [x.arg for x in a.args if x.arg != "self"]
    for p_, d_ in zip(pos[len(pos) - len(a.defaults):], a.defaults):
        try:
            names[p_] = Folder({}, {}).fold(d_)
        except Unfoldable:
            pass
    for k_, v_ in atoms.items():
        if k_.isidentifier():
            names[k_] = v_
    names.setdefault("args", PySeq([]))
    names.setdefault("kwargs", {})
    for k_, v_ in (consts or {}).items():
        names.setdefault(k_, v_)
    live = {k_: v_ for k_, v_ in attrs.items()}
    try:
        env = run_fragment(body, names, live, materialise=True, max_steps=max_steps, attrs_live=True, funcs=funcs)
    except FragReturn as ret:
        env = getattr(ret, "env", {})
    except (Unfoldable, FragRaise, TypeError, ValueError, IndexError):
        return {}
    return {k_[6:]: v_ for k_, v_ in env.items() if k_.startswith("__buf_") and isinstance(v_, (list, int, float, complex))}


def rule_literal_tables(repo: Repo, rep: Report) -> int:
    n = 0
    # BPSK
    ci = repo.cls(f"{MD}/psk.py", "BPSKModulator")
    bufs = fold_buffers(ci, "__init__", {}, {})
    c = bufs.get("constellation")
    if isinstance(c, list):
        n += validate_table(rep, f"{MD}/psk.py::BPSKModulator.__init__", "BPSK", [complex(x) for x in c], [[0], [1]], True, True)
    else:
        rep.undecided("LITERAL-TABLE", f"{MD}/psk.py::BPSKModulator.__init__", "BPSK constellation", f"not a literal ({c})")
        n += 1
    # QPSK / OQPSK with and without normalisation
    for file, cname in ((f"{MD}/psk.py", "QPSKModulator"), (f"{MD}/oqpsk.py", "OQPSKModulator")):
        ci = repo.cls(file, cname)
        for norm in (True, False):
            bufs = fold_buffers(ci, "__init__", {"normalize": norm}, {"self.normalize": norm})
            c, l = bufs.get("constellation"), bufs.get("bit_patterns")
            where = f"{file}::{cname}.__init__"
            if isinstance(c, list) and isinstance(l, list):
                n += validate_table(rep, where, f"{cname}(normalize={norm})", [complex(x) for x in c], l, norm, True)
            else:
                rep.undecided("LITERAL-TABLE", where, f"{cname}(normalize={norm})", f"tables are not literals ({c if not isinstance(c, list) else l})")
                n += 1
    # pi/4-QPSK: both rotations x both labellings
    ci = repo.cls(f"{MD}/pi4qpsk.py", "Pi4QPSKModulator")
    for gray in (True, False):
        bufs = fold_buffers(ci, "_create_constellations", {"self.gray_coded": gray}, {})
        l = bufs.get("bit_patterns")
        where = f"{MD}/pi4qpsk.py::Pi4QPSKModulator._create_constellations"
        for bname in ("qpsk", "qpsk_rotated"):
            c = bufs.get(bname)
            if isinstance(c, list) and isinstance(l, list):
                n += validate_table(rep, where, f"pi/4-QPSK {bname} (gray_coded={gray})", [complex(x) for x in c], l, True, gray)
            else:
                rep.undecided("LITERAL-TABLE", where, f"pi/4-QPSK {bname} (gray_coded={gray})", f"tables are not literals ({c if not isinstance(c, list) else l})")
                n += 1
        # the second constellation is the first rotated by pi/4
        a, b = bufs.get("qpsk"), bufs.get("qpsk_rotated")
        if isinstance(a, list) and isinstance(b, list) and len(a) == len(b):
            rot = [cmath_phase(complex(y) / complex(x)) for x, y in zip(a, b)]
            okr = all(abs(abs(r) - math.pi / 4) < 1e-9 for r in rot) and len({round(r, 9) for r in rot}) == 1
            rep.check(okr, "LITERAL-TABLE", where, f"pi/4-QPSK rotation between the two constellations (gray_coded={gray}): {[round(r, 4) for r in rot]}", "every point of the second constellation is the same label's point rotated by pi/4", "the two constellations are not related by a common pi/4 rotation (labels move between them)")
            n += 1
    return n


def cmath_phase(z: complex) -> float:
    return math.atan2(z.imag, z.real)


# ---------------------------------------------------------------------------
# generated tables
# ---------------------------------------------------------------------------

def label_generator(fi: FuncInfo, atoms: Dict[str, bool]) -> Tuple[Optional[str], Optional[ast.AST]]:
    """Recognise the integer whose binary expansion labels constellation index i: 'id', 'gray' or None."""
    dec = cfgd(atoms)
    found: List[Tuple[str, ast.AST]] = []

    def resolve(arg: ast.AST, body, loopvar, depth=0) -> ast.AST:
        # conditional expression decided by the configuration
        if isinstance(arg, ast.IfExp):
            d = dec(arg.test)
            if d is not None:
                return resolve(arg.body if d else arg.orelse, body, loopvar, depth)
            return arg
        # a local defined in the same loop body
        if isinstance(arg, ast.Name) and arg.id != loopvar and depth < 4:
            defs = [s2.value for s2 in body if isinstance(s2, ast.Assign) and isinstance(s2.targets[0], ast.Name) and s2.targets[0].id == arg.id]
            if len(defs) == 1:
                return resolve(defs[0], body, loopvar, depth + 1)
        return arg

    def classify_arg(arg: ast.AST, st, loopvar):
        if isinstance(arg, ast.Name) and arg.id == loopvar:
            found.append(("id", st))
        elif match(arg, f"{loopvar} ^ ({loopvar} >> 1)") is not None or match(arg, f"binary_to_gray({loopvar})") is not None:
            found.append(("gray", st))
        else:
            found.append((("expr", arg, loopvar), st))

    def walk(body, loopvar=None):
        for st in body:
            if isinstance(st, ast.If):
                d = dec(st.test)
                if d is not False:
                    walk(st.body, loopvar)
                if d is not True:
                    walk(st.orelse, loopvar)
            elif isinstance(st, ast.For):
                lv = st.target.id if isinstance(st.target, ast.Name) else None
                # `for j, bit in enumerate(format(label, ...))`: the format call sits in the loop header
                if loopvar:
                    for c in ast.walk(st.iter):
                        if isinstance(c, ast.Call) and call_name(c) == "format" and c.args:
                            classify_arg(resolve(c.args[0], body, loopvar), st, loopvar)
                walk(st.body, lv or loopvar)
            elif isinstance(st, ast.Assign) and isinstance(st.value, ast.Call) and call_name(st.value) == "format" and loopvar:
                classify_arg(resolve(st.value.args[0], body, loopvar), st, loopvar)

    walk(fi.body)
    kinds = {k if isinstance(k, str) else unparse(k[1]) for k, _ in found}
    if len(kinds) == 1:
        return found[0]
    return (None, found[0][1] if found else None)


def int_fun(expr: ast.AST, var: str):
    """Own evaluation of an integer expression in one loop variable (binary_to_gray = i ^ (i >> 1))."""

    class F(Folder):
        def fold(self, node):
            if isinstance(node, ast.Call) and call_name(node) == "binary_to_gray" and node.args:
                v = self.fold(node.args[0])
                return v ^ (v >> 1)
            return super().fold(node)

    def f(i: int):
        return F({var: i}).fold(expr)

    return f


def gray_sequence_ok(labels: List[int], cyclic: bool) -> bool:
    pairs = list(zip(labels, labels[1:])) + ([(labels[-1], labels[0])] if cyclic and len(labels) > 2 else [])
    return all(bin(a ^ b).count("1") == 1 for a, b in pairs)


_cur = [0]


def array_gray_evaluated(rep: Report, fi: FuncInfo, fname: str, scalar: str) -> None:
    """A vectorised array form: (1) the integer words may not pass through floating point (true division, float casts:
    float32 keeps 24 bits, float64 53, the maps must be bijections on all non-negative integers); (2) the body is run
    (own arithmetic) on small and large words and compared with the scalar definition."""
    from ..frag import FragRaise, FragReturn, run_fragment

    what = f"{fname}: vectorised form"
    for x in ast.walk(fi.node):
        fl = None
        if isinstance(x, ast.BinOp) and isinstance(x.op, ast.Div):
            fl = x
        elif isinstance(x, ast.Call) and call_name(x) in ("torch.true_divide",):
            fl = x
        elif isinstance(x, ast.Call) and call_name(x) == "torch.div" and not any(k.arg == "rounding_mode" for k in x.keywords):
            fl = x
        elif isinstance(x, ast.Call) and isinstance(x.func, ast.Attribute) and x.func.attr in ("float", "double", "half") and not x.args:
            fl = x
        if fl is not None:
            rep.violation("GRAY-UTIL", fi, f"{what}: {unparse(fl)}", "the integer words pass through floating point (true division of an integer tensor gives float32: 24 significant bits), so words above 2^24 lose their low bits: the array form disagrees with the scalar form and is no longer a bijection", node=fl)
            return
    param = fi.params[0]
    words = list(range(0, 40)) + [2**24 + 1, 2**30 + 3, 2**40 + 12345, 2**53 + 1]
    if scalar == "binary_to_gray":
        want = [w ^ (w >> 1) for w in words]
    else:
        want = []
        for w in words:
            r, sft = w, w >> 1
            while sft:
                r ^= sft
                sft >>= 1
            want.append(r)
    try:
        run_fragment(fi.body, {param: words}, {}, max_steps=900000, materialise=True, funcs={nm_: f_.node for nm_, f_ in fi.module.functions.items() if nm_ != fi.name})
        rep.undecided("GRAY-UTIL", fi, what, "no value returned")
        return
    except FragReturn as r:
        got = r.value
    except (Unfoldable, FragRaise, TypeError) as exc:
        rep.undecided("GRAY-UTIL", fi, what, f"outside the evaluator ({exc})")
        return
    if got == want:
        rep.ok("GRAY-UTIL", fi, what, f"integer-only; agrees with {scalar} on {len(words)} words up to 2^53 + 1")
    else:
        k = next((i for i, (a, b) in enumerate(zip(got, want)) if a != b), 0) if isinstance(got, list) and len(got) == len(want) else 0
        rep.violation("GRAY-UTIL", fi, what, f"for the word {words[k]} the array form gives {got[k] if isinstance(got, list) and len(got) == len(want) else got!r}; {scalar} gives {want[k]}", node=fi.node)


_FUNCS: Dict[str, ast.AST] = {}
#: the points the evaluated constructor produced: (id of the function node, order, labelling) -> (points, real levels?)
_PTS: Dict[tuple, tuple] = {}


def evaluated_table(fi: FuncInfo, M: int, gray: bool, flag: str):
    """bit_patterns of order M as a list of label integers, from running the constructor body; or a reason string."""
    from ..frag import FragRaise, FragReturn, run_fragment

    b = M.bit_length() - 1
    try:
        consts = {st_.targets[0].id: st_.value for st_ in fi.module.tree.body if isinstance(st_, ast.Assign) and len(st_.targets) == 1 and isinstance(st_.targets[0], ast.Name)}
        env = run_fragment(fi.body, consts, {flag: gray, "self.order": M, "self._bits_per_symbol": b, "self.bits_per_symbol": b, "self.normalize": False}, max_steps=400000, materialise=True, funcs=dict(_FUNCS))
    except (Unfoldable, FragRaise) as exc:
        return str(exc) or type(exc).__name__
    except FragReturn:
        return "constructor returns a value"
    bp = env.get("bit_patterns")
    if not (isinstance(bp, list) and len(bp) == M and all(isinstance(r, list) and len(r) == b and all(x in (0, 1, 0.0, 1.0) for x in r) for r in bp)):
        return f"bit_patterns is not an {M} x {b} 0/1 table"
    labels = [int("".join(str(int(x)) for x in r), 2) for r in bp]
    # physical position of point i: rank of its level (PAM) or of its angle (PSK / DPSK)
    import cmath as _cm

    pts = env.get("levels") if isinstance(env.get("levels"), list) else env.get("constellation")
    _PTS[(id(fi.node), M, gray)] = (pts, isinstance(env.get("levels"), list))
    positions = None
    if isinstance(pts, list) and len(pts) == M and all(isinstance(z, (int, float, complex)) for z in pts):
        if isinstance(env.get("levels"), list):
            key = [complex(z).real for z in pts]
        else:
            key = [round((_cm.phase(complex(z)) + 2 * _cm.pi) % (2 * _cm.pi), 9) % (2 * _cm.pi) for z in pts]
        order_ = sorted(range(M), key=lambda i: key[i])
        if len({round(k_, 9) for k_ in key}) == M:
            positions = [0] * M
            for rank_, i in enumerate(order_):
                positions[i] = rank_
    return labels, positions


def _qam_label_shape_listed(fi: FuncInfo) -> bool:
    gi = {unparse(s.targets[0]) for s in stmts_of(fi.body) if isinstance(s, ast.Assign) and unparse(s.targets[0]) in ("i_gray", "j_gray")}
    idx = [s for s in stmts_of(fi.body) if isinstance(s, ast.Assign) and unparse(s.targets[0]) == "idx"]
    fm = {unparse(s.targets[0]) for s in stmts_of(fi.body) if isinstance(s, ast.Assign) and unparse(s.targets[0]) in ("bits_i", "bits_j")}
    cat = [s for s in stmts_of(fi.body) if isinstance(s, ast.For) and "bits_i + bits_j" in unparse(s.iter)]
    return gi == {"i_gray", "j_gray"} and len(idx) == 1 and fm == {"bits_i", "bits_j"} and len(cat) == 1


def qam_by_evaluation(repo: Repo, rep: Report, fi: FuncInfo) -> int:
    """Unlisted construction of the QAM tables: the constructor body is run (own arithmetic) for k = 2, 4, 8 and both
    labelings; the points must be the k x k product grid of equidistant levels, the labels a bijection, natural labels
    binary(i), and under Gray coding nearest neighbours on the grid must differ in exactly one bit.  Returns the number
    of obligations emitted, 0 when the body is not evaluable (the shape rules then report)."""
    from ..frag import FragRaise, FragReturn, run_fragment

    # every helper of the modulation utilities (scalar and array Gray maps) and of the QAM module itself may be called
    helpers = {nm: f.node for nm, f in repo.module(UT).functions.items()}
    helpers.update({nm: f.node for nm, f in fi.module.functions.items()})
    results = {}
    try:
        for gray in (True, False):
            for k in (2, 4, 8):
                M, b = k * k, 2 * (k.bit_length() - 1)
                env = run_fragment(fi.body, {}, {"self.order": M, "self._k": k, "self._bits_per_symbol": b, "self.gray_coding": gray, "self.normalize": False}, max_steps=900000, materialise=True, funcs=helpers)
                pts, bp = env.get("constellation"), env.get("bit_patterns")
                if not (isinstance(pts, list) and len(pts) == M and all(isinstance(p_, (int, float, complex)) for p_ in pts)):
                    return 0
                if not (isinstance(bp, list) and len(bp) == M and all(isinstance(r, list) and len(r) == b and all(x in (0, 1) for x in r) for r in bp)):
                    return 0
                results[(gray, k)] = ([complex(p_) for p_ in pts], [int("".join(str(int(x)) for x in r), 2) for r in bp])
    except (Unfoldable, FragRaise, FragReturn, TypeError, ValueError, IndexError):
        return 0
    bad_grid = bad_bij = bad_nat = bad_gray = None
    for (gray, k), (pts, labs) in results.items():
        res, ims = sorted({round(p_.real, 9) for p_ in pts}), sorted({round(p_.imag, 9) for p_ in pts})
        steps = {round(b_ - a_, 9) for a_, b_ in zip(res, res[1:])} | {round(b_ - a_, 9) for a_, b_ in zip(ims, ims[1:])}
        if len(set(pts)) != k * k or len(res) != k or len(ims) != k or len(steps) > 1 or res != ims:
            bad_grid = bad_grid or f"k={k}: points {pts[:5]}... are not the {k} x {k} grid of equidistant levels"
        if sorted(labs) != list(range(k * k)):
            bad_bij = bad_bij or f"k={k}, gray_coding={gray}: labels {labs[:8]}... are not a bijection"
        if not gray and labs != list(range(k * k)):
            bad_nat = bad_nat or f"k={k}: natural labels are {labs[:8]}..., not binary(i)"
        if gray and k > 1:
            dmin = min(abs(p_ - q_) for i_, p_ in enumerate(pts) for q_ in pts[i_ + 1:])
            for i_, p_ in enumerate(pts):
                for j_ in range(i_ + 1, len(pts)):
                    if abs(p_ - pts[j_]) <= dmin * (1 + 1e-9) and bin(labs[i_] ^ labs[j_]).count("1") != 1:
                        bad_gray = bad_gray or f"k={k}: neighbours {p_} / {pts[j_]} carry {labs[i_]:0{2 * (k.bit_length() - 1)}b} / {labs[j_]:0{2 * (k.bit_length() - 1)}b}"
    rep.check(bad_grid is None, "GENERATED-TABLE", fi, "QAM points (constructor evaluated for k = 2, 4, 8)", "the k x k product grid of equidistant levels", bad_grid or "")
    rep.check(bad_bij is None, "GENERATED-TABLE", fi, "QAM labels (constructor evaluated): bijection", "every bit group labels exactly one point", bad_bij or "")
    rep.check(bad_gray is None, "GENERATED-TABLE", fi, "QAM(gray_coding=True) (constructor evaluated): nearest neighbours", "grid neighbours differ in exactly one bit for k = 2, 4, 8", f"Gray labels of nearest neighbours differ in more than one bit ({bad_gray})" if bad_gray else "")
    rep.check(bad_nat is None, "GENERATED-TABLE", fi, "QAM(gray_coding=False) (constructor evaluated): label of index i = binary(i)", "natural binary labels", bad_nat or "")
    return 4


def rule_generated(repo: Repo, rep: Report) -> int:
    n = 0
    _FUNCS.clear()
    _FUNCS.update({nm: repo.func(UT, nm).node for nm in ("binary_to_gray", "gray_to_binary")})
    specs = [
        (f"{MD}/psk.py", "PSKModulator", "self.gray_coding", [4, 8, 16, 32, 64], True),
        (f"{MD}/dpsk.py", "DPSKModulator", "self.gray_coding", [2, 4, 8, 16], True),
        (f"{MD}/pam.py", "PAMModulator", "self.gray_coding", [2, 4, 8, 16, 32, 64], False),
    ]
    for file, cname, flag, orders, cyclic in specs:
        ci = repo.cls(file, cname)
        fi = repo.method(ci, "_create_constellation")
        for gray in (True, False):
            atoms = {flag: gray, f"not {flag}": not gray}
            g, node = label_generator(fi, atoms)
            construct = f"{cname}(gray_coding={gray}): label of index i = binary({ {'id': 'i', 'gray': 'i ^ (i >> 1)'}.get(g, g) })"
            custom = None
            if isinstance(g, tuple) and g[0] == "expr":
                custom = int_fun(g[1], g[2])
                try:
                    custom(3)
                    construct = f"{cname}(gray_coding={gray}): label of index i = binary({unparse(g[1])})"
                except Unfoldable:
                    g, custom = None, None  # fall through to the evaluation of the whole constructor
            if g is None or (isinstance(g, str) and g not in ("id", "gray")):
                # unlisted construction: run the constructor body (own arithmetic) for every order and read the table
                tables = {}
                ptables = {}
                why = None
                for M in orders:
                    tb = evaluated_table(fi, M, gray, flag)
                    if isinstance(tb, str):
                        why = tb
                        break
                    tables[M], ptables[M] = tb
                if why is not None:
                    rep.undecided("GENERATED-TABLE", fi, construct, f"label generator not recognised and the table is not evaluable ({why})", node=node)
                    n += 1
                    continue
                custom = lambda i, _t=tables: _t[_cur[0]][i]  # noqa: E731
                g = ("table",)
                construct = f"{cname}(gray_coding={gray}): label table evaluated from the constructor body"
            # position permutation: are the physical positions re-indexed?
            perm = position_permutation(fi, atoms)
            pos_tables = None
            if perm is None and g == ("table",) and all(ptables.get(M) is not None for M in orders):
                pos_tables, perm = ptables, "the evaluated level / angle order"
            if perm is None:
                rep.undecided("GENERATED-TABLE", fi, construct, "physical positions are re-indexed in an unknown way")
                n += 1
                continue
            gfun = custom if custom is not None else ((lambda i: i) if g == "id" else gf2.gray)
            pfun = (lambda i, _p=pos_tables: _p[_cur[0]][i]) if pos_tables is not None else {"id": (lambda i: i), "gray": gf2.gray}[perm]
            bad_orders = []
            # where the constructor can be run, the label AND the geometric position of every point are taken from the run
            # (the structural reading assumes that point i sits at the i-th angle / level, which a re-arranged point list breaks)
            ev_tabs: Optional[Dict[int, tuple]] = {}
            for M in orders:
                tb_ = evaluated_table(fi, M, gray, flag)
                if isinstance(tb_, str) or tb_[1] is None:
                    ev_tabs = None
                    break
                ev_tabs[M] = tb_
            if ev_tabs:
                perm = f"{perm}; checked against the evaluated level / angle order"
            for M in orders:
                _cur[0] = M
                lab_of_index = [gfun(i) for i in range(M)]
                pos_of_index = [pfun(i) for i in range(M)]
                if ev_tabs:
                    lab_of_index, pos_of_index = list(ev_tabs[M][0]), list(ev_tabs[M][1])
                if sorted(lab_of_index) != list(range(M)) or sorted(pos_of_index) != list(range(M)):
                    bad_orders.append((M, "not a bijection"))
                    continue
                by_pos = [None] * M
                for i in range(M):
                    by_pos[pos_of_index[i]] = lab_of_index[i]
                if gray and M > 2 and not gray_sequence_ok(by_pos, cyclic):
                    bad_orders.append((M, f"labels along the physical order: {[format(x, 'b') for x in by_pos[:6]]}..."))
            n += 1
            if bad_orders:
                M, why = bad_orders[0]
                # the construct names the obligation, not the spelling: the same finding keeps its key across refactorings
                rep.violation("GENERATED-TABLE", fi, f"{cname}(gray_coding={gray}): labels along the physical order of the points", f"[{construct.split(': ', 1)[-1]}, positions re-indexed by {perm}] " + ((f"for order {M} physically adjacent points do not differ in one bit ({why})" + (": labels and positions are both permuted, the permutations cancel" if perm == "gray" else "")) if (gray and why != "not a bijection") else f"order {M}: labels are {why}"), node=node)
            else:
                rep.ok("GENERATED-TABLE", fi, f"{cname}(gray_coding={gray}): labels along the physical order of the points", f"[{construct.split(': ', 1)[-1]}, positions indexed by {perm}] bijective for orders {orders}" + ("; Gray along physical neighbours" if gray else ""), node=node)
    # geometry of the evaluated tables: 2^b distinct points, equally spaced (on the unit circle / on the line), so that
    # "nearest neighbour" means "adjacent in the physical order" as the label rule above assumes
    import cmath as _cm

    for file, cname, flag, orders, cyclic in specs:
        fi = repo.method(repo.cls(file, cname), "_create_constellation")
        for gray in (True, False):
            bad, seen = None, 0
            for M in orders:
                _PTS.pop((id(fi.node), M, gray), None)
                tb = evaluated_table(fi, M, gray, flag)
                got = _PTS.get((id(fi.node), M, gray))
                if isinstance(tb, str) or got is None or not (isinstance(got[0], list) and len(got[0]) == M and all(isinstance(z, (int, float, complex)) and not isinstance(z, bool) for z in got[0])):
                    if not isinstance(tb, str) and got is not None and isinstance(got[0], list) and len(got[0]) != M:
                        bad = bad or f"order {M}: the table holds {len(got[0])} points"
                    continue
                seen += 1
                pts_, real_ = got
                if real_:
                    lv = sorted(complex(z).real for z in pts_)
                    gaps = [b_ - a_ for a_, b_ in zip(lv, lv[1:])]
                    if M > 1 and (min(gaps) <= 1e-9 or max(gaps) - min(gaps) > 1e-6 * max(gaps)):
                        bad = bad or f"order {M}: levels {[round(v, 4) for v in lv[:6]]}... are not {M} distinct equidistant levels"
                else:
                    if any(abs(abs(complex(z)) - 1) > 1e-6 for z in pts_):
                        bad = bad or f"order {M}: a point has modulus {abs(complex(next(z for z in pts_ if abs(abs(complex(z)) - 1) > 1e-6))):.4g} (PSK-type points have unit energy by definition)"
                        continue
                    ang = sorted(_cm.phase(complex(z)) % (2 * _cm.pi) for z in pts_)
                    gaps = [b_ - a_ for a_, b_ in zip(ang, ang[1:])] + [ang[0] + 2 * _cm.pi - ang[-1]]
                    if any(abs(g_ - 2 * _cm.pi / M) > 1e-6 for g_ in gaps):
                        distinct = len({round(a_, 6) for a_ in ang} | ({0.0} if any(abs(a_ - 2 * _cm.pi) < 1e-6 for a_ in ang) else set()))
                        bad = bad or f"order {M}: the points are not {M} distinct points 2 pi / {M} apart on the unit circle ({distinct} distinct angles, gaps {[round(g_, 3) for g_ in gaps[:4]]}...)"
            n += 1
            what = f"{cname}(gray_coding={gray}): geometry of the evaluated point table"
            if bad:
                rep.violation("GENERATED-TABLE", fi, what, bad + " - the constellation must consist of 2^b distinct points, and the nearest neighbours of a point must be its neighbours in the physical order", node=fi.node)
            elif seen:
                rep.ok("GENERATED-TABLE", fi, what, f"{'equidistant levels' if not cyclic else 'unit modulus, 2 pi / M apart'}: 2^b distinct points for {seen} of the orders {orders}", node=fi.node)
            else:
                rep.ok("GENERATED-TABLE", fi, what, "constructor not evaluable: geometry left to the label rules", node=fi.node, nontrivial=False)
    # QAM: per-axis Gray
    ci = repo.cls(f"{MD}/qam.py", "QAMModulator")
    fi = repo.method(ci, "_create_constellation")
    inl = Inliner(fi, allow_loop_defs=True)
    set_ok = True
    loops = [s for s in stmts_of(fi.body) if isinstance(s, ast.For)]
    # constellation construction: real part indexed by the outer variable, imaginary by the inner
    cons = [s for s in stmts_of(fi.body) if isinstance(s, ast.Assign) and unparse(s.targets[0]) in ("real_parts", "imag_parts") and isinstance(s.value, ast.Call)]
    r_ok = any(unparse(s.targets[0]) == "real_parts" and "base_levels[i]" in unparse(s.value) for s in cons)
    i_ok = any(unparse(s.targets[0]) == "imag_parts" and "base_levels[j]" in unparse(s.value) for s in cons)
    if not (r_ok and i_ok) or not _qam_label_shape_listed(fi):
        done = qam_by_evaluation(repo, rep, fi)
        if done:
            return n + done
    rep.shape(r_ok and i_ok, False, "GENERATED-TABLE", fi, "QAM grid: real = base_levels[i], imag = base_levels[j] for i (outer), j (inner)", "index i*k + j sits at (level i, level j)", "the grid construction changed: index -> position map unknown")
    n += 1
    bl = [s for s in stmts_of(fi.body) if isinstance(s, ast.Assign) and unparse(s.targets[0]) == "base_levels"]
    for s in bl:
        st, d, _ = classify(s.value, ["torch.arange(-(k - 1), k, 2, dtype=torch.float)", "torch.arange(-(k - 1), k, 2)"])
        rep.add("GENERATED-TABLE", fi, f"QAM levels: {unparse(s)}", st, d or "equidistant ascending levels -(k-1) .. (k-1)", node=s)
        n += 1
    # label statement under gray: bits_i from binary_to_gray(i), bits_j from binary_to_gray(j), idx = i * k + j, concatenated i then j
    gi = [s for s in stmts_of(fi.body) if isinstance(s, ast.Assign) and unparse(s.targets[0]) in ("i_gray", "j_gray")]
    gmap = {unparse(s.targets[0]): s.value for s in gi}
    okg = set(gmap) == {"i_gray", "j_gray"}
    idx = [s for s in stmts_of(fi.body) if isinstance(s, ast.Assign) and unparse(s.targets[0]) == "idx"]
    okidx = len(idx) == 1 and classify(idx[0].value, ["i * k + j"])[0] == OK
    fm = [s for s in stmts_of(fi.body) if isinstance(s, ast.Assign) and unparse(s.targets[0]) in ("bits_i", "bits_j")]
    okfm = {unparse(s.targets[0]): unparse(s.value.args[0]) for s in fm if isinstance(s.value, ast.Call) and s.value.args} == {"bits_i": "i_gray", "bits_j": "j_gray"}
    cat = [s for s in stmts_of(fi.body) if isinstance(s, ast.For) and "bits_i + bits_j" in unparse(s.iter)]
    ok = okg and okidx and okfm and len(cat) == 1
    if ok:
        fi_ = int_fun(gmap["i_gray"], "i")
        fj_ = int_fun(gmap["j_gray"], "j")
        bad = []
        try:
            for kk in (2, 4, 8, 16):
                for nm, f in (("real", fi_), ("imaginary", fj_)):
                    seq = [f(t) for t in range(kk)]
                    if sorted(seq) != list(range(kk)):
                        bad.append(f"k={kk}: {nm}-axis labels {seq[:6]} are not a bijection")
                    elif kk > 2 and not gray_sequence_ok(seq, False):
                        bad.append(f"k={kk}: {nm}-axis labels {[format(x, 'b') for x in seq[:6]]} are not Gray along the axis")
            rep.check(not bad, "GENERATED-TABLE", fi, f"QAM(gray_coding=True): label of (i, j) = {unparse(gmap['i_gray'])} || {unparse(gmap['j_gray'])} at index i*k + j", "per-axis Gray labels: grid neighbours differ in exactly one bit for k = 2, 4, 8, 16", bad[0] if bad else "")
        except Unfoldable as exc:
            rep.undecided("GENERATED-TABLE", fi, "QAM(gray_coding=True) per-axis label maps", f"not evaluable ({exc})")
    else:
        rep.undecided("GENERATED-TABLE", fi, "QAM(gray_coding=True) label construction", f"shape not recognised (gray maps {okg}, index {okidx}, formats {okfm}, concatenation {len(cat)})")
    n += 1
    g, node = label_generator(fi, {"self.gray_coding": False})
    if g is None:
        rep.undecided("GENERATED-TABLE", fi, "QAM(gray_coding=False) label construction", "shape not recognised and the constructor is not evaluable")
        return n + 1
    rep.check(g == "id", "GENERATED-TABLE", fi, f"QAM(gray_coding=False): label of index i = binary({g if isinstance(g, str) else unparse(g[1])})", "natural binary labels: a bijection", "non-Gray QAM labels are not binary(i)", node=node)
    n += 1
    return n


def position_permutation(fi: FuncInfo, atoms: Dict[str, bool]) -> Optional[str]:
    """'id' if point i sits at physical position i; 'gray' if the levels/angles are re-indexed by the Gray map; None = unknown."""
    dec = cfgd(atoms)
    perm = "id"

    def walk(body):
        nonlocal perm
        for st in body:
            if isinstance(st, ast.If):
                d = dec(st.test)
                if d is not False:
                    walk(st.body)
                if d is not True:
                    walk(st.orelse)
            elif isinstance(st, ast.Assign) and isinstance(st.targets[0], ast.Name) and st.targets[0].id in ("levels", "angles", "constellation") and isinstance(st.value, ast.Subscript) and isinstance(st.value.value, ast.Name) and st.value.value.id == st.targets[0].id:
                # levels = levels[indices]
                idx = st.value.slice
                if isinstance(idx, ast.Name):
                    defs = [s2.value for s2 in stmts_of(fi.body) if isinstance(s2, ast.Assign) and isinstance(s2.targets[0], ast.Name) and s2.targets[0].id == idx.id]
                    if len(defs) == 1 and ("binary_to_gray(i)" in unparse(defs[0]) or "i ^ i >> 1" in unparse(defs[0])) and "range(self.order)" in unparse(defs[0]):
                        perm = "gray" if perm == "id" else None
                        continue
                perm = None

    walk(fi.body)
    return perm


def rule_normalise(repo: Repo, rep: Report) -> int:
    n = 0
    for file, cname, var in ((f"{MD}/qam.py", "QAMModulator", "constellation"), (f"{MD}/pam.py", "PAMModulator", "levels")):
        fi = repo.func(file, f"{cname}._create_constellation")
        blocks = [s for s in stmts_of(fi.body) if isinstance(s, ast.If) and unparse(s.test) == "self.normalize"]
        # first choice, independent of how the locals are called: the REGISTERED point table, from running the constructor
        # with normalize set, has unit average energy for every order (and is not rescaled when normalize is off)
        ci_ = repo.cls(file, cname)
        reg_verdict = None
        try:
            for M in ((2, 4, 8, 16, 32, 64) if var == "levels" else (4, 16, 64)):
                b_ = M.bit_length() - 1
                for gray_ in (True, False):
                    at_ = {"self.order": M, "self._bits_per_symbol": b_, "self.gray_coding": gray_, "self.normalize": True, "self._k": int(round(M**0.5))}
                    consts_ = {}
                    for st_ in fi.module.tree.body:
                        if isinstance(st_, ast.Assign) and len(st_.targets) == 1 and isinstance(st_.targets[0], ast.Name):
                            try:
                                consts_[st_.targets[0].id] = Folder({}, {}).fold(st_.value)
                            except Unfoldable:
                                pass
                    funcs_ = {nm_: f_.node for nm_, f_ in repo.module(UT).functions.items()}
                    funcs_.update({nm_: f_.node for nm_, f_ in fi.module.functions.items()})
                    bufs_ = run_buffers(fi, {}, at_, funcs=funcs_, consts=consts_, max_steps=900000)
                    tab_ = bufs_.get("constellation")
                    if not (isinstance(tab_, list) and len(tab_) == M and all(isinstance(z, (int, float, complex)) for z in tab_)):
                        raise Unfoldable("registered table not produced")
                    e_ = sum(abs(z) ** 2 for z in tab_) / len(tab_)
                    if abs(e_ - 1.0) > 1e-9:
                        reg_verdict = f"{cname}(order={M}, gray_coding={gray_}, normalize=True): the registered constellation has average energy {e_:.6g} instead of 1"
                        break
                if reg_verdict:
                    break
            else:
                reg_verdict = "ok"
        except (Unfoldable, AnalysisError, TypeError, ValueError, IndexError, KeyError, RecursionError):
            reg_verdict = None
        if reg_verdict == "ok":
            rep.ok("NORMALISE", fi, f"{cname}: registered constellation evaluated with normalize=True for every order and both labelings", "unit average energy", node=fi.node)
            n += 1
            continue
        if reg_verdict is not None:
            rep.violation("NORMALISE", fi, f"{cname}: registered constellation evaluated with normalize=True", reg_verdict, node=fi.node)
            n += 1
            continue
        ok = False
        detail = "no `if self.normalize:` block"
        if len(blocks) == 1 and blocks[0] in fi.body:
            inl_vals = {}
            for s in blocks[0].body:
                if isinstance(s, ast.Assign):
                    inl_vals[unparse(s.targets[0])] = s.value
            tgt = inl_vals.get(var)
            en = inl_vals.get("energy")
            if tgt is not None and en is not None:
                s1, _, _ = classify(tgt, [f"{var} / torch.sqrt(energy)", f"{var} / energy ** 0.5", f"{var} / energy.sqrt()"])
                s2, _, _ = classify(en, [f"torch.mean(torch.abs({var}) ** 2)", f"torch.mean({var} ** 2)", f"({var} ** 2).mean()", f"torch.mean(torch.abs({var}) ** 2.0)"])
                ok = s1 == OK and s2 == OK
                detail = f"{var} = {unparse(tgt)}; energy = {unparse(en)}"
        elif len(blocks) == 1:
            detail = "the normalisation block is nested under another condition: it does not run for every configuration"
        wrong_n = len(blocks) == 1 and blocks[0] not in fi.body
        if not ok and len(blocks) == 1 and blocks[0] in fi.body:
            # first choice: run the whole constructor (module-level constants visible) for every order with normalize set and
            # measure the table it stores
            from ..frag import FragRaise, FragReturn, run_fragment

            consts = {st_.targets[0].id: st_.value for st_ in fi.module.tree.body if isinstance(st_, ast.Assign) and len(st_.targets) == 1 and isinstance(st_.targets[0], ast.Name)}
            whole = None
            try:
                for M in ((2, 4, 8, 16, 32, 64) if var == "levels" else (4, 16, 64)):
                    b_ = M.bit_length() - 1
                    attrs_ = {"self.order": M, "self._bits_per_symbol": b_, "self.gray_coding": True, "self.normalize": True, "self._k": int(round(M**0.5))}
                    env_ = run_fragment(fi.body, dict(consts), attrs_, max_steps=900000, materialise=True, funcs={"binary_to_gray": repo.func(UT, "binary_to_gray").node})
                    tab = env_.get(var)
                    if not (isinstance(tab, list) and len(tab) == M):
                        raise Unfoldable("table not produced")
                    e_ = sum(abs(z) ** 2 for z in tab) / len(tab)
                    if abs(e_ - 1.0) > 1e-9:
                        whole = f"for order {M} the stored table has average energy {e_:.6g} instead of 1"
                        break
                else:
                    whole = "ok"
            except (Unfoldable, FragRaise, FragReturn, TypeError, ValueError, IndexError):
                whole = None
            if whole == "ok":
                ok = True
                detail += " (unlisted shape; constructor evaluated for every order: unit average energy)"
            elif whole is not None:
                wrong_n = True
                detail += "; " + whole
        if not ok and not wrong_n and len(blocks) == 1 and blocks[0] in fi.body:
            # semantic evaluation: after the block the sample constellation must have unit average energy

            try:
                for sample in ([1.0, -3.0, 3.0, -1.0], [complex(1, 1), complex(-3, 1), complex(3, -3), complex(-1, 3)] if var == "constellation" else [-7.0, -5.0, 5.0, 7.0]):
                    env_ = run_fragment(blocks[0].body, {var: list(sample)})
                    out_ = env_.get(var)
                    e_ = sum(abs(z) ** 2 for z in out_) / len(out_)
                    if abs(e_ - 1.0) > 1e-9:
                        wrong_n = True
                        detail += f"; for the points {sample} the block leaves average energy {e_:.4g}"
                        break
                else:
                    ok = True
                    detail += " (unlisted shape; evaluated: unit average energy on two sample tables)"
            except Exception as exc:  # not evaluable with literal arithmetic
                detail += f" (not evaluable: {exc})"
        rep.shape(ok, wrong_n, "NORMALISE", fi, f"{cname}: {detail}", "division by sqrt(mean |c|^2) whenever normalize is set: unit average energy", "normalisation is not `c / sqrt(mean |c|^2)` under `if self.normalize` at the top level of the constructor", node=blocks[0] if blocks else fi.node)
        n += 1
    return n


def rule_gray_utils(repo: Repo, rep: Report) -> int:
    n = 0
    fi = repo.func(UT, "binary_to_gray")
    for r in returns_of(fi.node):
        s, d, _ = classify(r.value, ["num ^ (num >> 1)", "num ^ (num // 2)"], int_context=True)
        if s != OK:
            try:
                const_value(r.value)
                s, d = VIOLATION, "a literal is returned for a particular input: the map is no longer n ^ (n >> 1) on that input"
            except ValueError:
                pass
        rep.add("GRAY-UTIL", fi, f"binary_to_gray: {unparse(r)}", s, d or "n ^ (n >> 1)", node=r)
        n += 1
    fi = repo.func(UT, "gray_to_binary")
    loops = [s for s in stmts_of(fi.body) if isinstance(s, ast.While)]
    if len(loops) == 1:
        w = loops[0]
        s1, d1, _ = classify(w.test, ["mask > 0", "mask", "mask != 0"])
        body = [x for x in w.body if isinstance(x, (ast.AugAssign, ast.Assign))]
        forms = {"mask": ["mask = mask >> 1"], "result": ["result = result ^ mask"]}
        okb = len(body) == 2
        if okb:
            t0 = unparse(body[0].target if isinstance(body[0], ast.AugAssign) else body[0].targets[0])
            t1 = unparse(body[1].target if isinstance(body[1], ast.AugAssign) else body[1].targets[0])
            okb = (t0, t1) == ("mask", "result") and classify(body[0], forms["mask"], int_context=True)[0] == OK and classify(body[1], forms["result"], int_context=True)[0] == OK
        inits = {unparse(s.targets[0]): unparse(s.value) for s in fi.body if isinstance(s, ast.Assign)}
        oki = inits.get("mask") == "num" and inits.get("result") == "num"
        rep.shape(s1 == OK and okb and oki, s1 == VIOLATION, "GRAY-UTIL", fi, f"gray_to_binary: while {unparse(w.test)}: {'; '.join(unparse(x) for x in body)}", "full prefix-XOR: result = g ^ (g>>1) ^ (g>>2) ^ ... until the shifted word is 0 (valid for every word length)", "the inverse Gray map is not the unbounded prefix-XOR loop", node=w)
    else:
        shifts = [unparse(x) for x in ast.walk(fi.node) if isinstance(x, ast.BinOp) and isinstance(x.op, ast.RShift)]
        if shifts and not loops:
            rep.violation("GRAY-UTIL", fi, f"gray_to_binary uses a fixed set of shifts {shifts[:6]}", "a log-step prefix XOR with a fixed set of shifts is the inverse only below 2^(2*largest shift): the utilities must be inverse bijections on all non-negative integers")
        else:
            rep.undecided("GRAY-UTIL", fi, "gray_to_binary", f"{len(loops)} while-loops")
    n += 1
    for r in returns_of(fi.node):
        try:
            const_value(r.value)
            rep.violation("GRAY-UTIL", fi, f"gray_to_binary: {unparse(r)}", "a literal is returned for a particular input", node=r)
            n += 1
        except ValueError:
            pass
    for fname, scalar in (("binary_array_to_gray", "binary_to_gray"), ("gray_array_to_binary", "gray_to_binary")):
        fi = repo.func(UT, fname)
        calls = [c for c in ast.walk(fi.node) if isinstance(c, ast.Call) and call_name(c) in ("binary_to_gray", "gray_to_binary")]
        ok = len(calls) == 1 and call_name(calls[0]) == scalar
        loops = [s for s in stmts_of(fi.body) if isinstance(s, ast.For)]
        okl = len(loops) == 1 and match(loops[0], f"for _I, _N in enumerate(_T):\n    _O[_I] = {scalar}(int(_N))") is not None
        if not (ok and okl) and not calls:
            array_gray_evaluated(rep, fi, fname, scalar)
        else:
            rep.shape(ok and okl, bool(calls) and any(call_name(c_) != scalar for c_ in calls), "GRAY-UTIL", fi, f"{fname}: elementwise {call_name(calls[0]) if calls else '?'}", "array form = scalar form applied to every element, in place order", f"{fname} is not the elementwise application of {scalar}", node=loops[0] if loops else fi.node)
        n += 1
    for fname in ("binary_to_gray", "gray_to_binary"):
        lint_value_keyed(rep, repo.func(UT, fname), rule="G1", allowed_literals={0, 1, -1})
        n += 1
    return n


TABLE_NAMES = ("constellation", "bit_patterns", "levels", "qpsk", "qpsk_rotated", "bit_to_symbol_map")
#: operations that return a view of (share storage with) their receiver
VIEW_ATTRS = ("real", "imag", "T", "mT", "data", "H")
VIEW_METHODS = ("view", "view_as", "reshape", "detach", "squeeze", "unsqueeze", "t", "transpose", "permute", "flatten", "narrow", "expand", "expand_as", "select", "unbind", "chunk", "split", "diagonal", "contiguous", "view_as_real", "view_as_complex", "conj", "requires_grad_")


def _view_root(e: ast.AST, local_defs: Dict[str, ast.AST], depth: int = 0) -> Optional[str]:
    """`self.<attr>` whose storage the expression shares (basic indexing, .real/.imag, view methods), else None."""
    while True:
        if isinstance(e, ast.Attribute) and e.attr in VIEW_ATTRS:
            e = e.value
        elif isinstance(e, ast.Subscript):
            idx = e.slice.elts if isinstance(e.slice, ast.Tuple) else [e.slice]
            # advanced indexing (a list / tensor of positions, a mask) copies; integers, slices, None and ... give views
            if not all(isinstance(i, ast.Slice) or (isinstance(i, ast.Constant) and (i.value is None or i.value is Ellipsis or (isinstance(i.value, int) and not isinstance(i.value, bool)))) or (isinstance(i, ast.UnaryOp) and isinstance(i.operand, ast.Constant)) for i in idx):
                return None
            e = e.value
        elif isinstance(e, ast.Call) and isinstance(e.func, ast.Attribute) and e.func.attr in VIEW_METHODS:
            e = e.func.value
        elif isinstance(e, ast.Call) and (call_name(e) or "") in ("torch.view_as_real", "torch.view_as_complex", "torch.real", "torch.imag", "torch.squeeze", "torch.unsqueeze", "torch.transpose", "torch.t") and e.args:
            e = e.args[0]
        else:
            break
    ch = attr_chain(e) if isinstance(e, ast.Attribute) else None
    if ch is not None and ch.startswith("self.") and ch.count(".") == 1:
        return ch
    if isinstance(e, ast.Name) and e.id in local_defs and depth < 4:
        return _view_root(local_defs[e.id], local_defs, depth + 1) or f"local:{e.id}"
    return None


def rule_table_alias(repo: Repo, rep: Report) -> int:
    """The published tables of a (de)modulator are written only while they are built: no method stores into a table in
    place, and no other attribute that shares storage with a table (a view: `.imag[0]`, a slice, the same tensor
    registered twice) is written in place anywhere in the class."""
    n = 0
    for mi in repo.modules.values():
        if not mi.relpath.startswith("kaira/modulations/"):
            continue
        for ci in mi.classes.values():
            regs = [(c.args[0].value, c.args[1], m_) for m_ in ci.methods.values() for c in ast.walk(m_.node) if isinstance(c, ast.Call) and attr_chain(c.func) == "self.register_buffer" and len(c.args) >= 2 and isinstance(c.args[0], ast.Constant)]
            tables = {nm for nm, _, _ in regs if nm in TABLE_NAMES}
            if not tables:
                continue
            n += 1
            # storage groups: attribute -> root it shares storage with
            shares: Dict[str, str] = {}
            for m_ in ci.methods.values():
                local_defs = {s_.targets[0].id: s_.value for s_ in ast.walk(m_.node) if isinstance(s_, ast.Assign) and len(s_.targets) == 1 and isinstance(s_.targets[0], ast.Name)}
                defs = [(c.args[0].value, c.args[1]) for c in ast.walk(m_.node) if isinstance(c, ast.Call) and attr_chain(c.func) == "self.register_buffer" and len(c.args) >= 2 and isinstance(c.args[0], ast.Constant)]
                defs += [(attr_chain(s_.targets[0])[5:], s_.value) for s_ in ast.walk(m_.node) if isinstance(s_, ast.Assign) and len(s_.targets) == 1 and isinstance(s_.targets[0], ast.Attribute) and (attr_chain(s_.targets[0]) or "").startswith("self.") and (attr_chain(s_.targets[0]) or "").count(".") == 1]
                for nm, expr in defs:
                    root = _view_root(expr, local_defs)
                    if root is not None and root != f"self.{nm}":
                        shares[nm] = root
            groups: Dict[str, set] = {}
            for nm, root in shares.items():
                groups.setdefault(root, set()).add(nm)
            tainted = set()  # attributes sharing storage with a table
            for root, members in groups.items():
                names_ = set(members) | ({root[5:]} if root.startswith("self.") else set())
                if names_ & tables:
                    tainted |= names_
            tainted |= tables
            bad = []
            for m_ in ci.methods.values():
                building = m_.name in ("__init__", "_create_constellation") or m_.name.startswith("_create") or m_.name.startswith("_build")
                for s_ in ast.walk(m_.node):
                    tgt = None
                    how = ""
                    if isinstance(s_, ast.Call) and isinstance(s_.func, ast.Attribute) and s_.func.attr.endswith("_") and not s_.func.attr.startswith("_") and s_.func.attr not in ("requires_grad_",):
                        tgt, how = s_.func.value, f".{s_.func.attr}()"
                    elif isinstance(s_, ast.Assign) and any(isinstance(t_, ast.Subscript) for t_ in s_.targets):
                        tgt, how = next(t_ for t_ in s_.targets if isinstance(t_, ast.Subscript)), "subscript store"
                    elif isinstance(s_, ast.AugAssign):
                        tgt, how = s_.target, "augmented assignment"
                    if tgt is None:
                        continue
                    root = _view_root(tgt, {}) if not (isinstance(tgt, ast.Attribute) and attr_chain(tgt) and attr_chain(tgt).count(".") == 1) else attr_chain(tgt)
                    if root is None or not root.startswith("self."):
                        continue
                    nm = root[5:]
                    if nm in tainted and not (building and nm in tables and nm not in shares):
                        what = f"table `{nm}`" if nm in tables else f"`{nm}`, which shares its storage with the table `{shares.get(nm, '?')[5:] if shares.get(nm, '').startswith('self.') else next(iter(tables & tainted))}`"
                        bad.append((m_, s_, f"{m_.name}: {how} on {what}"))
            if bad:
                for m_, s_, txt in bad[:3]:
                    rep.violation("TABLE-ALIAS", m_, f"{ci.name}: {txt}", "the published constellation / label table is modified after construction (through an in-place write to the table or to a view of it): the points no longer have the documented geometry or energy, and modulator and demodulator tables drift apart", node=s_)
            else:
                rep.ok("TABLE-ALIAS", f"{mi.relpath}::{ci.name}", f"{ci.name}: tables {sorted(tables)}" + (f", sharing storage: {sorted(tainted - tables)}" if tainted - tables else ""), "no in-place write to a table or to an attribute sharing its storage outside the construction")
    return n


def run(repo: Repo, rep: Report, tier: str) -> None:
    n = rule_literal_tables(repo, rep)
    n += rule_table_alias(repo, rep)
    n += rule_generated(repo, rep)
    n += rule_normalise(repo, rep)
    n += rule_gray_utils(repo, rep)
    # the tables of one modulator are its own: a table memoised across instances (module / class level) must be keyed
    # by everything that determines it and must not hand out shared storage
    from .c15 import registered
    from .c20 import rule_cache_key

    n += rule_cache_key(repo, rep, registered(repo, "register_modulator"))
    rep.floor("C14 rule instances", n, 45)
    rep.decided_clauses += [
        "literal constellations: distinct points, bijective labels, unit energy, Gray adjacency where promised",
        "generated constellations: bijective labels for every supported order; Gray along physical neighbours (composition of label generator and position permutation)",
        "normalisation by sqrt(mean |c|^2) for every configuration with normalize set",
        "Gray utilities: closed forms valid for all non-negative integers, array forms elementwise, no special cases",
    ]
    rep.undecided_clauses += ["custom user-supplied constellations"]
