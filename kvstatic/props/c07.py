"""C07 - additive-noise channels deliver the configured noise power / SNR (scaling-law analysis)."""
from __future__ import annotations

import ast
from fractions import Fraction
from typing import Dict, List, Optional

from ..astutil import Inliner, attr_chain, call_name, match, returns_of, stmts_of
from ..closedform import classify
from ..core import OK, UNDECIDED, VIOLATION, AnalysisError, FuncInfo, Repo, Report, unparse
from ..scaling import NONE_V, ONE, Mono, SV, Scaling, unk
from .c15 import tv_eval

EXPLANATION = (
    "Scaling-law abstract interpretation (values are exact monomials c*prod(sym^q) tagged signal / deterministic / zero-mean random with a variance) of the noise-adding "
    "code paths: _apply_noise, AWGNChannel.forward, LaplacianChannel.forward, NonlinearChannel.forward, the noise stage of FlatFadingChannel.forward, add_noise_for_snr. "
    "VARIANCE-LAW: on the real branch Var(noise) = P, on the complex branch Var(re)+Var(im) = P, the signal passes with factor 1, noise is added once. SNR-LAW: with snr_db "
    "the variance is mean|x|^2 / 10^(snr_db/10) (through snr_to_noise_power -> snr_db_to_linear, analysed in context). OVERRIDE: a caller-supplied noise tensor is added verbatim. "
    "DB-KIND: every dB conversion in utils/snr.py, metrics/signal/snr.py, benchmarks/metrics.py is 10*log10(signal power / noise power) resp. 10**(dB/10) (one definition of SNR). "
    "LAPLACE-UNIT: the inverse-CDF sampler has the unit-scale form whose variance is 2. Decides the laws as exact algebra over all parameter values; "
    "distribution shape, independence and finite-sample statistics are not decided."
)

AN = "kaira/channels/analog.py"
SNRU = "kaira/utils/snr.py"
SNRM = "kaira/metrics/signal/snr.py"
BM = "kaira/benchmarks/metrics.py"

E = lambda src="x": Mono.sym(f"E[{src}]")
N = Mono.sym("N")
P = Mono.sym("P")


def L(name: str, q=1) -> Mono:
    return Mono.sym(f"L({name})", q)


def cfg(atoms):
    return lambda test, env: tv_eval(test, atoms)


def expect_out(rep: Report, rule: str, fi: FuncInfo, what: str, v: Optional[SV], sig_factor: Mono, var: Optional[Mono], interp: Optional[Scaling] = None, node=None) -> None:
    construct = f"{what}: {v.show() if isinstance(v, SV) else v}"
    if not isinstance(v, SV) or v.kind == "unk":
        rep.undecided(rule, fi, construct, f"could not derive the law ({v.why if isinstance(v, SV) else 'no value'})", node=node)
        return
    if interp is not None and interp.definite:
        rep.violation(rule, fi, construct, interp.definite[0], node=node)
        return
    if v.kind != "out":
        rep.violation(rule, fi, construct, f"the result is not `signal + zero-mean noise` (expected factor {sig_factor.show()}, variance {var.show() if var else 'external'})", node=node)
        return
    if v.m != sig_factor:
        rep.violation(rule, fi, construct, f"the signal passes with factor {v.m.show()} instead of {sig_factor.show()}", node=node)
        return
    if var is None:
        verbatim = v.var is None and (v.tag or "").startswith("plus:") and (v.tag or "").endswith("*1")
        rep.check(verbatim, rule, fi, construct + f" [{v.tag}]", "external noise added verbatim", "the supplied noise is not added exactly once, unscaled, with nothing else", node=node)
        return
    if v.var is None:
        rep.violation(rule, fi, construct, f"no generated noise found; expected variance {var.show()}", node=node)
    elif v.var == var:
        rep.ok(rule, fi, construct, f"signal factor 1, total noise variance {var.show()}", node=node)
    else:
        ratio = (v.var / var)
        rep.violation(rule, fi, construct, f"total noise variance is {v.var.show()} but the configured law is {var.show()} (ratio {ratio.show()})", node=node)


def run_fn(repo, fi, env, atoms, attr_values=None, models=None, allow_floor=False, complex_input=False):
    it = Scaling(fi, repo, config=cfg(atoms), attr_values=attr_values or {}, method_models=models or {})
    it.allow_floor = allow_floor
    it.complex_input = complex_input or any(k.startswith("torch.is_complex(") and v is True for k, v in atoms.items())
    full = {p: NONE_V for p in fi.params if p != "self"}
    full.update(env)
    it.run(full)
    out = None
    for v, r, _ in it.returns:
        if v is not None:
            out = v if out is None else it.join(out, v)
    return out, it


SIG = SV("sig", ONE)
DBP = lambda name: SV("dbp", tag=name)


def rule_apply_noise(repo: Repo, rep: Report) -> int:
    fi = repo.func(AN, "_apply_noise")
    n = 0
    for cplx in (False, True):
        base = {"torch.is_complex(x)": cplx}
        v, it = run_fn(repo, fi, {"x": SIG, "noise_power": SV("det", P), "snr_db": NONE_V}, dict(base, **{"snr_db is not None": False, "noise_power is None": False}))
        expect_out(rep, "VARIANCE-LAW", fi, f"_apply_noise(noise_power=P), {'complex' if cplx else 'real'} input", v, ONE, P, it, fi.node)
        v, it = run_fn(repo, fi, {"x": SIG, "noise_power": NONE_V, "snr_db": DBP("snr_db")}, dict(base, **{"snr_db is not None": True, "noise_power is None": False}))
        expect_out(rep, "SNR-LAW", fi, f"_apply_noise(snr_db), {'complex' if cplx else 'real'} input", v, ONE, E() / N / L("snr_db"), it, fi.node)
        n += 2
    return n


def rule_awgn(repo: Repo, rep: Report) -> int:
    fi = repo.func(AN, "AWGNChannel.forward")
    n = 0
    # override: noise given
    v, it = run_fn(repo, fi, {"x": SIG, "noise": SV("ext", tag="noise"), "csi": NONE_V}, {"noise is not None": True, "noise is None": False})
    expect_out(rep, "OVERRIDE", fi, "AWGNChannel.forward(noise=n)", v, ONE, None, it, fi.node)
    n += 1
    for cplx in (False, True):
        for mode in ("power", "snr"):
            atoms = {"noise is not None": False, "noise is None": True, "torch.is_complex(x)": cplx, "snr_db is not None": mode == "snr", "noise_power is None": False}
            attrs = {"self.avg_noise_power": SV("det", P) if mode == "power" else NONE_V, "self.snr_db": DBP("snr_db") if mode == "snr" else NONE_V}
            v, it = run_fn(repo, fi, {"x": SIG}, atoms, attrs)
            expect_out(rep, "VARIANCE-LAW" if mode == "power" else "SNR-LAW", fi, f"AWGNChannel.forward ({mode}, {'complex' if cplx else 'real'})", v, ONE, P if mode == "power" else E() / N / L("snr_db"), it, fi.node)
            n += 1
    # constructor stores the parameters it was given
    init = repo.func(AN, "AWGNChannel.__init__")
    for attr, par in (("self.snr_db", "snr_db"), ("self.avg_noise_power", "avg_noise_power")):
        asg = [s for s in stmts_of(init.body) if isinstance(s, ast.Assign) and attr_chain(s.targets[0]) == attr and not (isinstance(s.value, ast.Constant) and s.value.value is None)]
        ok = len(asg) == 1 and isinstance(asg[0].value, ast.Name) and asg[0].value.id == par
        rep.shape(ok, len(asg) == 1 and (isinstance(asg[0].value, (ast.BinOp, ast.Constant)) or (isinstance(asg[0].value, ast.Name) and asg[0].value.id != par)), "PARAM", init, f"{attr} = {unparse(asg[0].value) if asg else '?'}", "configured value stored unchanged", f"{attr} is not the constructor argument `{par}`", node=asg[0] if asg else init.node)
        n += 1
    return n


def laplace_sampler_evaluated(sm: FuncInfo):
    """_get_laplacian_noise as a function of its uniform draw u, evaluated (own arithmetic) on a grid of u in (0, 1): it must
    be sign(u - 1/2) * -ln(1 - 2|u - 1/2|), the inverse CDF of the unit-scale Laplacian; the cap of the magnitude near
    u -> 0, 1 is read off at the ends.  Returns (OK | VIOLATION | None, detail, cap c of 2|u - 1/2| or None)."""
    import math

    from ..constfold import PySeq, Unfoldable
    from ..frag import FragRaise, FragReturn, run_fragment

    grid = [k / 40 for k in range(1, 40)] + [0.5 + 1e-3, 0.5 - 1e-3]
    ends = [1e-12, 1.0 - 1e-12]
    draws = {"n": 0}

    def rand(*a, **k):
        draws["n"] += 1
        return list(grid + ends)

    params = {p_: None for p_ in sm.params if p_ != "self"}
    params.update({"shape": PySeq([len(grid) + 2]), "device": "cpu"})
    try:
        run_fragment(sm.body, params, {}, ctors={"torch.rand": rand}, max_steps=100000, materialise=True)
        return None, "no value returned", None
    except FragReturn as ret:
        out = ret.value
    except (Unfoldable, FragRaise, TypeError, ValueError, ZeroDivisionError) as exc:
        return None, str(exc), None
    if draws["n"] != 1:
        return None, f"{draws['n']} uniform draws", None
    if not (isinstance(out, list) and len(out) == len(grid) + 2 and all(isinstance(v, (int, float)) and not isinstance(v, bool) for v in out)):
        return None, "the sampler does not return one real number per draw", None
    for u, got in zip(grid, out):
        want = math.copysign(1.0, u - 0.5) * -math.log(1 - 2 * abs(u - 0.5)) if u != 0.5 else 0.0
        if abs(got - want) > 1e-9 * max(1.0, abs(want)):
            return VIOLATION, f"for the uniform draw u = {u} the sampler returns {got!r}; the inverse CDF of the unit-scale Laplacian gives sign(u - 1/2) * -ln(1 - 2|u - 1/2|) = {want!r}: the samples are not Laplacian with variance 2, so every Laplacian configuration delivers another noise power than configured", None
    tmax = min(abs(out[-2]), abs(out[-1]))
    cap = 1.0 - math.exp(-tmax) if tmax < 27 else None
    return OK, f"equals sign(u - 1/2) * -ln(1 - 2|u - 1/2|) on {len(grid)} draws (one uniform draw feeds sign and magnitude)", cap


def rule_laplacian(repo: Repo, rep: Report) -> int:
    fi = repo.func(AN, "LaplacianChannel.forward")
    n = 0
    models = {"self._get_laplacian_noise": SV("rnd", Mono.const(2))}
    for cplx in (False, True):
        for mode in ("scale", "power", "snr"):
            atoms = {"torch.is_complex(x)": cplx, "self.snr_db is not None": mode == "snr", "self.avg_noise_power is not None": mode == "power", "self.scale is not None": mode == "scale"}
            attrs = {"self.scale": SV("det", Mono.sym("scale")) if mode == "scale" else NONE_V, "self.avg_noise_power": SV("det", P) if mode == "power" else NONE_V, "self.snr_db": DBP("snr_db") if mode == "snr" else NONE_V}
            v, it = run_fn(repo, fi, {"x": SIG}, atoms, attrs, models)
            want = {"scale": Mono.const(2) * Mono.sym("scale", 2), "power": P, "snr": E() / N / L("snr_db")}[mode]
            expect_out(rep, "VARIANCE-LAW" if mode != "snr" else "SNR-LAW", fi, f"LaplacianChannel.forward ({mode}, {'complex' if cplx else 'real'})", v, ONE, want, it, fi.node)
            n += 1
    # the sampler: unit-scale Laplace by inverse CDF: sign(u-1/2) * -log(1 - 2|u-1/2|)
    sm = repo.func(AN, "LaplacianChannel._get_laplacian_noise")
    rets = returns_of(sm.node)
    inl = Inliner(sm)
    for r in rets:
        e = inl.inline(r.value)
        s, d, b = classify(
            e,
            [
                "torch.sign(torch.rand(shape, device=device) - 0.5) * -torch.log(1 - torch.clamp(2 * torch.abs(torch.rand(shape, device=device) - 0.5), max=_EPSMAX))",
                "torch.sign(torch.rand(shape, device=device) - 0.5) * -torch.log1p(-torch.clamp(2 * torch.abs(torch.rand(shape, device=device) - 0.5), max=_EPSMAX))",
                "torch.sign(torch.rand(shape, device=device) - 0.5) * -torch.log(1 - 2 * torch.abs(torch.rand(shape, device=device) - 0.5))",
                "torch.sign(torch.rand(shape, device=device) - 0.5) * -torch.log1p(-(2 * torch.abs(torch.rand(shape, device=device) - 0.5)))",
            ],
        )
        if s != OK:
            # another spelling of the inverse CDF: the sampler is evaluated as a function of its one uniform draw on a grid
            es, ed, ecap = laplace_sampler_evaluated(sm)
            if es is not None:
                s, d = es, ed
                b = {"_EPSMAX": ast.Constant(ecap)} if es == OK and ecap is not None else None
        rep.add("LAPLACE-UNIT", sm, f"sampler: {unparse(e)[:200]}", s, d or "unit-scale Laplace (variance 2) by inverse CDF", node=r)
        n += 1
        if s == OK and b and "_EPSMAX" in b:
            # the guard against log(0) truncates the magnitude at t = -ln(1 - c): the unit Laplacian then delivers
            # 2 - 2 e^-t (t + 1) instead of 2, a relative power loss of e^-t (t + 1)
            import math

            try:
                c = float(ast.literal_eval(b["_EPSMAX"]))
            except (ValueError, SyntaxError, TypeError):
                c = None
            if c is None or not (0.0 < c < 1.0):
                rep.undecided("LAPLACE-UNIT", sm, f"truncation guard max={unparse(b['_EPSMAX'])}", "not a literal in (0, 1)", node=r)
            else:
                t = -math.log(1.0 - c)
                loss = math.exp(-t) * (t + 1.0)
                construct = f"truncation guard max={c:g}: magnitudes cut at {t:.3g} scale units"
                if loss <= 1e-4:
                    rep.ok("LAPLACE-UNIT", sm, construct, f"relative noise-power loss {loss:.2g} (negligible)", node=r)
                elif loss >= 1e-3:
                    rep.violation("LAPLACE-UNIT", sm, construct, f"the truncated unit Laplacian has variance 2(1 - {loss:.3g}): every Laplacian configuration delivers {100 * loss:.2g}% less noise power than configured (SNR {10 * math.log10(1 / (1 - loss)):.2g} dB too high)", node=r)
                else:
                    rep.undecided("LAPLACE-UNIT", sm, construct, f"relative noise-power loss {loss:.2g} is neither negligible nor clearly outside the tolerance", node=r)
            n += 1
    urand = [c for c in ast.walk(sm.node) if isinstance(c, ast.Call) and (call_name(c) or "").endswith("rand")]
    rep.check(len(urand) == 1, "LAPLACE-UNIT", sm, f"uniform draws: {len(urand)}", "one uniform sample feeds both sign and magnitude", "sign and magnitude must come from the same uniform sample")
    n += 1
    return n


def rule_axis_truthiness(repo: Repo, rep: Report) -> int:
    """An optional integer parameter (a reduction axis `dim`, a seed, an index) for which 0 is a legitimate value may not be
    tested by truthiness: `if dim` / `x if dim else y` treats axis 0 like "not given", so the per-slice SNR along the first
    axis silently becomes a global one.  `is None` / `is not None` are the accepted tests."""
    n = 0
    for file in (SNRU, SNRM, AN):
        mi = repo.module(file)
        for fi in list(mi.functions.values()) + [m for ci_ in mi.classes.values() for m in ci_.methods.values()]:
            a = fi.node.args
            params = a.args + a.kwonlyargs
            defaults = [None] * (len(a.args) - len(a.defaults)) + list(a.defaults) + list(a.kw_defaults)
            cands = set()
            for p_, d in zip(params, defaults):
                ann = unparse(p_.annotation) if p_.annotation is not None else ""
                if isinstance(d, ast.Constant) and d.value is None and "int" in ann and p_.arg in ("dim", "axis", "dims", "axes", "index", "idx"):
                    cands.add(p_.arg)
            if not cands:
                continue
            for x in ast.walk(fi.node):
                tests = []
                if isinstance(x, (ast.If, ast.IfExp, ast.While)):
                    tests.append(x.test)
                elif isinstance(x, ast.BoolOp):
                    tests += list(x.values[:-1]) if isinstance(x.op, ast.Or) else list(x.values)
                for t in tests:
                    core = t.operand if isinstance(t, ast.UnaryOp) and isinstance(t.op, ast.Not) else t
                    if isinstance(core, ast.Name) and core.id in cands:
                        n += 1
                        rep.violation("PARAM", fi, f"{fi.name}: `{unparse(t)}` tests the optional axis `{core.id}` by truthiness", f"`{core.id}=0` (the first axis) is falsy and is handled like `{core.id}=None`: the statistic is taken over the whole tensor instead of per slice along axis 0, so the configured SNR is not delivered per slice (use `is not None`)", node=t)
    rep.ok("PARAM", f"{SNRU}::functions", "optional axis parameters are tested with `is None`", f"{n} truthiness test(s) found", nontrivial=False)
    return n + 1


def rule_override_verbatim(repo: Repo, rep: Report) -> int:
    """A caller-supplied noise tensor is added as given.  The scaling-law engine treats casts as identities, so this rule
    looks at every re-binding of a `noise` parameter: a device move is accepted; a cast to the signal's dtype (or any
    dtype / .real / .float()) changes the noise - complex noise on a real signal loses its imaginary half (3 dB), float64
    noise on a float32 signal is rounded."""
    n = 0
    mi = repo.module(AN)
    for fi in list(mi.functions.values()) + [m for ci_ in mi.classes.values() for m in ci_.methods.values()]:
        if "noise" not in fi.params:
            continue
        rebinds = [s_ for s_ in ast.walk(fi.node) if isinstance(s_, ast.Assign) and any(isinstance(t, ast.Name) and t.id == "noise" for t in s_.targets)]
        gen = [s_ for s_ in rebinds if not any(isinstance(x, ast.Name) and x.id == "noise" for x in ast.walk(s_.value))]
        for s_ in rebinds:
            if s_ in gen:
                continue  # noise generated by the channel itself (the non-override path)
            n += 1
            v = s_.value
            casts = []
            for c in ast.walk(v):
                if isinstance(c, ast.Call) and isinstance(c.func, ast.Attribute):
                    if c.func.attr in ("float", "double", "half", "type_as", "type", "int", "long", "bfloat16", "cfloat"):
                        casts.append(c)
                    elif c.func.attr == "to" and (any(k.arg == "dtype" for k in c.keywords) or any(isinstance(a, ast.Attribute) and (a.attr == "dtype" or attr_chain(a) in ("torch.float32", "torch.float64", "torch.float", "torch.float16", "torch.complex64")) for a in c.args) or any(isinstance(a, ast.Name) and a.id in fi.params and a.id != "noise" for a in c.args)):
                        casts.append(c)
                elif isinstance(c, ast.Attribute) and c.attr in ("real", "imag") and isinstance(c.value, ast.Name) and c.value.id == "noise":
                    casts.append(c)
            device_only = isinstance(v, ast.Call) and isinstance(v.func, ast.Attribute) and v.func.attr in ("to", "cuda", "cpu") and isinstance(v.func.value, ast.Name) and v.func.value.id == "noise" and not casts
            if casts:
                rep.violation("OVERRIDE", fi, f"supplied noise re-bound: {unparse(s_)}", f"`{unparse(casts[0])[:60]}` changes the dtype of the caller's noise: complex noise given for a real signal loses its imaginary part (half the configured power, SNR 3 dB too high) and wider-precision noise is rounded - the noise is no longer added verbatim", node=s_)
            elif device_only:
                rep.ok("OVERRIDE", fi, f"supplied noise moved: {unparse(s_)}", "a device move keeps every value", node=s_, nontrivial=False)
            else:
                rep.undecided("OVERRIDE", fi, f"supplied noise re-bound: {unparse(s_)}", "re-binding of the caller's noise not recognised", node=s_)
    rep.ok("OVERRIDE", f"{AN}::channels", "re-bindings of a supplied `noise` parameter", f"{n} site(s) examined", nontrivial=False)
    return n + 1


def rule_nonlinear(repo: Repo, rep: Report) -> int:
    """The noise stage of the nonlinear channel delivers the configured power / SNR relative to the nonlinearity's
    output, in every complex mode (derived with the scaling-law interpreter; the user function is a signal source)."""
    fi = repo.func(AN, "NonlinearChannel.forward")
    n = 0
    fsrc = SV("sig", ONE, src="f(x)")
    for cplx, modes in ((False, (None,)), (True, ("direct", "cartesian", "polar"))):
        for cmode in modes:
            for par in ("power", "snr"):
                atoms = {"torch.is_complex(x)": cplx, "self.add_noise": True, "snr_db is not None": par == "snr", "noise_power is None": False}
                for m_ in ("direct", "cartesian", "polar"):
                    atoms[f"self.complex_mode == '{m_}'"] = m_ == cmode
                attrs = {"self.avg_noise_power": SV("det", P) if par == "power" else NONE_V, "self.snr_db": DBP("snr_db") if par == "snr" else NONE_V}
                v, it = run_fn(repo, fi, {"x": SIG}, atoms, attrs, {"self.nonlinear_fn": fsrc})
                what = f"NonlinearChannel({'complex, ' + cmode if cplx else 'real'}; {'avg_noise_power=P' if par == 'power' else 'snr_db'})"
                if par == "power":
                    expect_out(rep, "VARIANCE-LAW", fi, what, v, ONE, P, it, fi.node)
                else:
                    expect_out(rep, "SNR-LAW", fi, what, v, ONE, E("f(x)") / N / L("snr_db"), it, fi.node)
                n += 1
    # without add_noise the output is the nonlinearity's output, untouched
    for cplx, cmode in ((False, None), (True, "direct"), (True, "cartesian"), (True, "polar")):
        atoms = {"torch.is_complex(x)": cplx, "self.add_noise": False}
        for m_ in ("direct", "cartesian", "polar"):
            atoms[f"self.complex_mode == '{m_}'"] = m_ == cmode
        v, it = run_fn(repo, fi, {"x": SIG}, atoms, {}, {"self.nonlinear_fn": fsrc})
        n += 1
        if isinstance(v, SV) and v.kind == "sig" and v.m == ONE:
            rep.ok("VARIANCE-LAW", fi, f"NonlinearChannel({'complex, ' + cmode if cplx else 'real'}; add_noise=False): {v.show()}", "no noise is added when none is requested", node=fi.node)
        elif isinstance(v, SV) and v.kind == "out":
            rep.violation("VARIANCE-LAW", fi, f"NonlinearChannel({'complex, ' + str(cmode) if cplx else 'real'}; add_noise=False): {v.show()}", "noise is added although add_noise is False", node=fi.node)
        else:
            rep.undecided("VARIANCE-LAW", fi, f"NonlinearChannel({'complex, ' + str(cmode) if cplx else 'real'}; add_noise=False)", f"law not derived ({v.show() if isinstance(v, SV) else v})", node=fi.node)
    return n


def rule_fading_noise(repo: Repo, rep: Report) -> int:
    fi = repo.func(AN, "FlatFadingChannel.forward")
    n = 0
    H = Mono.sym("h")
    for mode, real_in in (("power", False), ("snr", False), ("power", True)):
        # real_in: the input is real-valued and is promoted to x + 0j; the faded signal is complex either way and the
        # configured noise power must be delivered in full (both quadrature components)
        atoms = {
            "csi is not None": True, "noise is not None": False, "self.snr_db is not None": mode == "snr", "self.avg_noise_power is not None": mode == "power",
            "is_1d": False, "len(x.shape) > 2": False, "len(original_shape) > 2": False, "not torch.is_complex(x)": real_in, "torch.is_complex(x)": not real_in, "torch.is_complex(y)": True,
        }
        attrs = {"self.avg_noise_power": SV("det", P) if mode == "power" else NONE_V, "self.snr_db": DBP("snr_db") if mode == "snr" else NONE_V}
        v, it = run_fn(repo, fi, {"x": SIG, "csi": SV("det", H, tag="csi"), "noise": NONE_V}, atoms, attrs)
        want = P if mode == "power" else H.pow(2) * E() / N / L("snr_db")
        expect_out(rep, "VARIANCE-LAW" if mode == "power" else "SNR-LAW", fi, f"FlatFadingChannel.forward noise stage ({mode}; y = h*x{'; real input' if real_in else ''})", v, H, want, it, fi.node)
        n += 1
    # the same law when the channel draws its own coefficients (csi is None): h comes from the generator methods, whatever
    # the fading type
    for mode in ("snr", "power"):
        atoms = {
            "csi is not None": False, "noise is not None": False, "self.snr_db is not None": mode == "snr", "self.avg_noise_power is not None": mode == "power",
            "is_1d": False, "len(x.shape) > 2": False, "len(original_shape) > 2": False, "not torch.is_complex(x)": False, "torch.is_complex(x)": True, "torch.is_complex(y)": True,
        }
        attrs = {"self.avg_noise_power": SV("det", P) if mode == "power" else NONE_V, "self.snr_db": DBP("snr_db") if mode == "snr" else NONE_V}
        models = {"self._generate_fading_coefficients": SV("det", H, tag="csi"), "self._expand_coefficients": SV("det", H, tag="csi")}
        v, it = run_fn(repo, fi, {"x": SIG, "csi": NONE_V, "noise": NONE_V}, atoms, attrs, models=models)
        want = P if mode == "power" else H.pow(2) * E() / N / L("snr_db")
        expect_out(rep, "VARIANCE-LAW" if mode == "power" else "SNR-LAW", fi, f"FlatFadingChannel.forward noise stage ({mode}; own coefficients, y = h*x)", v, H, want, it, fi.node)
        n += 1
    atoms = {"csi is not None": True, "noise is not None": True, "is_1d": False, "len(x.shape) > 2": False, "len(original_shape) > 2": False, "not torch.is_complex(x)": False}
    v, it = run_fn(repo, fi, {"x": SIG, "csi": SV("det", H, tag="csi"), "noise": SV("ext", tag="noise")}, atoms, {})
    expect_out(rep, "OVERRIDE", fi, "FlatFadingChannel.forward(csi=h, noise=n)", v, H, None, it, fi.node)
    n += 1
    return n


def rule_utils(repo: Repo, rep: Report) -> int:
    n = 0
    fi = repo.func(SNRU, "add_noise_for_snr")
    for cplx in (False, True):
        v, it = run_fn(repo, fi, {"signal": SIG, "target_snr_db": DBP("snr_db"), "dim": NONE_V}, {"torch.is_complex(signal)": cplx})
        first = v.items[0] if isinstance(v, SV) and v.items else v
        expect_out(rep, "SNR-LAW", fi, f"add_noise_for_snr ({'complex' if cplx else 'real'})", first, ONE, E() / N / L("snr_db"), it, fi.node)
        n += 1

    def judge(rule, fi, what, v, want_kind, want_m, it=None):
        construct = f"{what}: {v.show() if isinstance(v, SV) else v}"
        if it is not None and it.definite:
            rep.violation(rule, fi, construct, it.definite[0])
        elif not isinstance(v, SV) or v.kind == "unk":
            rep.undecided(rule, fi, construct, f"not derived ({v.why if isinstance(v, SV) else ''})")
        elif v.kind == want_kind and v.m == want_m:
            rep.ok(rule, fi, construct, f"= {want_kind}[{want_m.show()}]")
        else:
            rep.violation(rule, fi, construct, f"expected {want_kind}[{want_m.show()}]: one definition of SNR = 10*log10(signal power / noise power)")

    fi = repo.func(SNRU, "snr_db_to_linear")
    v, _ = run_fn(repo, fi, {"snr_db": DBP("p")}, {})
    judge("DB-KIND", fi, "snr_db_to_linear(p)", v, "det", L("p"))
    fi = repo.func(SNRU, "snr_linear_to_db")
    v, _ = run_fn(repo, fi, {"snr_linear": SV("det", Mono.sym("r"))}, {"isinstance(snr_linear, torch.Tensor)": False}, allow_floor=True)
    judge("DB-KIND", fi, "snr_linear_to_db(r)", v, "db", Mono.sym("r"))
    fi = repo.func(SNRU, "snr_to_noise_power")
    v, _ = run_fn(repo, fi, {"signal_power": SV("det", Mono.sym("S")), "snr_db": DBP("p")}, {})
    judge("DB-KIND", fi, "snr_to_noise_power(S, p)", v, "det", Mono.sym("S") / L("p"))
    fi = repo.func(SNRU, "noise_power_to_snr")
    v, _ = run_fn(repo, fi, {"signal_power": SV("det", Mono.sym("S")), "noise_power": SV("det", Mono.sym("Nn"))}, {})
    judge("DB-KIND", fi, "noise_power_to_snr(S, Nn)", v, "db", Mono.sym("S") / Mono.sym("Nn"))
    fi = repo.func(SNRU, "calculate_snr")
    for cplx in (False, True):
        v, it_ = run_fn(repo, fi, {"original_signal": SV("sig", ONE, src="x"), "noisy_signal": SV("sig", ONE, src="y"), "dim": NONE_V, "keepdim": NONE_V}, {"torch.is_complex(original_signal)": cplx}, allow_floor=True, complex_input=cplx)
        judge("DB-KIND", fi, f"calculate_snr(x, y) ({'complex' if cplx else 'real'})", v, "db", E("x") / E("(y-x)"), it_)
    n += 6
    fi = repo.func(SNRM, "SignalToNoiseRatio.forward")
    for cplx in (False, True):
        for batched in (False, True):
            atoms = {"torch.is_complex(x)": cplx, "is_batched": batched, "self.mode == 'db'": True, "noise_power < eps": False}
            v, it_m = run_fn(repo, fi, {"x": SV("sig", ONE, src="x"), "y": SV("sig", ONE, src="y")}, atoms)
            judge("DB-KIND", fi, f"SignalToNoiseRatio.forward (dB, {'complex' if cplx else 'real'}, {'batched' if batched else 'single'})", v, "db", E("x") / E("(y-x)"), it_m)
            n += 1
    ci = repo.cls(BM, "StandardMetrics")
    fi = repo.method(ci, "signal_to_noise_ratio")
    v, _ = run_fn(repo, fi, {"signal": SV("sig", ONE, src="s"), "noise": SV("sig", ONE, src="n")}, {"noise_power == 0": False})
    judge("DB-KIND", fi, "StandardMetrics.signal_to_noise_ratio(s, n)", v, "db", E("s") / E("n"))
    n += 1
    return n


def rule_memo(repo: Repo, rep: Report) -> int:
    """Derived noise parameters memoised on the channel object must be refreshed when the configured parameter changes."""
    from .c20 import rule_cache_key, rule_slot_memo

    mod = repo.module(AN)
    classes = [ci for ci in mod.classes.values() if ci.is_subclass_of("BaseChannel")]
    k = rule_slot_memo(repo, rep, classes) + rule_cache_key(repo, rep, classes)
    if k == 0:
        rep.ok("CACHE-KEY", AN, f"{len(classes)} channel classes: no memoised derived parameter", "every call derives the noise level from the current configuration", nontrivial=False)
    return 1


def run(repo: Repo, rep: Report, tier: str) -> None:
    if tier == "thorough":
        sm_ = repo.func(AN, "LaplacianChannel._get_laplacian_noise")
        st_, d_, _cap = laplace_sampler_evaluated(sm_)
        if st_ is not None:
            rep.add("LAPLACE-UNIT", sm_, "sampler evaluated as a function of its uniform draw on a 41-point grid (thorough tier)", st_, d_, node=sm_.node)
    n = rule_apply_noise(repo, rep)
    n += rule_awgn(repo, rep)
    n += rule_override_verbatim(repo, rep)
    n += rule_axis_truthiness(repo, rep)
    n += rule_laplacian(repo, rep)
    n += rule_nonlinear(repo, rep)
    n += rule_fading_noise(repo, rep)
    n += rule_utils(repo, rep)
    n += rule_memo(repo, rep)
    # the SNR helpers are pure: a helper that writes into its argument changes the caller's configured value (a channel
    # that hands over its stored snr_db tensor then works at another SNR on every further call)
    from ..effects import input_writes

    for f_ in repo.module(SNRU).functions.values():
        params_ = [p_ for p_ in f_.params if p_ not in ("self", "cls")]
        if not params_:
            continue
        ws_ = list(input_writes(repo, f_, None, tensor_params=params_))
        n += 1
        if ws_:
            node_, how_, who_ = ws_[0]
            rep.violation("DB-KIND", f_, f"{f_.name}: {unparse(node_)[:70]}", f"{how_} writes through a value that may share storage with the argument `{sorted(who_)[0]}`: the caller's tensor (a configured SNR / power) is modified by the conversion, so a second use of the same tensor - e.g. the next forward of a channel that stores it - sees another value", node=node_)
        else:
            rep.ok("DB-KIND", f_, f"{f_.name}: arguments", "not modified", nontrivial=False)
    # the noise of successive uses is independent: no fork / re-seed / state restore around the draws
    from ..speciallint import lint_falsy_default, lint_rng_discipline

    for c_ in repo.module(AN).classes.values():
        if c_.methods.get("__init__") is not None:
            n += lint_falsy_default(rep, c_.methods["__init__"], "VARIANCE-LAW")
    mi_ = repo.module(AN)
    for f_ in list(mi_.functions.values()) + [m_ for c_ in mi_.classes.values() if c_.name in ("AWGNChannel", "LaplacianChannel", "PhaseNoiseChannel", "PoissonChannel", "NonlinearChannel") for m_ in c_.methods.values() if m_.name != "__init__"]:
        n += lint_rng_discipline(rep, f_, "VAR-LAW")
    rep.floor("C07 law instances", n, 34)
    rep.decided_clauses += [
        "variance law: real Var = P; complex Var(re)+Var(im) = P; signal factor 1; noise added once",
        "SNR law: P = mean|x|^2 / 10^(snr_db/10) via snr_to_noise_power/snr_db_to_linear; fading noise calibrated on y = h*x",
        "caller-supplied noise (and csi) used verbatim",
        "one definition of SNR across utils, metric and benchmark helper (factor 10, power ratio signal/noise)",
        "Laplacian: Var = 2*scale^2 in every parameterisation; unit sampler form",
    ]
    rep.undecided_clauses += ["distribution shape, independence, finite-sample statistics", "behaviour of user-supplied nonlinear functions"]
