"""C20 - per-sample components are pure: effects, row-index independence, batch coupling, cross-call state, caches."""
from __future__ import annotations

import ast
from typing import Dict, List, Optional, Set, Tuple

from ..astutil import ancestors, attr_chain, call_name, set_parents, stmts_of, walk_no_nested
from ..core import OK, UNDECIDED, VIOLATION, AnalysisError, ClassInfo, FuncInfo, ModuleInfo, Repo, Report, unparse
from ..effects import input_writes
from ..scaling import NONE_V, ONE, Mono, SV
from .c02 import batch_index_taint
from .c15 import tv_eval

EXPLANATION = (
    "Effect and dependence analysis of every encoder, decoder, modulator, demodulator and power constraint class found under /repo/kaira (enumerated through the MRO). PURITY: a "
    "may-alias/effect analysis shows that forward / inverse_encode / calculate_syndrome never store, augment-assign, call an in-place method or pass out= through a value that may "
    "share storage with an input tensor (float()/view/indexing/as_tensor alias; clone/arithmetic allocate). ROW-INDEX: the index of a loop over the batch is used only as a "
    "subscript. BATCH-COUPLED: an iteration loop of a decoder may not be cut short by a reduction over the whole batch unless the per-row state updates are masked by the same "
    "index set. CACHE-KEY: every store into a module-level, class-level or instance-level cache from these classes must be keyed by everything the cached value depends on "
    "(instance configuration and mutable state read by the computation, through the class's own helper methods); an incomplete key returns another object's or a stale result. "
    "STATE: a stateless component's forward does not read a self attribute before writing it within the call (allow-list for memoised constants, device migration, debug logs; "
    "declared stateful classes excluded by name). T-LIST: a tensor is never subscripted by a Python list assembled from coordinates (advanced row indexing). ZERO-PATH: batched and "
    "single-item branches of the power constraints select their zero-signal path by the same quantity. Value equality batch vs stack is not decided."
)

BASES = ["BaseBlockCodeEncoder", "BaseBlockDecoder", "BaseModulator", "BaseDemodulator", "BaseConstraint"]
METHODS = ["forward", "inverse_encode", "calculate_syndrome", "extract_message", "project_word"]
STATEFUL = {
    "DPSKModulator": "differential phase memory (documented state, reset_state)",
    "DBPSKModulator": "differential", "DQPSKModulator": "differential",
    "OQPSKModulator": "delayed quadrature sample (documented state)",
    "Pi4QPSKModulator": "alternating constellation flag (documented state)",
    "Pi4QPSKDemodulator": "alternating constellation flag (documented state)",
}
STATE_ALLOW = {
    "mask_dict": "memoised pure function of the code length",
    "device": "device migration", "lv_ind": "device migration of constant index buffers", "edge_map": "device migration", "marg_ec": "device migration", "ext_ec": "device migration", "ext_ce": "device migration", "cv_order": "device migration", "idx_mess_t": "device migration",
    "return_soft": "configuration echo of the call's keyword", "info_indices": "configuration echo from the encoder",
    "R_all": "debug log", "L_all": "debug log", "ans": "debug log",
    "check_matrix": "lazy construction of a constant (hasattr guard)",
}
IGNORED_DEPS = {"self.device", "self.dtype", "self._dtype", "self.training"}


def component_classes(repo: Repo) -> List[ClassInfo]:
    out = []
    for b in BASES:
        for ci in repo.subclasses(b):
            if ci not in out:
                out.append(ci)
    return sorted(out, key=lambda c: (c.file, c.node.lineno))


def rule_purity(repo: Repo, rep: Report, classes: List[ClassInfo]) -> int:
    n = 0
    for ci in classes:
        for m in METHODS:
            fi = ci.methods.get(m)
            if fi is None:
                continue
            repo.consulted.add(fi.file)
            tensor_params = [p for p in fi.params if p not in ("self", "args", "kwargs", "return_for_loss", "return_branch", "reset_state", "reset")][:3]
            ws = input_writes(repo, fi, ci, tensor_params=tensor_params)
            n += 1
            if ws:
                for node, how, who in ws[:3]:
                    rep.violation("PURITY", fi, node, f"{how} writes through a value that may share storage with the input `{sorted(who)[0]}`: the caller's tensor is modified (and later calls see the modified value)", node=node)
            else:
                rep.ok("PURITY", fi, f"{ci.name}.{m}: no store / in-place operation reaches an alias of {tensor_params}", "inputs are not modified")
    return n


def rule_row_index(repo: Repo, rep: Report, classes: List[ClassInfo]) -> int:
    n = 0
    for ci in classes:
        for m, fi in ci.methods.items():
            if m.startswith("__") or m.startswith("plot"):
                continue
            n += batch_index_taint(rep, fi)
    return n


def rule_batch_coupled(repo: Repo, rep: Report, classes: List[ClassInfo]) -> int:
    """Iteration loops of decoders: a break driven by a whole-batch reduction needs row-masked updates."""
    n = 0
    for ci in classes:
        if not ci.is_subclass_of("BaseBlockDecoder"):
            continue
        for m, fi in ci.methods.items():
            set_parents(fi.node)
            for lp in [x for x in ast.walk(fi.node) if isinstance(x, ast.For)]:
                it = unparse(lp.iter)
                if not (it.startswith("range(self.") and ("iter" in it)):
                    continue
                n += 1
                breaks = [b for b in ast.walk(lp) if isinstance(b, ast.Break)]
                if not breaks:
                    rep.ok("BATCH-COUPLED", fi, f"for _ in {it}: no early exit", "every word gets the configured number of iterations")
                    continue
                bad = None
                for b in breaks:
                    guard = next((a for a in ancestors(b) if isinstance(a, ast.If)), None)
                    if guard is None:
                        continue
                    gtxt = unparse(guard.test)
                    reduces = any(isinstance(c, ast.Call) and ((call_name(c) or "").split(".")[-1] in ("any", "all", "sum", "max", "min", "equal", "allclose", "count_nonzero")) for c in ast.walk(guard.test))
                    names = {x.id for x in ast.walk(guard.test) if isinstance(x, ast.Name)}
                    # row-masked updates: stores X[idx] = ... where idx is a name that also drives the guard
                    masked = any(isinstance(s, ast.Assign) and isinstance(s.targets[0], ast.Subscript) and isinstance(s.targets[0].slice, ast.Name) and s.targets[0].slice.id in names for s in ast.walk(lp))
                    size_test = ".size(0) == 0" in gtxt or "numel() == 0" in gtxt or "len(" in gtxt
                    if (reduces or size_test) and not masked:
                        bad = (b, gtxt)
                if bad is None:
                    rep.ok("BATCH-COUPLED", fi, f"for _ in {it}: early exit with row-masked updates", "rows that are finished stop changing; the exit happens when all rows are finished")
                else:
                    rep.violation("BATCH-COUPLED", fi, f"for _ in {it}: break when `{bad[1]}`", "the iteration stops for ALL words only when a reduction over the whole batch says so, while the updates are not masked per row: a word decoded in a batch gets a different number of iterations than the same word alone", node=bad[0])
    return n


BATCH_SENSITIVE_CALLS = {
    "torch.cdist": ("compute_mode", ("donot_use_mm_for_euclid_dist",), "torch.cdist switches (default compute_mode) to a matrix-multiplication formula with different rounding once more than 25 rows are processed together"),
}


def rule_batch_numerics(repo: Repo, rep: Report, classes: List[ClassInfo]) -> int:
    """Library calls whose result for ONE row depends on how many rows are processed in the same call."""
    n = 0
    for ci in classes:
        for m, fi in ci.methods.items():
            for c in ast.walk(fi.node):
                if isinstance(c, ast.Call) and call_name(c) in BATCH_SENSITIVE_CALLS:
                    kwname, safe, why = BATCH_SENSITIVE_CALLS[call_name(c)]
                    kw = next((k.value for k in c.keywords if k.arg == kwname), None)
                    n += 1
                    if isinstance(kw, ast.Constant) and kw.value in safe:
                        rep.ok("BATCH-NUMERICS", fi, f"{unparse(c)[:80]}", f"{kwname}={kw.value!r}: the same formula for every batch size", node=c)
                    else:
                        rep.violation("BATCH-NUMERICS", fi, f"{unparse(c)[:80]}", f"{why}: for samples on or next to a decision boundary the result of one batch member depends on the size of the batch it is processed in", node=c)
    return n


def rule_row_memo(repo: Repo, rep: Report, classes: List[ClassInfo]) -> int:
    """A local memo filled while looping over the rows of a batch couples the rows; it is sound only when its key
    determines the row exactly.  Keys built by a numeric reduction (weighted sums, dot products, hashes of floats)
    are lossy: two different rows can share a key and the later one silently receives the earlier one's result."""
    n = 0
    for ci in classes:
        for m, fi in ci.methods.items():
            set_parents(fi.node)
            local_dicts = {t.id for s_ in ast.walk(fi.node) if isinstance(s_, (ast.Assign, ast.AnnAssign)) for t in ([s_.target] if isinstance(s_, ast.AnnAssign) else s_.targets) if isinstance(t, ast.Name) and s_.value is not None and (isinstance(s_.value, ast.Dict) and not s_.value.keys or (isinstance(s_.value, ast.Call) and call_name(s_.value) in ("dict", "OrderedDict") and not s_.value.args))}
            if not local_dicts:
                continue
            defs: Dict[str, List[ast.AST]] = {}
            for s_ in ast.walk(fi.node):
                if isinstance(s_, ast.Assign):
                    for t in s_.targets:
                        if isinstance(t, ast.Name):
                            defs.setdefault(t.id, []).append(s_.value)
            for lp in [x for x in ast.walk(fi.node) if isinstance(x, ast.For)]:
                for d in local_dicts:
                    stores = [s_ for s_ in ast.walk(lp) if isinstance(s_, ast.Assign) and isinstance(s_.targets[0], ast.Subscript) and isinstance(s_.targets[0].value, ast.Name) and s_.targets[0].value.id == d]
                    reads = [x for x in ast.walk(lp) if isinstance(x, ast.Subscript) and isinstance(x.ctx, ast.Load) and isinstance(x.value, ast.Name) and x.value.id == d]
                    if not stores or not reads:
                        continue
                    key = stores[0].targets[0].slice

                    def lossy(e: ast.AST, depth: int = 0) -> Optional[bool]:
                        """True: built by a numeric reduction; False: an exact encoding; None: unknown."""
                        verdict: Optional[bool] = None
                        for x in ast.walk(e):
                            if isinstance(x, ast.Call):
                                short = (call_name(x) or "").split(".")[-1] if call_name(x) else (x.func.attr if isinstance(x.func, ast.Attribute) else "")
                                if isinstance(x.func, ast.Attribute):
                                    short = x.func.attr
                                if short in ("sum", "mean", "dot", "matmul", "norm", "prod", "hash", "item") and short != "item":
                                    return True
                                if short in ("tobytes", "tuple", "tolist", "bytes") and verdict is None:
                                    verdict = False
                            if isinstance(x, ast.Name) and x.id in defs and depth < 4:
                                for v in defs[x.id]:
                                    r = lossy(v, depth + 1)
                                    if r is True:
                                        return True
                                    if r is False and verdict is None:
                                        verdict = False
                        return verdict

                    lv = lossy(key)
                    n += 1
                    what = f"{ci.name}.{m}: local memo `{d}` keyed by `{unparse(key)}` inside a loop over the batch"
                    if lv is True:
                        rep.violation("ROW-MEMO", fi, what, "the key is a numeric reduction of the row (weighted sum / dot product): it is not injective in floating-point arithmetic, so two different rows of one call can share a key and the later row receives the earlier row's result - the output for a row depends on the other rows of the batch", node=stores[0])
                    elif lv is False:
                        rep.ok("ROW-MEMO", fi, what, "the key is an exact encoding of the row", node=stores[0])
                    else:
                        rep.undecided("ROW-MEMO", fi, what, "injectivity of the key not recognised", node=stores[0])
    return n


def rule_slot_memo(repo: Repo, rep: Report, classes: List[ClassInfo]) -> int:
    """Single-slot memo: `if self._m is None or <cond>: self._m = f(self.a, ...)` followed by a read of self._m.
    The refresh condition must mention every attribute of self the memoised value is computed from; otherwise the
    value goes stale when such an attribute (a public, reconfigurable parameter) changes."""
    n = 0
    for ci in classes:
        for m, fi in ci.methods.items():
            if m == "__init__":
                continue
            set_parents(fi.node)
            for iff in [x for x in ast.walk(fi.node) if isinstance(x, ast.If)]:
                slots = {attr_chain(c.left) for c in ast.walk(iff.test) if isinstance(c, ast.Compare) and len(c.ops) == 1 and isinstance(c.ops[0], ast.Is) and isinstance(c.comparators[0], ast.Constant) and c.comparators[0].value is None and (attr_chain(c.left) or "").startswith("self.")}
                for slot in slots:
                    stores = [s_ for s_ in ast.walk(iff) if isinstance(s_, ast.Assign) and any(attr_chain(t) == slot for t in s_.targets) and any(s_ is y for b_ in iff.body for y in ast.walk(b_))]
                    if not stores:
                        continue
                    # attributes the memoised value is computed from (through the locals of the refresh branch)
                    local_defs: Dict[str, ast.AST] = {}
                    for s_ in ast.walk(iff):
                        if isinstance(s_, ast.Assign) and isinstance(s_.targets[0], ast.Name):
                            local_defs[s_.targets[0].id] = s_.value

                    def deps(e: ast.AST, depth: int = 0) -> Set[str]:
                        out: Set[str] = set()
                        for x in ast.walk(e):
                            if isinstance(x, ast.Attribute):
                                ch = attr_chain(x)
                                if ch and ch.startswith("self.") and ch.count(".") == 1:
                                    out.add(ch)
                            if isinstance(x, ast.Name) and x.id in local_defs and depth < 4:
                                out |= deps(local_defs[x.id], depth + 1)
                        return out

                    needed = set()
                    for s_ in stores:
                        needed |= deps(s_.value)
                    needed -= {slot}
                    # methods of self are not parameters
                    needed = {d for d in needed if d.split(".")[1] not in ci.methods and ci.find_method(d.split(".")[1]) is None}
                    guard = {attr_chain(x) for x in ast.walk(iff.test) if isinstance(x, ast.Attribute) and (attr_chain(x) or "").startswith("self.") and (attr_chain(x) or "").count(".") == 1} - {slot}
                    missing = sorted(needed - guard)
                    n += 1
                    what = f"{ci.name}.{m}: memo `{slot}` refreshed when `{unparse(iff.test)[:90]}`"
                    if missing:
                        rep.violation("CACHE-KEY", fi, what, f"the memoised value is computed from {missing}, which the refresh condition does not look at: after such a parameter is changed the stale value keeps being used (the component no longer behaves as configured)", node=stores[0])
                    else:
                        rep.ok("CACHE-KEY", fi, what, "every attribute the value depends on takes part in the refresh condition", node=stores[0])
    return n


# ---------------------------------------------------------------------------
# CACHE-KEY
# ---------------------------------------------------------------------------

def module_level_containers(mi: ModuleInfo) -> Set[str]:
    out = set()
    for st in mi.tree.body:
        tgt = None
        val = None
        if isinstance(st, ast.Assign) and len(st.targets) == 1 and isinstance(st.targets[0], ast.Name):
            tgt, val = st.targets[0].id, st.value
        elif isinstance(st, ast.AnnAssign) and isinstance(st.target, ast.Name) and st.value is not None:
            tgt, val = st.target.id, st.value
        if tgt and isinstance(val, (ast.Dict, ast.List, ast.Set)) or (tgt and isinstance(val, ast.Call) and call_name(val) in ("dict", "list", "set", "OrderedDict", "collections.OrderedDict", "defaultdict")):
            out.add(tgt)
    return out


def class_level_containers(ci: ClassInfo) -> Set[str]:
    out = set()
    for c in ci.mro():
        for st in c.node.body:
            tgt, val = None, None
            if isinstance(st, ast.Assign) and len(st.targets) == 1 and isinstance(st.targets[0], ast.Name):
                tgt, val = st.targets[0].id, st.value
            elif isinstance(st, ast.AnnAssign) and isinstance(st.target, ast.Name) and st.value is not None:
                tgt, val = st.target.id, st.value
            if tgt and (isinstance(val, (ast.Dict, ast.List, ast.Set)) or (isinstance(val, ast.Call) and call_name(val) in ("dict", "list", "set"))):
                out.add(tgt)
    return out


def self_deps(ci: ClassInfo, node: ast.AST, seen: Optional[Set[str]] = None, depth: int = 0) -> Set[str]:
    """self attribute chains (two levels) read by an expression, through the class's own methods."""
    seen = seen if seen is not None else set()
    deps: Set[str] = set()
    for x in ast.walk(node):
        if isinstance(x, ast.Attribute):
            ch = attr_chain(x)
            if ch and ch.startswith("self.") and not isinstance(getattr(x, "ctx", None), ast.Store):
                parts = ch.split(".")
                deps.add(".".join(parts[:2]))
        if isinstance(x, ast.Call):
            nm = call_name(x) or ""
            if nm.startswith("self.") and nm.count(".") == 1 and depth < 3:
                m = ci.find_method(nm.split(".")[1])
                if m is not None and m.qualname not in seen:
                    seen.add(m.qualname)
                    deps.discard(nm)
                    deps |= self_deps(ci, m.node, seen, depth + 1)
    return {d for d in deps if d not in IGNORED_DEPS and ci.find_method(d.split(".")[1]) is None or (ci.find_method(d.split(".")[1]) is not None and ci.find_method(d.split(".")[1]).is_property())}


def local_defs(fi: FuncInfo) -> Dict[str, List[ast.expr]]:
    out: Dict[str, List[ast.expr]] = {}
    for st in stmts_of(fi.body):
        if isinstance(st, ast.Assign) and len(st.targets) == 1 and isinstance(st.targets[0], ast.Name):
            out.setdefault(st.targets[0].id, []).append(st.value)
    return out


def expand_locals(fi: FuncInfo, node: ast.AST, depth: int = 0) -> List[ast.AST]:
    """The expression plus the defining expressions of the locals it uses (transitively)."""
    defs = local_defs(fi)
    out = [node]
    seen = set()
    todo = [node]
    while todo:
        cur = todo.pop()
        for x in ast.walk(cur):
            if isinstance(x, ast.Name) and x.id in defs and x.id not in seen:
                seen.add(x.id)
                for d in defs[x.id]:
                    out.append(d)
                    todo.append(d)
    return out


def rule_cache_key(repo: Repo, rep: Report, classes: List[ClassInfo]) -> int:
    n = 0
    for ci in classes:
        mod_cont = module_level_containers(ci.module)
        cls_cont = class_level_containers(ci)
        inst_cont = set()
        init = ci.find_method("__init__")
        for c in ci.mro():
            i2 = c.methods.get("__init__")
            if i2 is None:
                continue
            for st in stmts_of(i2.body):
                if isinstance(st, (ast.Assign, ast.AnnAssign)):
                    tg = st.targets[0] if isinstance(st, ast.Assign) else st.target
                    val = st.value
                    ch = attr_chain(tg)
                    if ch and ch.startswith("self.") and ch.count(".") == 1 and val is not None and (isinstance(val, ast.Dict) and not val.keys or (isinstance(val, ast.Call) and call_name(val) in ("dict", "OrderedDict"))):
                        inst_cont.add(ch.split(".")[1])
        # mutable state attributes of the class: assigned outside __init__
        state_attrs = set()
        for mname, m in ci.methods.items():
            if mname == "__init__":
                continue
            for st in ast.walk(m.node):
                if isinstance(st, (ast.Assign, ast.AugAssign)):
                    tgs = st.targets if isinstance(st, ast.Assign) else [st.target]
                    for tg in tgs:
                        ch = attr_chain(tg)
                        if ch and ch.startswith("self.") and ch.count(".") == 1:
                            state_attrs.add(ch)
                if isinstance(st, ast.Call) and isinstance(st.func, ast.Attribute) and st.func.attr.endswith("_") and not st.func.attr.startswith("__"):
                    ch = attr_chain(st.func.value)
                    if ch and ch.startswith("self.") and ch.count(".") == 1:
                        state_attrs.add(ch)
        for mname, fi in ci.methods.items():
            for st in ast.walk(fi.node):
                if not (isinstance(st, ast.Assign) and len(st.targets) == 1 and isinstance(st.targets[0], ast.Subscript)):
                    continue
                tgt = st.targets[0]
                base = tgt.value
                kind = None
                cname = None
                if isinstance(base, ast.Name) and base.id in mod_cont:
                    kind, cname = "module-level", base.id
                else:
                    ch = attr_chain(base) or ""
                    parts = ch.split(".")
                    if len(parts) == 2 and parts[0] in (ci.name, "cls") and parts[1] in cls_cont:
                        kind, cname = "class-level", parts[1]
                    elif ch.startswith("self.__class__.") and parts[-1] in cls_cont:
                        kind, cname = "class-level", parts[-1]
                    elif isinstance(base, ast.Attribute) and isinstance(base.value, ast.Call) and call_name(base.value) == "type" and base.attr in cls_cont:
                        kind, cname = "class-level", base.attr
                    elif len(parts) == 2 and parts[0] == "self" and parts[1] in cls_cont and parts[1] not in inst_cont:
                        kind, cname = "class-level (through self)", parts[1]
                    elif len(parts) == 2 and parts[0] == "self" and parts[1] in inst_cont:
                        kind, cname = "instance-level", parts[1]
                if kind is None:
                    continue
                repo.consulted.add(fi.file)
                n += 1
                key_nodes = expand_locals(fi, tgt.slice)
                val_nodes = expand_locals(fi, st.value)
                key_deps: Set[str] = set()
                for k in key_nodes:
                    key_deps |= self_deps(ci, k)
                val_deps: Set[str] = set()
                for v in val_nodes:
                    val_deps |= self_deps(ci, v)
                # parameters of the method used by the value must appear in the key as well
                params = {p for p in fi.params if p not in ("self", "args", "kwargs")}
                key_names = {x.id for k in key_nodes for x in ast.walk(k) if isinstance(x, ast.Name)}
                val_names = {x.id for v in val_nodes for x in ast.walk(v) if isinstance(x, ast.Name)}
                missing_params = (val_names & params) - key_names
                if kind.startswith("instance"):
                    relevant = {d for d in val_deps if d in state_attrs}
                else:
                    relevant = set(val_deps)
                relevant.discard(f"self.{cname}")
                missing = sorted((relevant - key_deps)) + sorted(missing_params)
                construct = f"{kind} cache `{cname}`: {unparse(tgt)} = {unparse(st.value)[:80]}"
                if missing:
                    rep.violation("CACHE-KEY", fi, construct, f"the cached value depends on {missing} which the key `{unparse(tgt.slice)[:80]}` does not include: another instance with the same key (or this one after its state changed) gets a value computed for a different object", node=st)
                else:
                    rep.ok("CACHE-KEY", fi, construct, "the key covers everything the value depends on", node=st)
    return n


def rule_state(repo: Repo, rep: Report, classes: List[ClassInfo]) -> int:
    """Read-before-write of self attributes that forward also writes (cross-call state)."""
    n = 0
    for ci in classes:
        if ci.name in STATEFUL:
            continue
        fi = ci.methods.get("forward")
        if fi is None:
            continue
        written: Dict[str, ast.AST] = {}
        for st in ast.walk(fi.node):
            if isinstance(st, (ast.Assign, ast.AugAssign)):
                tgs = st.targets if isinstance(st, ast.Assign) else [st.target]
                for tg in tgs:
                    ch = attr_chain(tg)
                    if ch and ch.startswith("self.") and ch.count(".") == 1:
                        written.setdefault(ch, st)
            if isinstance(st, ast.Call) and attr_chain(st.func) == "self.register_buffer" and st.args and isinstance(st.args[0], ast.Constant):
                written.setdefault("self." + st.args[0].value, st)
        n += 1
        bad = []
        for ch, st in written.items():
            attr = ch.split(".")[1]
            if attr in STATE_ALLOW:
                continue
            # read anywhere in forward (other than as store target)?
            reads = [x for x in ast.walk(fi.node) if isinstance(x, ast.Attribute) and attr_chain(x) == ch and isinstance(x.ctx, ast.Load)]
            first_write = min(getattr(s, "lineno", 10**9) for s in ast.walk(fi.node) if isinstance(s, (ast.Assign, ast.AugAssign)) and any(attr_chain(t) == ch for t in (s.targets if isinstance(s, ast.Assign) else [s.target])))
            early = [r for r in reads if r.lineno < first_write] + [s for s in ast.walk(fi.node) if isinstance(s, ast.AugAssign) and attr_chain(s.target) == ch]
            if early:
                bad.append((ch, early[0]))
        if bad:
            for ch, node in bad[:2]:
                rep.violation("STATE", fi, f"{ci.name}.forward reads {ch} before (or while) writing it", f"`{ch}` carries information from one call to the next: a stateless component gives different answers on repeated calls", node=node)
        else:
            rep.ok("STATE", fi, f"{ci.name}.forward: attributes written {sorted(written)}", "no value is carried from one call to the next (allow-list: memoised constants, device migration, debug logs)", nontrivial=bool(written))
    return n


#: operations whose result may share storage with the receiver (a view, or the receiver itself when nothing has to change)
MAY_ALIAS_METHODS = ("to", "float", "double", "half", "type", "type_as", "cpu", "cuda", "contiguous", "detach", "view", "view_as", "reshape", "squeeze", "unsqueeze", "t", "transpose", "permute", "flatten", "narrow", "expand", "expand_as", "select", "requires_grad_", "conj")
MAY_ALIAS_ATTRS = ("real", "imag", "T", "mT", "data")


def _tensor_attrs(ci: ClassInfo) -> set:
    """attributes of the class known to hold tensors: registered buffers / parameters and values built by torch.* calls"""
    out = set()
    for c_ in [ci] + list(getattr(ci, "bases", []) or []):
        for fi in c_.methods.values():
            for st in ast.walk(fi.node):
                if isinstance(st, ast.Call) and attr_chain(st.func) in ("self.register_buffer", "self.register_parameter") and st.args and isinstance(st.args[0], ast.Constant):
                    out.add(st.args[0].value)
                if isinstance(st, ast.Assign) and len(st.targets) == 1 and (attr_chain(st.targets[0]) or "").startswith("self.") and (attr_chain(st.targets[0]) or "").count(".") == 1:
                    v = st.value
                    if isinstance(v, ast.Call) and ((call_name(v) or "").startswith("torch.") or (call_name(v) or "").startswith("nn.Parameter")) and (call_name(v) or "") not in ("torch.device", "torch.Generator", "torch.dtype"):
                        out.add(attr_chain(st.targets[0])[5:])
    return out


def rule_state_alias(repo: Repo, rep: Report, classes: List[ClassInfo]) -> int:
    """A method must not modify a tensor attribute of its object through a local alias: `s = self.factor.to(dev); s /= p`
    divides the stored factor itself whenever `.to()` has nothing to change (same device and dtype), so every call after
    the first works with the value the previous call left behind."""
    n = 0
    for ci in classes:
        tattrs = _tensor_attrs(ci)
        for m, fi in ci.methods.items():
            if m in ("__init__", "reset", "reset_state", "reset_parameters") or m.startswith("_create") or m.startswith("_build") or m.startswith("_init"):
                continue
            aliases: Dict[str, tuple] = {}
            ldefs: Dict[str, list] = {}
            for st in ast.walk(fi.node):
                if isinstance(st, ast.Assign) and len(st.targets) == 1 and isinstance(st.targets[0], ast.Name):
                    ldefs.setdefault(st.targets[0].id, []).append(st.value)

            def root_of(e, depth=0):
                """(root description, tensor evidence) of the storage an expression may share, or None"""
                tensorish = False
                while True:
                    if isinstance(e, ast.Attribute) and e.attr in MAY_ALIAS_ATTRS:
                        e, tensorish = e.value, True
                    elif isinstance(e, ast.Call) and isinstance(e.func, ast.Attribute) and e.func.attr in MAY_ALIAS_METHODS:
                        e, tensorish = e.func.value, True
                    elif isinstance(e, ast.Subscript) and not ((attr_chain(e.value) or "").startswith("self.") and (attr_chain(e.value) or "").count(".") == 1 and (attr_chain(e.value) or "")[5:] not in tattrs) and all(isinstance(i_, ast.Slice) or (isinstance(i_, ast.Constant) and not isinstance(i_.value, bool)) for i_ in (e.slice.elts if isinstance(e.slice, ast.Tuple) else [e.slice])):
                        e = e.value
                    else:
                        break
                ch = attr_chain(e) if isinstance(e, ast.Attribute) else None
                if ch and ch.startswith("self.") and ch.count(".") == 1 and ch[5:] in tattrs:
                    return ch, True
                # an element handed out by a container attribute (a table of stored tensors): the stored object itself
                if isinstance(e, ast.Subscript) and (attr_chain(e.value) or "").startswith("self.") and (attr_chain(e.value) or "").count(".") == 1:
                    return f"{attr_chain(e.value)}[...]", tensorish
                if isinstance(e, ast.Call) and isinstance(e.func, ast.Attribute) and e.func.attr == "get" and (attr_chain(e.func.value) or "").startswith("self.") and (attr_chain(e.func.value) or "").count(".") == 1:
                    return f"{attr_chain(e.func.value)}[...]", tensorish
                if isinstance(e, ast.Name) and depth < 3 and len(ldefs.get(e.id, [])) == 1 and e.id not in fi.params:
                    r_ = root_of(ldefs[e.id][0], depth + 1)
                    if r_ is not None:
                        return r_[0], r_[1] or tensorish
                return None

            for st in ast.walk(fi.node):
                if isinstance(st, ast.Assign) and len(st.targets) == 1 and isinstance(st.targets[0], ast.Name):
                    r_ = root_of(st.value)
                    if r_ is not None and r_[1]:
                        aliases[st.targets[0].id] = (r_[0], st)
            if not aliases:
                continue
            n += 1
            bad = None
            rebinding = {nm: [s_ for s_ in ast.walk(fi.node) if isinstance(s_, ast.Assign) and any(isinstance(t_, ast.Name) and t_.id == nm for t_ in s_.targets)] for nm in aliases}
            for st in ast.walk(fi.node):
                nm = None
                how = ""
                if isinstance(st, ast.AugAssign) and isinstance(st.target, ast.Name) and st.target.id in aliases:
                    nm, how = st.target.id, f"`{unparse(st)[:60]}` (an augmented assignment to a tensor works in place)"
                elif isinstance(st, ast.AugAssign) and isinstance(st.target, ast.Subscript) and isinstance(st.target.value, ast.Name) and st.target.value.id in aliases:
                    nm, how = st.target.value.id, f"`{unparse(st)[:60]}`"
                elif isinstance(st, ast.Assign) and any(isinstance(t_, ast.Subscript) and isinstance(t_.value, ast.Name) and t_.value.id in aliases for t_ in st.targets):
                    nm = next(t_.value.id for t_ in st.targets if isinstance(t_, ast.Subscript) and isinstance(t_.value, ast.Name) and t_.value.id in aliases)
                    how = f"`{unparse(st)[:60]}`"
                elif isinstance(st, ast.Call) and isinstance(st.func, ast.Attribute) and st.func.attr.endswith("_") and not st.func.attr.startswith("_") and st.func.attr not in ("requires_grad_",) and isinstance(st.func.value, ast.Name) and st.func.value.id in aliases:
                    nm, how = st.func.value.id, f"`{unparse(st)[:60]}`"
                if nm is None:
                    continue
                # the alias must still be bound to the attribute-derived value: exactly one plain binding, before the write
                if len(rebinding[nm]) == 1 and rebinding[nm][0].lineno < st.lineno:
                    bad = (nm, st, how)
                    break
            if bad:
                ch, def_st = aliases[bad[0]]
                rep.violation("STATE", fi, f"{ci.name}.{m}: {bad[0]} = {unparse(def_st.value)[:50]}; {unparse(bad[1])[:50]}", f"{bad[2]} modifies `{ch}` itself: `{unparse(def_st.value)[:50]}` returns the stored tensor (not a copy) whenever there is nothing to convert, so the attribute keeps the modified value and every later call - for any other input - starts from it", node=bad[1])
            else:
                rep.ok("STATE", fi, f"{ci.name}.{m}: locals that may share storage with {sorted({a_[0] for a_ in aliases.values()})}", "none of them is written in place", nontrivial=False)
    return n


def rule_tlist(repo: Repo, rep: Report, classes: List[ClassInfo]) -> int:
    n = 0
    for ci in classes:
        for m, fi in ci.methods.items():
            for x in ast.walk(fi.node):
                if isinstance(x, ast.Subscript) and isinstance(x.slice, ast.BinOp) and isinstance(x.slice.op, ast.Add) and any(isinstance(s, ast.List) for s in (x.slice.left, x.slice.right)):
                    n += 1
                    rep.violation("T-LIST", fi, x, "a tensor is subscripted by a Python list assembled from coordinates: a list index is advanced (row) indexing, it selects whole rows instead of the one element / block meant (use a tuple)", node=x)
    rep.ok("T-LIST", "kaira::components", f"{len(classes)} classes scanned for list-valued coordinate subscripts", "none found" if n == 0 else f"{n} reported", nontrivial=False)
    return n + 1


def rule_index_broadcast(repo: Repo, rep: Report, classes: List[ClassInfo]) -> int:
    """Index tensors used together in one subscript broadcast against each other: a (m, 1) row index (what
    `torch.nonzero(..., as_tuple=False)` returns) next to a (m,) column index addresses the m x m cross product, so every
    selected row is touched at the positions computed for *all* selected rows - the result for one batch member then
    depends on the other members.  Ranks are inferred (rank domain of C10 extended by nonzero / tensor subscripts); a site
    is reported only when the ranks of two index tensors are both derived and differ."""
    from .c10 import Rank

    class IRank(Rank):
        def __init__(self, fi):
            super().__init__(fi)
            self.sites: Dict[int, tuple] = {}

        def eval_Call(self, node, env):
            name = call_name(node) or ""
            short = name.split(".")[-1]
            if short == "nonzero":
                for a in node.args:
                    self.eval(a, env)
                kw = {k.arg: k.value for k in node.keywords if k.arg}
                at = kw.get("as_tuple")
                if at is None or (isinstance(at, ast.Constant) and at.value is False):
                    return 2
                return None
            if short in ("arange", "randperm"):
                return 1
            if short in ("view", "reshape") and isinstance(node.func, ast.Attribute) and not name.startswith("torch."):
                self.eval(node.func.value, env)
                dims = node.args
                if len(dims) == 1 and isinstance(dims[0], (ast.Tuple, ast.List)):
                    dims = dims[0].elts
                if dims and not any(isinstance(d, ast.Starred) for d in dims) and not (len(dims) == 1 and isinstance(dims[0], ast.Name)):
                    return len(dims)
                return None
            return super().eval_Call(node, env)

        def _index_ranks(self, node, env):
            elts = node.slice.elts if isinstance(node.slice, ast.Tuple) else [node.slice]
            out = []
            for e in elts:
                if isinstance(e, ast.Slice):
                    out.append(("slice", None))
                elif isinstance(e, ast.Constant) and e.value is None:
                    out.append(("new", None))
                elif isinstance(e, ast.Constant) and e.value is Ellipsis:
                    out.append(("ellipsis", None))
                else:
                    r = self.eval(e, env)
                    out.append(("idx", r if isinstance(r, int) else None))
            return out

        def eval_Subscript(self, node, env):
            base = self.eval(node.value, env)
            if isinstance(base, tuple):
                return super().eval_Subscript(node, env)
            ks = self._index_ranks(node, env)
            tens = [(i, r) for i, (k, r) in enumerate(ks) if k == "idx" and isinstance(r, int) and r >= 1]
            if len(tens) >= 2:
                self.sites[id(node)] = (node, [r for _, r in tens])
            if not isinstance(base, int) or any(k == "ellipsis" for k, _ in ks) or any(k == "idx" and r is None for k, r in ks):
                return None
            consumed = sum(1 for k, _ in ks if k == "idx")
            added = sum(1 for k, _ in ks if k == "new") + (max(r for _, r in tens) if tens else 0)
            return base - consumed + added

        def store_subscript(self, target, value, env, stmt):
            self.eval_Subscript(target, env)

    n = 0
    for ci in classes:
        for m, fi in ci.methods.items():
            if not any(isinstance(x, ast.Subscript) and isinstance(x.slice, ast.Tuple) for x in ast.walk(fi.node)):
                continue
            it = IRank(fi)
            it.repo = repo
            try:
                it.run({})
            except Exception:
                continue
            for node, ranks in it.sites.values():
                n += 1
                if len(set(ranks)) > 1:
                    rep.violation("INDEX-BROADCAST", fi, node, f"index tensors of ranks {ranks} are used together: they broadcast to a cross product, so each selected row is addressed at the positions computed for all selected rows (a (m, 1) index from torch.nonzero(..., as_tuple=False) must be squeezed, or unbound into columns)", node=node)
                else:
                    rep.ok("INDEX-BROADCAST", fi, node, f"index tensors of equal rank {ranks}: element-wise pairing", node=node, nontrivial=False)
    rep.ok("INDEX-BROADCAST", "kaira::components", f"{len(classes)} classes scanned for subscripts with several index tensors", f"{n} site(s) with derived ranks", nontrivial=False)
    return n + 1


def rule_block_axis(repo: Repo, rep: Report, classes: List[ClassInfo]) -> int:
    """`apply_blockwise(x, n, fn)` hands fn the view (*lead, blocks, n): every block of every row is fn's to process.  A
    subscript of that view with an integer literal on a leading or the block axis (`r_block[i, 0, :]`) reads one fixed
    block, so for an input that groups several blocks along the last dimension the others are silently dropped and the
    result is not the stack of the per-block results."""
    n = 0
    for ci in classes:
        for m, fi in ci.methods.items():
            calls = [c for c in ast.walk(fi.node) if isinstance(c, ast.Call) and call_name(c) == "apply_blockwise" and len(c.args) >= 3 and isinstance(c.args[2], ast.Name)]
            for c in calls:
                fn = next((d for d in ast.walk(fi.node) if isinstance(d, ast.FunctionDef) and d.name == c.args[2].id), None)
                if fn is None or not fn.args.args:
                    continue
                par = fn.args.args[0].arg
                n += 1
                bad = None
                for sub in ast.walk(fn):
                    if isinstance(sub, ast.Subscript) and isinstance(sub.value, ast.Name) and sub.value.id == par and isinstance(sub.slice, ast.Tuple) and len(sub.slice.elts) >= 2:
                        lead = sub.slice.elts[:-1]
                        if any(isinstance(e, ast.Constant) and isinstance(e.value, int) and not isinstance(e.value, bool) for e in lead):
                            bad = sub
                            break
                if bad is None:
                    # per-block pieces joined along the batch axis: cat / stack (dim 0, the default) over a collection that is
                    # built by running over the block axis of the view
                    def over_blocks(it: ast.AST) -> bool:
                        t_ = unparse(it)
                        return any(k_ in t_ for k_ in (f"{par}.shape[-2]", f"{par}.shape[1]", f"{par}.size(-2)", f"{par}.size(1)", f"{par}.unbind(-2)", f"{par}.unbind(1)", f"{par}.unbind(dim=-2)", f"{par}.unbind(dim=1)"))

                    block_lists = set()
                    for st_ in ast.walk(fn):
                        if isinstance(st_, ast.Assign) and isinstance(st_.targets[0], ast.Name) and isinstance(st_.value, (ast.ListComp, ast.GeneratorExp)) and any(over_blocks(g_.iter) for g_ in st_.value.generators):
                            block_lists.add(st_.targets[0].id)
                        if isinstance(st_, ast.For) and over_blocks(st_.iter):
                            for x_ in ast.walk(st_):
                                if isinstance(x_, ast.Call) and isinstance(x_.func, ast.Attribute) and x_.func.attr in ("append", "extend") and isinstance(x_.func.value, ast.Name):
                                    block_lists.add(x_.func.value.id)
                    for j_ in ast.walk(fn):
                        if isinstance(j_, ast.Call) and call_name(j_) in ("torch.cat", "torch.stack", "torch.concat", "torch.vstack") and j_.args:
                            dim_ = next((k_.value for k_ in j_.keywords if k_.arg in ("dim", "axis")), j_.args[1] if len(j_.args) > 1 else None)
                            dv_ = 0 if dim_ is None else (dim_.value if isinstance(dim_, ast.Constant) else None)
                            src_ = j_.args[0]
                            from_blocks = (isinstance(src_, (ast.ListComp, ast.GeneratorExp)) and any(over_blocks(g_.iter) or (isinstance(g_.iter, ast.Name) and g_.iter.id in block_lists) for g_ in src_.generators)) or (isinstance(src_, ast.Name) and src_.id in block_lists)
                            if from_blocks and dv_ == 0:
                                bad = j_
                                rep.violation("BLOCK-AXIS", fi, f"{ci.name}.{m}::{fn.name}: {unparse(j_)[:80]}", f"`{unparse(j_)[:60]}` joins the results for the individual blocks along axis 0, the batch axis of the (*lead, blocks, n) view: the result is block-major, and when it is read back as (batch, blocks * k) the messages of different rows and blocks are interleaved (a row's output depends on the other rows)", node=j_)
                                break
                    if bad is not None:
                        continue
                if bad is not None:
                    rep.violation("BLOCK-AXIS", fi, f"{ci.name}.{m}::{fn.name}: {unparse(bad)}", f"the block function reads `{unparse(bad)}`: a fixed index on the block axis of the (*lead, blocks, n) view - with several blocks per row only that block is processed and the others are dropped (the result differs from per-block evaluation and the layout is not rejected)", node=bad)
                else:
                    rep.ok("BLOCK-AXIS", fi, f"{ci.name}.{m}::{fn.name}({par})", "no fixed index on a leading or block axis of the blocked view", node=fn, nontrivial=False)
    return n


def rule_chunk_cover(repo: Repo, rep: Report, classes: List[ClassInfo], funcs=None, consequence: Optional[str] = None) -> int:
    """A loop that works through the rows in slices `[s * L : (s + 1) * L]` for `s in range(N // L)` covers floor(N / L) * L
    rows: unless N is known to be a multiple of L (a `% L` test in the function) or the count is a ceiling, the last
    N mod L rows are never processed and keep their initial values - the result for a row then depends on how many rows
    the batch has and where the row stands in it."""
    n = 0
    seen = set()
    if funcs is None:
        funcs = [(ci.name, fi) for ci in classes for fi in ci.methods.values()]
        for ci in classes:
            for f_ in ci.module.functions.values():
                if id(f_) not in seen:
                    seen.add(id(f_))
                    funcs.append((ci.module.relpath, f_))
    cons1 = consequence or "they keep their initial values, so the result for a row depends on the number of rows in the batch and on the row's position"
    cons2 = consequence or "the result ignores the tail of the data (a sum / mean over it is too small), depending on the length"
    for owner, fi in funcs:
        for lp in [x for x in ast.walk(fi.node) if isinstance(x, ast.For) and isinstance(x.target, ast.Name) and isinstance(x.iter, ast.Call) and isinstance(x.iter.func, ast.Name) and x.iter.func.id == "range" and len(x.iter.args) == 1]:
            cnt = lp.iter.args[0]
            while isinstance(cnt, ast.Call) and isinstance(cnt.func, ast.Name) and cnt.func.id in ("max", "int") and cnt.args:
                cnt = next((a for a in cnt.args if not isinstance(a, ast.Constant)), cnt.args[0])
            if not (isinstance(cnt, ast.BinOp) and isinstance(cnt.op, ast.FloorDiv)):
                continue
            total, size = unparse(cnt.left), unparse(cnt.right)
            v = lp.target.id
            sliced = [sl for sl in ast.walk(lp) if isinstance(sl, (ast.Slice, ast.Call)) and ((isinstance(sl, ast.Slice) and sl.lower is not None and sl.upper is not None and f"{v} * {size}" in unparse(sl.lower) and (f"({v} + 1) * {size}" in unparse(sl.upper) or f"{v} * {size} + {size}" in unparse(sl.upper))) or (isinstance(sl, ast.Call) and isinstance(sl.func, ast.Name) and sl.func.id == "slice" and len(sl.args) == 2 and f"{v} * {size}" in unparse(sl.args[0]) and f"({v} + 1) * {size}" in unparse(sl.args[1])))]
            if not sliced:
                continue
            n += 1
            # a `% size` test anywhere in the module counts: the length may be validated by the caller of a helper
            ftxt = unparse(fi.module.tree) if getattr(fi, "module", None) is not None else unparse(fi.node)
            ceil_ = f"+ {size} - 1" in total or f"{size} - 1 +" in total or total.startswith("-(") or "ceil" in unparse(lp.iter)
            guarded = f"% {size}" in ftxt
            if ceil_ or guarded:
                rep.ok("CHUNK-COVER", fi, f"{owner}.{fi.name}: for {v} in {unparse(lp.iter)} over slices of {size}", "the slices cover every row (ceiling count, or the length is tested to be a multiple of the slice)", node=lp, nontrivial=False)
            else:
                rep.violation("CHUNK-COVER", fi, f"{owner}.{fi.name}: for {v} in {unparse(lp.iter)} over slices of {size}", f"the loop runs over floor({total} / {size}) slices of {size} rows and nothing handles the remaining {total} mod {size} rows: {cons1}", node=lp)
        # second form: the data cut down to whole blocks, `x[: (N // L) * L]` (also through a local `k = N // L`), and only
        # that part processed
        fdefs = {s_.targets[0].id: s_.value for s_ in ast.walk(fi.node) if isinstance(s_, ast.Assign) and len(s_.targets) == 1 and isinstance(s_.targets[0], ast.Name) and isinstance(s_.value, ast.BinOp) and isinstance(s_.value.op, ast.FloorDiv)}
        for sl in [x for x in ast.walk(fi.node) if isinstance(x, ast.Slice) and x.lower is None and isinstance(x.upper, ast.BinOp) and isinstance(x.upper.op, ast.Mult)]:
            fac = [sl.upper.left, sl.upper.right]
            for a_, b_ in (fac, fac[::-1]):
                q_ = fdefs.get(a_.id) if isinstance(a_, ast.Name) else (a_ if isinstance(a_, ast.BinOp) and isinstance(a_.op, ast.FloorDiv) else None)
                if q_ is not None and unparse(q_.right) == unparse(b_):
                    n += 1
                    size = unparse(b_)
                    total = unparse(q_.left)
                    ftxt = unparse(fi.module.tree) if getattr(fi, "module", None) is not None else unparse(fi.node)
                    if f"% {size}" in ftxt or f"{unparse(sl.upper)}:" in unparse(fi.node):
                        rep.ok("CHUNK-COVER", fi, f"{owner}.{fi.name}: [: {unparse(sl.upper)}]", "the remainder is handled (a `%` test or a slice that starts where this one ends)", node=sl, nontrivial=False)
                    else:
                        rep.violation("CHUNK-COVER", fi, f"{owner}.{fi.name}: [: {unparse(sl.upper)}]", f"only the first floor({total} / {size}) * {size} elements are processed and nothing handles the remaining {total} mod {size}: {cons2}", node=sl)
                    break
    return n


RED_FUNCS = ("min", "max", "sum", "mean", "prod", "amin", "amax", "norm", "median", "std", "var")


def rule_mixed_reduction(repo: Repo, rep: Report, classes: List[ClassInfo]) -> int:
    """Contradiction rule: a tensor that one statement reduces along an explicit axis (`t.sum(dim=1)`: one value per row, so
    the rows are the words of a batch) must not, in the same computation, be reduced over ALL its axes (`torch.min(t)`):
    the second value is a statistic of the whole batch, and combining the two makes the result for one word depend on
    the other words."""
    n = 0
    for ci in classes:
        for m, fi in ci.methods.items():
            # base names reduced with an explicit dim
            def base_of(e):
                while True:
                    if isinstance(e, ast.Call) and (call_name(e) or "") in ("torch.abs", "torch.square", "torch.sign") and e.args:
                        e = e.args[0]
                    elif isinstance(e, ast.Call) and isinstance(e.func, ast.Attribute) and e.func.attr in ("abs", "float", "to", "int", "long", "clone", "detach", "bool") and not (isinstance(e.func.value, ast.Name) and e.func.value.id == "torch"):
                        e = e.func.value
                    elif isinstance(e, ast.Compare) and len(e.ops) == 1:
                        e = e.left
                    elif isinstance(e, ast.BinOp) and isinstance(e.op, ast.Pow):
                        e = e.left
                    else:
                        break
                return e.id if isinstance(e, ast.Name) else None

            def reduction(c):
                """(base name, has explicit dim) for a reduction call, else None"""
                if not isinstance(c, ast.Call):
                    return None
                nm = call_name(c) or ""
                short = nm.split(".")[-1]
                if short not in RED_FUNCS:
                    return None
                if nm.startswith("torch.") and c.args:
                    tgt, rest = c.args[0], c.args[1:]
                elif isinstance(c.func, ast.Attribute) and not nm.startswith("torch.") and not nm.startswith("math.") and not nm.startswith("np."):
                    tgt, rest = c.func.value, c.args
                else:
                    return None
                b = base_of(tgt)
                if b is None:
                    return None
                has_dim = any(k.arg in ("dim", "axis") for k in c.keywords) or bool(rest)
                return b, has_dim

            reds = [(c, reduction(c)) for c in ast.walk(fi.node) if reduction(c) is not None]
            by_base: Dict[str, Dict[bool, list]] = {}
            for c, (b, hd) in reds:
                by_base.setdefault(b, {True: [], False: []})[hd].append(c)
            # a name bound to a reduction along explicit axes holds one value per word: the name itself is a per-word quantity
            rowdefs = {}
            for s_ in ast.walk(fi.node):
                if isinstance(s_, ast.Assign) and len(s_.targets) == 1 and isinstance(s_.targets[0], ast.Name):
                    for y_ in ast.walk(s_.value):
                        r_ = reduction(y_)
                        if r_ is not None and r_[1]:
                            rowdefs.setdefault(s_.targets[0].id, y_)
            for b, d in by_base.items():
                if not d[True] and d[False] and b in rowdefs:
                    d[True].append(rowdefs[b])
                    d["name"] = True
                if not (d[True] and d[False]):
                    continue
                # both kinds on the same tensor: do they meet in one arithmetic expression (directly or through locals)?
                defs = {s_.targets[0].id: s_.value for s_ in ast.walk(fi.node) if isinstance(s_, ast.Assign) and len(s_.targets) == 1 and isinstance(s_.targets[0], ast.Name)}

                def kinds(e, depth=0, seen=None):
                    seen = seen or set()
                    out = set()
                    for x in ast.walk(e):
                        if any(x is c for c in d[True]):
                            out.add("row")
                        if any(x is c for c in d[False]):
                            out.add("full")
                        if d.get("name") and isinstance(x, ast.Name) and x.id == b and isinstance(x.ctx, ast.Load) and not any(isinstance(c, ast.Call) and (c.func.value if isinstance(c.func, ast.Attribute) else (c.args[0] if c.args else None)) is x for c in d[False]):
                            out.add("row")
                        if isinstance(x, ast.Name) and x.id in defs and x.id not in seen and depth < 3 and x.id != b:
                            out |= kinds(defs[x.id], depth + 1, seen | {x.id})
                    return out

                for x in ast.walk(fi.node):
                    if isinstance(x, ast.BinOp) and isinstance(x.op, (ast.Mult, ast.Add, ast.Sub, ast.Div)):
                        kl, kr = kinds(x.left), kinds(x.right)
                        if ("row" in kl and "full" in kr and "row" not in kr) or ("row" in kr and "full" in kl and "row" not in kl):
                            n += 1
                            full = d[False][0]
                            rep.violation("BATCH-COUPLED", fi, f"{ci.name}.{m}: {unparse(x)[:90]}", f"`{unparse(full)[:50]}` reduces `{b}` over all its axes although `{unparse(d[True][0])[:50]}` shows that its rows are separate words: the full reduction is a statistic of the whole batch, and combining it with a per-word quantity makes a word's result depend on the other words of the call", node=x)
                            break
    rep.ok("BATCH-COUPLED", "kaira::components", f"{len(classes)} classes scanned for per-word values combined with whole-batch reductions of the same tensor", "none found" if n == 0 else f"{n} reported", nontrivial=False)
    return n + 1


def rule_row_carry(repo: Repo, rep: Report, classes: List[ClassInfo]) -> int:
    """In a loop over the rows (words) of a batch a local that is assigned only on some paths of the body and read later
    in the body keeps, on the other paths, the value it got for a *previous* row: the result for a row then depends on the
    rows before it.  (Accumulators - subscript stores, `+=` - are what such loops are for and are not meant.)"""
    n = 0

    def row_loop(lp: ast.For) -> bool:
        it = lp.iter
        if not (isinstance(it, ast.Call) and isinstance(it.func, ast.Name) and it.func.id == "range" and it.args):
            return False
        t = unparse(it.args[-1] if len(it.args) <= 2 else it.args[1])
        return any(k in t for k in ("batch", "shape[0]", "size(0)", "num_words", "n_words", "num_blocks", "len("))

    for ci in classes:
        for m, fi in ci.methods.items():
            for lp in [x for x in ast.walk(fi.node) if isinstance(x, ast.For) and row_loop(x)]:
                n += 1
                top_assigned = set()
                for st in lp.body:
                    if isinstance(st, (ast.Assign, ast.AnnAssign)):
                        for t in (st.targets if isinstance(st, ast.Assign) else [st.target]):
                            for x in ast.walk(t):
                                if isinstance(x, ast.Name) and isinstance(x.ctx, ast.Store) and not any(isinstance(a, ast.Subscript) for a in [t]):
                                    top_assigned.add(x.id)
                    elif isinstance(st, (ast.For, ast.With)):
                        for x in ast.walk(st.target if isinstance(st, ast.For) else st):
                            if isinstance(x, ast.Name) and isinstance(x.ctx, ast.Store):
                                top_assigned.add(x.id)
                cond: Dict[str, ast.AST] = {}
                for st in lp.body:
                    if isinstance(st, (ast.If, ast.Try)):
                        arms = [st.body, st.orelse] if isinstance(st, ast.If) else [st.body]
                        names_per_arm = []
                        for arm in arms:
                            names_ = set()
                            for s2 in arm:
                                for x in ast.walk(s2):
                                    if isinstance(x, ast.Assign):
                                        for t in x.targets:
                                            if isinstance(t, ast.Name):
                                                names_.add(t.id)
                            names_per_arm.append(names_)
                        every = set.intersection(*names_per_arm) if names_per_arm and all(arms) else set()
                        for nm in set.union(*names_per_arm) - every:
                            exits = any(isinstance(x, (ast.Continue, ast.Break, ast.Return, ast.Raise)) for arm in arms for s2 in arm for x in ast.walk(s2))
                            if not exits:
                                cond.setdefault(nm, st)
                for nm, st in cond.items():
                    if nm in top_assigned:
                        continue
                    later = lp.body[lp.body.index(st) + 1 :]
                    read = next((x for s2 in later for x in ast.walk(s2) if isinstance(x, ast.Name) and x.id == nm and isinstance(x.ctx, ast.Load)), None)
                    if read is not None:
                        rep.violation("ROW-CARRY", fi, f"{ci.name}.{m}: `{nm}` assigned only under `{unparse(st).splitlines()[0][:70]}`", f"in the per-row loop `for {unparse(lp.target)} in {unparse(lp.iter)}` the value of `{nm}` read at line {read.lineno} is, on the other path, the one left by a previous row: a row's result depends on the rows processed before it (batch result differs from the stack of single results, and depends on the order)", node=st)
    rep.ok("ROW-CARRY", "kaira::components", f"{n} per-row loops scanned for locals carried from one row to the next", "none found", nontrivial=False)
    return n + 1


def rule_subset_index(repo: Repo, rep: Report) -> int:
    """The polar BP decoder keeps working on the batch members that have not converged: `stop_criterion` is handed the
    global indices of the active subset and must return the *global* indices of those that still fail (positions inside
    the subset would make the decoder go on with other members and freeze unconverged ones - a member's result then depends
    on its neighbours and on the order).  The function body is evaluated on sample subsets (own arithmetic)."""
    from ..constfold import Unfoldable
    from ..frag import FragRaise, FragReturn, run_fragment

    fi = repo.func("kaira/models/fec/utils.py", "stop_criterion")
    G = [[1, 0], [1, 1]]
    samples = [
        ([[1, 1], [0, 1], [0, 0]], [[0, 1], [1, 1], [1, 0]], [3, 5, 9], [9]),
        ([[0, 0], [0, 1], [1, 1]], [[0, 1], [1, 1], [0, 1]], [2, 4, 7], [2]),
        ([[1, 0], [1, 0]], [[0, 1], [1, 1]], [6, 8], [6, 8]),
        ([[1, 1]], [[0, 1]], [5], []),
    ]
    what = "stop_criterion: indices of the members that still fail"
    for x, u, act, want in samples:
        try:
            run_fragment(fi.body, {"x": x, "u": u, "code_gm": G, "not_satisfied": act})
            rep.undecided("SUBSET-INDEX", fi, what, "no value returned")
            return 1
        except FragReturn as r:
            got = r.value
        except (Unfoldable, FragRaise, TypeError) as exc:
            rep.undecided("SUBSET-INDEX", fi, what, f"not evaluable ({exc})")
            return 1
        flat = [y for t in got for y in (t if isinstance(t, list) else [t])] if isinstance(got, list) else got
        if flat != want:
            rep.violation("SUBSET-INDEX", fi, what, f"for the active members {act} of which {want} still fail the function returns {flat}: positions inside the active subset instead of batch indices - after the first compaction the decoder iterates on the wrong members", node=fi.node)
            return 1
    rep.ok("SUBSET-INDEX", fi, what, f"global batch indices of the failing members on {len(samples)} sample subsets", node=fi.node)
    return 1


def rule_zero_path(repo: Repo, rep: Report) -> int:
    """batched vs single-item zero-signal test of the power constraints uses the same quantity."""
    from .c08 import CBScaling, PW, cfg

    n = 0
    for cname, attr, average in (("TotalPowerConstraint", "total_power", False), ("AveragePowerConstraint", "average_power", True)):
        ci = repo.cls(PW, cname)
        T = Mono.sym("T")
        attrs = {f"self.{attr}": SV("det", T)}
        monos = {}
        for which, meth, atoms in (("batched", "forward", {"x.dim() > 1 and x.shape[0] > 1": True, "torch.is_complex(x)": False, "torch.any(zero_mask)": True}), ("single", "_apply_constraint_to_single_item", {"torch.is_complex(x)": False})):
            fi = repo.method(ci, meth)
            it = CBScaling(fi, repo, cls=ci, config=cfg(atoms), attr_values=attrs)
            it.run({"x": SV("sig", ONE), "args": NONE_V, "kwargs": NONE_V})
            cands = [(c, l, r) for (c, l, r) in it.compares if isinstance(l, SV) and l.kind == "det" and l.m is not None and not l.m.only_coef() and isinstance(r, SV) and r.kind == "det" and r.m is not None and r.m.only_coef() and isinstance(c.ops[0], ast.Lt)]
            if cands:
                c, l, r = cands[0]
                monos[which] = (l.m, r.m.coef_value(), unparse(c), fi)
        n += 1
        if len(monos) != 2:
            rep.undecided("ZERO-PATH", f"{PW}::{cname}", f"{cname}: zero-signal tests found on {sorted(monos)}", "could not derive both tests")
            continue
        (mb, tb, cb, fb), (ms, ts, cs, fs) = monos["batched"], monos["single"]
        if mb == ms and abs(tb - ts) < 1e-30:
            rep.ok("ZERO-PATH", fb, f"{cname}: batched `{cb}` ~ {mb.show()} < {tb:g}; single `{cs}` ~ {ms.show()} < {ts:g}", "a member takes the zero-signal path in a batch iff it does alone")
        else:
            rep.violation("ZERO-PATH", fb, f"{cname}: batched `{cb}` ~ {mb.show()} < {tb:g}; single `{cs}` ~ {ms.show()} < {ts:g}", "the batched and the single-item branch decide 'zero signal' on different quantities: a weak member is replaced by the uniform signal alone but only rescaled inside a batch (or vice versa)")
    return n


def run(repo: Repo, rep: Report, tier: str) -> None:
    classes = component_classes(repo)
    rep.floor("component classes", len(classes), 45)
    n = rule_purity(repo, rep, classes)
    n += rule_row_index(repo, rep, classes)
    n += rule_batch_coupled(repo, rep, classes)
    n += rule_batch_numerics(repo, rep, classes)
    n += rule_row_memo(repo, rep, classes)
    n += rule_slot_memo(repo, rep, classes)
    n += rule_cache_key(repo, rep, classes)
    n += rule_state(repo, rep, classes)
    n += rule_state_alias(repo, rep, classes)
    n += rule_tlist(repo, rep, classes)
    n += rule_zero_path(repo, rep)
    n += rule_index_broadcast(repo, rep, classes)
    n += rule_block_axis(repo, rep, classes)
    n += rule_chunk_cover(repo, rep, classes)
    n += rule_mixed_reduction(repo, rep, classes)
    n += rule_row_carry(repo, rep, classes)
    n += rule_subset_index(repo, rep)
    rep.floor("C20 rule instances", n, 85)
    rep.decided_clauses += [
        "no write through an alias of an input tensor in any component's forward / inverse / syndrome",
        "batch row index only as subscript; no batch-coupled early exit without row masks",
        "every cache store is keyed by everything the value depends on (module, class and instance level)",
        "no cross-call state in stateless components (read-before-write), no list-valued coordinate subscripts",
        "power constraints: batched and single-item zero-signal tests agree",
    ]
    rep.undecided_clauses += ["value equality of a batch result with the stack of single results", "layouts beyond those covered by C04's block rules"]
