"""C03 - the (n, k, d) and structure a code object advertises are its true parameters (constants and formulas)."""
from __future__ import annotations

import ast
from typing import Dict, List, Optional, Tuple

from .. import gf2
from ..astutil import Inliner, attr_chain, call_name, const_value, match, returns_of, stmts_of, statement_texts
from ..closedform import classify
from ..constfold import Folder, Unfoldable
from ..core import OK, UNDECIDED, VIOLATION, AnalysisError, ClassInfo, FuncInfo, Repo, Report, unparse
from ..fecrules import ENC
from ..speciallint import lint_value_keyed

EXPLANATION = (
    "Tables and formulas only. GOLAY: the literal 12x11 parity submatrix is extracted from the syntax tree; the checker enumerates the 2^12 codewords of [I | P] itself: minimum "
    "distance 7, sphere-packing bound met with equality (perfect); the extension column is evaluated from the expression in the source ((1 + rowsum) % 2) and the extended code has "
    "distance 8; the advertised values (23/24, 12, 7/8, t = 3) are compared. STD-TABLE: every entry of the cyclic standard-code table and the Golay generator polynomial divides "
    "X^n + 1 with n - deg g = k of its name (thorough: true distance by own enumeration); every BCH standard name (n,k) equals (2^mu-1, n - |union of cyclotomic cosets of 1..delta-1|); "
    "RS names follow k = n - (delta-1). FORMULA: advertised closed forms of Hamming (n, k, d), Reed-Muller (d = 2^(m-r), k = sum C(m,i)), repetition, single-parity-check, BCH "
    "(t = (delta-1)//2, d = delta, generator = lcm of minimal polynomials of alpha^1..alpha^(delta-1)), code_rate = k/n. EXTENSION: the column appended under `extended` must depend "
    "on the row sums of the parity submatrix (a constant column is not an overall parity). HAMMING-COLS: parity rows enumerate all mu-tuples of weight >= 2 exactly once. "
    "CYCLIC-LAYOUT: rows X^(m+i) + (X^(m+i) mod g) put the parity in coefficient columns [0, m); the parity submatrix slice must be those columns for every information set. "
    "ADVERTISED-DISTANCE: a distance method may not advertise an upper bound (the weight of g) as the minimum distance. True distances of constructed (non-tabulated) codes are not decided."
)

GOLAY = f"{ENC}/golay_code.py"
HAM = f"{ENC}/hamming_code.py"
CYC = f"{ENC}/cyclic_code.py"
BCH = f"{ENC}/bch_code.py"
RM = f"{ENC}/reed_muller_code.py"
RS = f"{ENC}/reed_solomon_code.py"
REP = f"{ENC}/repetition_code.py"
SPC = f"{ENC}/single_parity_check_code.py"
BASE = f"{ENC}/base.py"


def rule_golay(repo: Repo, rep: Report, thorough: bool) -> int:
    fi = repo.func(GOLAY, "create_golay_parity_submatrix")
    n = 0
    lit = None
    for st in stmts_of(fi.body):
        # the literal table, under whatever name: the first torch.tensor(<12 x 11 literal>) of the function
        if isinstance(st, ast.Assign) and isinstance(st.targets[0], ast.Name) and isinstance(st.value, ast.Call) and call_name(st.value) == "torch.tensor" and st.value.args:
            try:
                cand = const_value(st.value.args[0])
            except ValueError:
                cand = None
            if isinstance(cand, list) and len(cand) == 12 and all(isinstance(r, list) and len(r) == 11 for r in cand):
                lit = cand
                break
            if unparse(st.targets[0]) == "parity_submatrix":
                lit = cand
                break
    if lit is None or len(lit) != 12 or any(len(r) != 11 for r in lit):
        rep.undecided("GOLAY", fi, "literal parity submatrix", "not a 12x11 literal")
        return 1
    rows = []
    for i, r in enumerate(lit):
        full = [1 if j == i else 0 for j in range(12)] + [int(x) for x in r]
        rows.append(full)
    masks = gf2.rows_to_masks(rows)
    wd = gf2.weight_distribution(masks, 23)
    d = next(w for w in range(1, 24) if wd[w])
    rep.check(d == 7, "GOLAY", fi, f"[I | P] (23,12): minimum distance {d} over all 4096 codewords", "d = 7", f"the literal parity submatrix gives minimum distance {d}, not 7")
    rep.check(gf2.sphere_packing_equal(23, 12, 3) and d == 7, "GOLAY", fi, "sphere packing: sum_{i<=3} C(23,i) * 2^12 = 2^23", "perfect code", "sphere-packing equality fails")
    sym = all(wd[w] == wd[23 - w] for w in range(24))
    rep.check(sym and wd[7] == 253 and wd[8] == 506, "GOLAY", fi, f"weight distribution A7={wd[7]}, A8={wd[8]}, symmetric={sym}", "the Golay weight enumerator", "weight distribution is not that of the Golay code")
    n += 3
    # extension column: evaluate the expression in the source on the literal rows
    ext_stmts = [s for s in fi.body if isinstance(s, ast.If) and unparse(s.test) == "extended"]
    if len(ext_stmts) != 1:
        rep.undecided("GOLAY", fi, "extension block", "not found")
        return n + 1
    names = {unparse(s.targets[0]): s.value for s in ext_stmts[0].body if isinstance(s, ast.Assign)}
    col_expr = names.get("last_column")
    rs_expr = names.get("row_sums")
    ok_rs = rs_expr is not None and classify(rs_expr, ["torch.sum(parity_submatrix, dim=1) % 2", "parity_submatrix.sum(dim=1) % 2", "torch.sum(parity_submatrix, dim=1)"])[0] == OK
    ext_col = None
    if ok_rs and col_expr is not None:
        rowsum = [sum(int(x) for x in r) % 2 for r in lit] if "% 2" in unparse(rs_expr) else [sum(int(x) for x in r) for r in lit]
        try:
            ext_col = Folder({"row_sums": rowsum}).fold(col_expr)
        except Unfoldable:
            ext_col = None
    if ext_col is None:
        # unlisted spelling: run the statements of the `if extended:` block up to the definition of the column on the
        # literal matrix (own arithmetic)
        from ..frag import FragRaise, FragReturn, run_fragment

        pre = []
        for s_ in ext_stmts[0].body:
            pre.append(s_)
            if isinstance(s_, ast.Assign) and unparse(s_.targets[0]) == "last_column":
                break
        try:
            env = run_fragment(pre, {"parity_submatrix": [[int(x) for x in r] for r in lit]}) if col_expr is not None else {}
            ext_col = env.get("last_column")
        except (Unfoldable, FragRaise, FragReturn):
            ext_col = None
        if not (isinstance(ext_col, list) and len(ext_col) == 12 and all(isinstance(c, (int, float)) for c in ext_col)):
            ext_col = None
    if ext_col is None:
        # whatever the locals are called: the whole function evaluated with extended=True; the last column of the result is the extension
        from ..frag import FragRaise, FragReturn, run_fragment

        try:
            run_fragment(fi.body, {"extended": True, "dtype": "torch.float32", "device": None}, {}, materialise=True, max_steps=400000)
            whole = None
        except FragReturn as ret:
            whole = ret.value
        except (Unfoldable, FragRaise, TypeError, IndexError, ValueError):
            whole = None
        if isinstance(whole, list) and len(whole) == 12 and all(isinstance(r, list) and len(r) == 12 and all(isinstance(c, (int, float)) and not isinstance(c, bool) for c in r) for r in whole) and [[int(c) for c in r[:11]] for r in whole] == [[int(x) for x in r] for r in lit]:
            ext_col = [r[11] for r in whole]
            col_expr = col_expr if col_expr is not None else ast.parse("last_column_of_the_returned_matrix", mode="eval").body
    if ext_col is None:
        rep.undecided("GOLAY", fi, "extension column", f"expression not evaluable: {unparse(col_expr) if col_expr is not None else '?'}")
        return n + 1
    rows24 = [r + [int(c) % 2] for r, c in zip(rows, ext_col)]
    d24 = gf2.min_distance(gf2.rows_to_masks(rows24), 24)
    rep.check(d24 == 8, "GOLAY", fi, f"extension column {unparse(col_expr)} -> (24,12) code with minimum distance {d24}", "d = 8 (every row gets its overall parity)", f"the extended code has minimum distance {d24}, not 8")
    n += 1
    # advertised values
    ci = repo.cls(GOLAY, "GolayCodeEncoder")
    md = repo.method(ci, "minimum_distance")
    r = returns_of(md.node)
    if len(r) == 1:
        formula_grid(rep, "GOLAY", md, "advertised distance", r[0].value, [{"self._extended": e} for e in (False, True)], lambda p: 8 if p["self._extended"] else 7)
    else:
        rep.undecided("GOLAY", md, "advertised distance", f"{len(r)} returns")
    init = repo.method(ci, "__init__")
    vals = {attr_chain(s.targets[0]): unparse(s.value) for s in stmts_of(init.body) if isinstance(s, ast.Assign) and attr_chain(s.targets[0])}
    # advertised parameters evaluated with own arithmetic for both variants
    assigns_ = {attr_chain(s.targets[0]): s.value for s in stmts_of(init.body) if isinstance(s, ast.Assign) and attr_chain(s.targets[0])}
    got_par = {}
    evaluable = True
    for ext in (False, True):
        for key in ("self._theoretical_length", "self._theoretical_dimension", "self._error_correction_capability"):
            try:
                got_par[(ext, key)] = Folder({"extended": ext}, {"self._extended": ext}, lambda t, ext=ext: ext if unparse(t) in ("extended", "self._extended") else (not ext if unparse(t) in ("not extended", "not self._extended") else None)).fold(assigns_[key]) if key in assigns_ else None
            except Unfoldable:
                evaluable = False
    want_par = {(ext, "self._theoretical_length"): 24 if ext else 23 for ext in (False, True)}
    want_par.update({(ext, "self._theoretical_dimension"): 12 for ext in (False, True)})
    want_par.update({(ext, "self._error_correction_capability"): 3 for ext in (False, True)})
    ok = evaluable and got_par == want_par
    rep.shape(ok, evaluable and not ok and None not in got_par.values(), "GOLAY", init, f"advertised n={vals.get('self._theoretical_length')}, k={vals.get('self._theoretical_dimension')}, t={vals.get('self._error_correction_capability')}", "(23|24, 12), t = 3 = floor((7-1)/2)", "advertised Golay parameters are not (23|24, 12, t=3)")
    n += 2
    # generator polynomial constant
    mi = repo.module(GOLAY)
    gp = [s for s in mi.tree.body if isinstance(s, ast.Assign) and unparse(s.targets[0]) == "GOLAY_GENERATOR_POLYNOMIAL"]
    if gp:
        g = const_value(gp[0].value)
        ok = gf2.pdeg(g) == 11 and gf2.pmod((1 << 23) | 1, g) == 0
        dd = gf2.min_distance(gf2.cyclic_generator_rows(g, 23), 23) if ok else 0
        rep.check(ok and dd == 7, "STD-TABLE", f"{GOLAY}::GOLAY_GENERATOR_POLYNOMIAL", f"g = {bin(g)}: degree {gf2.pdeg(g)}, divides X^23+1: {ok}, distance of <g>: {dd}", "a generator polynomial of the (23,12,7) Golay code", "the Golay generator polynomial constant does not generate the (23,12,7) code")
        n += 1
    return n


def parse_nk(name: str) -> Optional[Tuple[int, int]]:
    import re

    m = re.search(r"\((\d+)\s*,\s*(\d+)\)", name)
    return (int(m.group(1)), int(m.group(2))) if m else None


KNOWN_DISTANCES = {"Hamming(7,4)": 3, "Simplex(7,3)": 4, "BCH(15,7)": 5, "BCH(15,5)": 7, "Golay(23,12)": 7}


def rule_tables(repo: Repo, rep: Report, thorough: bool) -> int:
    n = 0
    fi = repo.func(CYC, "CyclicCodeEncoder.create_standard_code")
    tab = None
    for st in stmts_of(fi.body):
        if isinstance(st, ast.Assign) and unparse(st.targets[0]) == "standard_codes" and isinstance(st.value, ast.Dict):
            tab = const_value(st.value)
    if tab is None:
        raise AnalysisError("anchor vanished: cyclic standard_codes literal")
    for name, ent in tab.items():
        nk = parse_nk(name)
        g, ln = ent.get("generator_polynomial"), ent.get("code_length")
        ok = nk is not None and ln == nk[0] and isinstance(g, int) and gf2.pmod((1 << ln) | 1, g) == 0 and ln - gf2.pdeg(g) == nk[1]
        detail = f"g = {bin(g)} (degree {gf2.pdeg(g)}), n = {ln}"
        extra = ""
        if ok and (thorough or nk[1] <= 12) and name in KNOWN_DISTANCES:
            d = gf2.min_distance(gf2.cyclic_generator_rows(g, ln), ln)
            extra = f", true distance {d}"
            ok = ok and d == KNOWN_DISTANCES[name]
        rep.check(ok, "STD-TABLE", fi, f"cyclic standard code {name}: {detail}{extra}", "g divides X^n+1, n - deg g = k, the code has its textbook distance", f"entry {name} is not the ({nk}) code: g must divide X^{ln}+1 with degree n-k" + (extra or ""))
        n += 1
    rep.floor("cyclic standard codes", len(tab), 5)
    # BCH standard names
    fi = repo.func(BCH, "BCHCodeEncoder.get_standard_codes")
    r = returns_of(fi.node)
    tab = const_value(r[0].value) if r and isinstance(r[0].value, ast.Dict) else None
    if tab is None:
        raise AnalysisError("anchor vanished: BCH standard codes literal")
    for name, ent in tab.items():
        nk = parse_nk(name)
        mu, delta = ent.get("mu"), ent.get("delta")
        nn = (1 << mu) - 1
        kk = gf2.bch_dimension(mu, delta)
        bose = gf2.bose_distance(mu, delta) == delta
        ok = nk == (nn, kk) and bose
        rep.check(ok, "STD-TABLE", fi, f"BCH standard code {name}: mu={mu}, delta={delta} -> (n,k) = ({nn},{kk}), delta is a Bose distance: {bose}", "name matches the narrow-sense BCH code of that design distance", f"{name} does not match mu={mu}, delta={delta}: that code is ({nn},{kk})" + ("" if bose else " and delta is not a Bose distance (the constructor rejects it)"))
        n += 1
    rep.floor("BCH standard codes", len(tab), 11)
    fi = repo.func(RS, "ReedSolomonCodeEncoder.get_standard_codes")
    r = returns_of(fi.node)
    tab = const_value(r[0].value) if r and isinstance(r[0].value, ast.Dict) else {}
    for name, ent in tab.items():
        nk = parse_nk(name)
        mu, delta = ent.get("mu"), ent.get("delta")
        nn = (1 << mu) - 1
        ok = nk == (nn, nn - (delta - 1))
        rep.check(ok, "STD-TABLE", fi, f"RS standard code {name}: mu={mu}, delta={delta} -> (n,k) = ({nn},{nn - (delta - 1)})", "k = n - (delta - 1)", f"{name} does not match mu={mu}, delta={delta}")
        n += 1
    return n


def attr_assign(fi: FuncInfo, attr: str) -> List[ast.Assign]:
    return [s for s in stmts_of(fi.body) if isinstance(s, ast.Assign) and attr_chain(s.targets[0]) == attr]



def formula_grid(rep: Report, rule: str, fi, what: str, expr: ast.AST, grid: List[Dict[str, object]], expected, attr_keys=()) -> None:
    """Evaluate an advertised closed form on a parameter grid with the checker's own arithmetic."""
    construct = f"{what}: {unparse(expr)}"
    bad = None
    try:
        for point in grid:
            names = {k: v for k, v in point.items() if not k.startswith("self.")}
            attrs = {k: v for k, v in point.items() if k.startswith("self.")}

            def dec(test, point=point):
                t = unparse(test)
                neg = t.startswith("not ")
                key = t[4:] if neg else t
                if key in point and isinstance(point[key], bool):
                    return (not point[key]) if neg else point[key]
                return None

            got = Folder(names, attrs, dec).fold(expr)
            want = expected(point)
            if abs(float(got) - float(want)) > 1e-9:
                bad = (point, got, want)
                break
    except Unfoldable as exc:
        rep.undecided(rule, fi, construct, f"not evaluable with literal arithmetic ({exc})")
        return
    if bad is None:
        rep.ok(rule, fi, construct, f"agrees with the definition on {len(grid)} parameter points")
    else:
        rep.violation(rule, fi, construct, f"for {bad[0]} the advertised value is {bad[1]}, the definition gives {bad[2]}")


def rule_formulas(repo: Repo, rep: Report) -> int:
    n = 0
    # Hamming
    ci = repo.cls(HAM, "HammingCodeEncoder")
    init = repo.method(ci, "__init__")
    vals = {attr_chain(s.targets[0]): s.value for s in stmts_of(init.body) if isinstance(s, ast.Assign) and attr_chain(s.targets[0])}
    grid = [{"mu": mu, "extended": ext} for mu in range(2, 9) for ext in (False, True)]
    for attr, what, fn in (
        ("self._theoretical_length", "Hamming n", lambda p: 2 ** p["mu"] if p["extended"] else 2 ** p["mu"] - 1),
        ("self._theoretical_dimension", "Hamming k", lambda p: 2 ** p["mu"] - p["mu"] - 1),
        ("self._theoretical_redundancy", "Hamming m", lambda p: p["mu"] + 1 if p["extended"] else p["mu"]),
    ):
        if attr in vals:
            formula_grid(rep, "FORMULA", init, what, vals[attr], grid, fn)
            n += 1
    md = repo.method(ci, "minimum_distance")
    r = returns_of(md.node)
    if r and isinstance(r[0].value, ast.Attribute) and attr_chain(r[0].value) in vals and attr_chain(r[0].value) not in ("self._extended",):
        # the distance is precomputed by the constructor: its defining expression is judged on the constructor's parameters
        formula_grid(rep, "FORMULA", init, f"Hamming advertised distance ({attr_chain(r[0].value)} set by the constructor)", vals[attr_chain(r[0].value)], grid, lambda p: 4 if p["extended"] else 3)
    elif r:
        formula_grid(rep, "FORMULA", md, "Hamming advertised distance", r[0].value, [{"self._extended": e} for e in (False, True)], lambda p: 4 if p["self._extended"] else 3)
    else:
        rep.undecided("FORMULA", md, "Hamming advertised distance", "no return")
    n += 1
    pf = repo.func(HAM, "create_hamming_parity_submatrix")
    kd = {unparse(s.targets[0]): s.value for s in pf.body if isinstance(s, ast.Assign)}
    if "k" in kd:
        formula_grid(rep, "FORMULA", pf, "Hamming parity rows k", kd["k"], [{"mu": mu} for mu in range(2, 9)], lambda p: 2 ** p["mu"] - p["mu"] - 1)
        n += 1
    # Reed-Muller
    ci = repo.cls(RM, "ReedMullerCodeEncoder")
    init = repo.method(ci, "__init__")
    a = attr_assign(init, "self.minimum_distance")
    for s_ in a:
        formula_grid(rep, "FORMULA", init, "Reed-Muller advertised distance", s_.value, [{"length_param": m_, "order": r_} for m_ in range(1, 7) for r_ in range(0, m_)], lambda p: 2 ** (p["length_param"] - p["order"]))
        n += 1
    rep.floor("RM distance definitions", len(a), 1)
    df = repo.func(RM, "calculate_reed_muller_dimension")
    r = returns_of(df.node)
    s, d, _ = classify(r[-1].value, ["sum((comb(m, i) for i in range(r + 1)))"]) if r else (UNDECIDED, "", None)
    if s == VIOLATION:
        s = UNDECIDED
    rep.add("FORMULA", df, f"Reed-Muller dimension: {unparse(r[-1].value) if r else '?'}", s, d or "sum_{i<=r} C(m,i)")
    n += 1
    gm = repo.func(RM, "_generate_reed_muller_matrix")
    st_e, d_e = rm_matrix_evaluated(repo)
    if st_e is not None:
        rep.add("FORMULA", gm, "RM(r, m) generator evaluated for every 0 <= r < m <= 5", st_e, d_e, node=gm.node)
        n += 1
        return n + _after_rm(repo, rep)
    loops = [s_ for s_ in stmts_of(gm.body) if isinstance(s_, ast.For)]
    ok = len(loops) == 2 and unparse(loops[0].iter) == "range(r, 0, -1)" and unparse(loops[1].iter) == "combinations(range(m), order)" and any(unparse(s_) == "rows.append(torch.ones(2 ** m, dtype=torch.int64))" for s_ in stmts_of(gm.body)) and any(unparse(s_) == "row = v[list(indices)].prod(dim=0)" for s_ in stmts_of(gm.body))
    rep.expect(ok, "FORMULA", gm, "RM rows = products of up to r evaluation vectors, all index subsets of each order, plus the all-ones row", "k = sum C(m,i) rows", "the Reed-Muller generator rows are not the monomials of degree <= r")
    n += 1
    return n + _after_rm(repo, rep)


def rm_matrix_evaluated(repo: Repo):
    """_generate_reed_muller_matrix (module helpers followed) evaluated with own arithmetic for every 0 <= r < m <= 5: the
    rows must span exactly the evaluations of the monomials of degree <= r in m binary variables, and there must be
    sum C(m, i) of them - that is RM(r, m), whose minimum distance is 2^(m-r)."""
    from itertools import combinations as _comb

    from ..constfold import Unfoldable
    from ..frag import FragRaise, FragReturn, run_fragment
    from ..gf2 import rank as _rank

    def gf2_rank(M):
        return _rank([int(''.join(str(b) for b in row), 2) for row in M])

    mi = repo.module(RM)
    funcs = {nm: f.node for nm, f in mi.functions.items()}
    gm = repo.func(RM, "_generate_reed_muller_matrix")
    cases = 0
    for m in range(1, 6):
        for r in range(0, m):
            try:
                run_fragment(gm.body, {"r": r, "m": m}, {}, funcs={k: v for k, v in funcs.items() if k != gm.name}, materialise=True, max_steps=2000000)
                return None, "no value returned"
            except FragReturn as ret:
                G = ret.value
            except (Unfoldable, FragRaise, TypeError, IndexError, ValueError) as exc:
                return None, f"RM({r},{m}): {exc}"
            n_ = 2**m
            if not (isinstance(G, list) and G and all(isinstance(row, list) and len(row) == n_ and all(isinstance(x, (int, float)) and not isinstance(x, bool) and x in (0, 1) for x in row) for row in G)):
                return None, f"RM({r},{m}): the result is not a 0/1 matrix with {n_} columns"
            G = [[int(x) for x in row] for row in G]
            # own reference: evaluations of all monomials of degree <= r; point j has coordinates = bits of j
            # (any fixed coordinate order gives the same code up to the same column permutation for every monomial; the
            # span comparison below uses the repository's own variable rows, taken from its degree-1 code)
            ref = []
            for deg in range(0, r + 1):
                for sub in _comb(range(m), deg):
                    ref.append([int(all((j >> (m - 1 - i)) & 1 for i in sub)) for j in range(n_)])
            k_ = len(ref)
            # column order is a convention: accept any order of the variables that makes the degree-1 rows match
            if gf2_rank(G) != k_ or len(G) != k_:
                return VIOLATION, f"RM({r},{m}): the generator has {len(G)} rows of GF(2) rank {gf2_rank(G)}; RM({r},{m}) has dimension sum C({m}, i<={r}) = {k_}"
            if gf2_rank(G + ref) != k_:
                wt = min(sum(row) for row in G)
                return VIOLATION, f"RM({r},{m}): the rows do not span the evaluations of the monomials of degree <= {r} (a row of weight {wt} is present; every non-zero word of RM({r},{m}) has weight >= {2 ** (m - r)}): the code is not RM({r},{m}) and the advertised minimum distance 2^(m-r) does not hold"
            cases += 1
    return OK, f"{cases} codes: sum C(m,i) independent rows spanning exactly the monomials of degree <= r (own GF(2) elimination): the code is RM(r,m) with d = 2^(m-r)"


def _after_rm(repo: Repo, rep: Report) -> int:
    n = 0
    # repetition / SPC
    ci = repo.cls(REP, "RepetitionCodeEncoder")
    init = repo.method(ci, "__init__")
    g = [s_ for s_ in stmts_of(init.body) if isinstance(s_, ast.Assign) and unparse(s_.targets[0]) == "generator_matrix"]
    s, d, _ = classify(g[0].value, ["torch.ones((1, repetition_factor), dtype=torch.float32)", "torch.ones(1, repetition_factor, dtype=torch.float32)", "torch.ones((1, repetition_factor))"]) if g else (UNDECIDED, "", None)
    rep.add("FORMULA", init, f"repetition generator: {unparse(g[0].value) if g else '?'}", s, d or "(n,1,n) code")
    n += 1
    gf = repo.func(SPC, "_generate_single_parity_check_matrix")
    body = [unparse(s_) for s_ in gf.body]
    ok = "identity = torch.eye(dimension, dtype=torch.int64)" in body and "parity_column = torch.ones((dimension, 1), dtype=torch.int64)" in body and "gen_matrix = torch.cat([identity, parity_column], dim=1)" in body
    rep.expect(ok, "FORMULA", gf, "SPC generator [I_k | 1]", "(k+1, k, 2) even-weight code", "the single-parity-check generator is not [I | all-ones column]")
    ci = repo.cls(SPC, "SingleParityCheckCodeEncoder")
    a = attr_assign(repo.method(ci, "__init__"), "self.minimum_distance")
    if len(a) == 1:
        formula_grid(rep, "FORMULA", repo.method(ci, "__init__"), "SPC advertised distance", a[0].value, [{"dimension": k_} for k_ in range(1, 8)], lambda p: 2)
    else:
        rep.undecided("FORMULA", repo.method(ci, "__init__"), "SPC advertised distance", f"{len(a)} definitions")
    n += 2
    # BCH
    ci = repo.cls(BCH, "BCHCodeEncoder")
    init = repo.method(ci, "__init__")
    a = attr_assign(init, "self._error_correction_capability")
    for s_ in a:
        formula_grid(rep, "FORMULA", init, "BCH t", s_.value, [{"delta": d_} for d_ in range(2, 40)], lambda p: (p["delta"] - 1) // 2)
        n += 1
    rep.floor("BCH t definitions", len(a), 1)
    md = repo.method(ci, "minimum_distance")
    r = returns_of(md.node)
    uses_parent = len(r) == 1 and any(isinstance(x, ast.Call) and unparse(x.func) in ("super().minimum_distance", "CyclicCodeEncoder.minimum_distance") for x in ast.walk(r[0].value))
    rep.shape(len(r) == 1 and unparse(r[0].value) in ("self._delta", "self.delta"), len(r) == 1 and (uses_parent or isinstance(r[0].value, (ast.BinOp, ast.Constant)) or (isinstance(r[0].value, ast.Attribute) and "delta" not in r[0].value.attr)), "FORMULA", md, f"BCH advertised distance: {unparse(r[0].value) if r else '?'}", "the design distance (BCH bound: true d >= delta)", "BCH advertises something other than its design distance" + (": the parent's value is the weight of the generator polynomial for k > 12 - an UPPER bound on the distance - so e.g. BCH(31,21) reports 7 where the true distance is 5" if uses_parent else ""))
    n += 1
    gp = repo.func(BCH, "compute_bch_generator_polynomial")
    if any(isinstance(c_, ast.Call) and isinstance(c_.func, ast.Attribute) and c_.func.attr == "lcm" for c_ in ast.walk(gp.node)):
        # the generator is accumulated with BinaryPolynomial.lcm: it has every root alpha^1 .. alpha^(delta-1) only if that is the lcm
        from .c18 import lcm_tabulated

        lfi = repo.func("kaira/models/fec/algebra.py", "BinaryPolynomial.lcm")
        lst_, ld_ = lcm_tabulated(lfi)
        if lst_ in (OK, VIOLATION):
            rep.add("FORMULA", lfi, "BCH generator = lcm of the minimal polynomials: BinaryPolynomial.lcm tabulated against a*b / gcd(a,b)", lst_, ld_ + ("" if lst_ == OK else " - the BCH generator polynomial then lacks some of the roots alpha^1 .. alpha^(delta-1), and the design distance is not guaranteed"), node=lfi.node)
            n += 1
    loops = [s_ for s_ in stmts_of(gp.body) if isinstance(s_, ast.For)]
    body = [unparse(s_) for s_ in stmts_of(gp.body)]
    root_loops = [l for l in loops if any("minimal_polynomial()" in unparse(x) for x in l.body)]
    lcm_ok = "generator_poly = generator_poly.lcm(poly)" in body
    ok = len(root_loops) == 1 and unparse(root_loops[0].iter) == "range(1, delta)" and lcm_ok and any(b in ("minimal_poly = (alpha ** i).minimal_polynomial()", "poly = (alpha ** i).minimal_polynomial()") for b in body) and "alpha = field.primitive_element()" in body
    roots_verdict = None
    if not ok and len(root_loops) == 1 and isinstance(root_loops[0].target, ast.Name) and any(f"alpha ** {root_loops[0].target.id}" in unparse(x) for x in root_loops[0].body):
        # unlisted enumeration of the roots: the exponents visited (closed under conjugation, i.e. under doubling mod
        # 2^mu - 1) must contain 1 .. delta-1 for every design distance - evaluated for mu = 3..6 and every delta
        local = {}
        for s_ in stmts_of(gp.body):
            if isinstance(s_, ast.Assign) and len(s_.targets) == 1 and isinstance(s_.targets[0], ast.Name):
                local.setdefault(s_.targets[0].id, []).append(s_.value)
        local = {k_: v_[0] for k_, v_ in local.items() if len(v_) == 1 and k_ not in ("delta", "mu")}
        bad_ = None
        try:
            for mu_ in (3, 4, 5, 6):
                nn_ = 2**mu_ - 1
                for d_ in range(2, nn_ + 1):
                    names_ = dict(local)
                    names_.update({"delta": d_, "mu": mu_})
                    visited = Folder(names_).fold(root_loops[0].iter)
                    if not isinstance(visited, list) or not all(isinstance(t_, int) for t_ in visited):
                        raise Unfoldable("loop range")
                    closure = set()
                    for t_ in visited:
                        closure |= set(gf2.cyclotomic_coset(t_ % nn_, nn_))
                    missing = [j_ for j_ in range(1, d_) if j_ % nn_ not in closure]
                    if missing and bad_ is None:
                        bad_ = (mu_, d_, list(visited)[:6], missing[:4])
            roots_verdict = bad_
        except Unfoldable:
            roots_verdict = "unfoldable"
    if roots_verdict not in (None, "unfoldable"):
        mu_, d_, vis_, miss_ = roots_verdict
        rep.violation("FORMULA", gp, f"BCH roots: for {unparse(root_loops[0].target)} in {unparse(root_loops[0].iter)}", f"for mu = {mu_}, delta = {d_} the loop visits the exponents {vis_}: alpha^{miss_[0]} (and its conjugates) is not a root of the generator, so the code does not have the delta - 1 consecutive roots of the BCH bound and its true distance is below the advertised one (delta = 2 gives g = 1, the whole space)", node=root_loops[0])
    elif roots_verdict is None and not ok and len(root_loops) == 1 and isinstance(root_loops[0].target, ast.Name) and any(f"alpha ** {root_loops[0].target.id}" in unparse(x) for x in root_loops[0].body) and any("lcm(" in unparse(x) for x in ast.walk(gp.node) if isinstance(x, ast.Call)):
        rep.ok("FORMULA", gp, f"BCH roots: for {unparse(root_loops[0].target)} in {unparse(root_loops[0].iter)} (lcm of minimal polynomials)", "unlisted enumeration; with conjugates it contains alpha^1 .. alpha^(delta-1) for mu = 3..6 and every delta")
    elif len(root_loops) == 1 and unparse(root_loops[0].iter) != "range(1, delta)" and "delta" in unparse(root_loops[0].iter):
        rep.violation("FORMULA", gp, f"BCH roots: for i in {unparse(root_loops[0].iter)}", "the generator must have the delta-1 consecutive roots alpha^1 .. alpha^(delta-1)")
    else:
        rep.expect(ok, "FORMULA", gp, "BCH generator = lcm of the minimal polynomials of alpha^i, i in range(1, delta)", "delta-1 consecutive roots: BCH bound d >= delta", "generator polynomial construction changed")
    n += 1
    # code rate
    br = repo.func(BASE, "BaseBlockCodeEncoder.code_rate")
    r = returns_of(br.node)
    if r:
        formula_grid(rep, "FORMULA", br, "code_rate", r[0].value, [{"self._dimension": k_, "self._length": n_, "self.code_dimension": k_, "self.code_length": n_} for k_, n_ in ((4, 7), (1, 3), (11, 15), (12, 24))], lambda p: p["self._dimension"] / p["self._length"])
    else:
        rep.undecided("FORMULA", br, "code_rate", "no return")
    n += 1
    return n


def rule_extension(repo: Repo, rep: Report) -> int:
    """The column appended under `extended` must depend on the row sums of the parity submatrix."""
    n = 0
    for file, fname in ((HAM, "create_hamming_parity_submatrix"), (GOLAY, "create_golay_parity_submatrix")):
        fi = repo.func(file, fname)
        blocks = [s for s in fi.body if isinstance(s, ast.If) and unparse(s.test) == "extended"]
        if len(blocks) != 1:
            rep.undecided("EXTENSION", fi, "extended block", f"{len(blocks)} found")
            n += 1
            continue
        cat = [s for s in blocks[0].body if isinstance(s, ast.Assign) and isinstance(s.value, ast.Call) and call_name(s.value) == "torch.cat"]
        if len(cat) != 1:
            rep.undecided("EXTENSION", fi, "extension concatenation", "not found")
            n += 1
            continue
        elts = cat[0].value.args[0].elts if isinstance(cat[0].value.args[0], (ast.List, ast.Tuple)) else []
        col = elts[-1] if elts else None
        # the matrix that is extended is the first operand of the concatenation, whatever it is called
        base_name = elts[0].id if elts and isinstance(elts[0], ast.Name) else "parity_submatrix"
        # dependence closure inside the block
        defs = {unparse(s.targets[0]): s.value for s in blocks[0].body if isinstance(s, ast.Assign)}
        seen = set()

        def depends(e: ast.AST) -> bool:
            for x in ast.walk(e):
                if isinstance(x, ast.Name):
                    if x.id == base_name:
                        return True
                    if x.id in defs and x.id not in seen:
                        seen.add(x.id)
                        if depends(defs[x.id]):
                            return True
            return False

        dep = col is not None and depends(col)
        uses_sum = dep and any(isinstance(x, ast.Call) and (call_name(x) or "").split(".")[-1] == "sum" for d_ in list(defs.values()) + [col] for x in ast.walk(d_))
        construct = f"{fname}: extension column = {unparse(col) if col is not None else '?'}"
        if dep and uses_sum:
            rep.ok("EXTENSION", fi, construct, "depends on the row sums of the parity submatrix: an overall parity bit per row")
        elif not dep:
            rep.violation("EXTENSION", fi, construct, "the appended column does not depend on the rows of the parity submatrix: a constant column is not the overall parity when row weights have mixed parity (the extended distance is not reached)")
        else:
            rep.undecided("EXTENSION", fi, construct, "depends on the parity submatrix but not through a row sum")
        n += 1
    # Hamming: value of the overall parity: (1 + rowsum) % 2 (identity bit + parity row)
    fi = repo.func(HAM, "create_hamming_parity_submatrix")
    blk = [s for s in fi.body if isinstance(s, ast.If) and unparse(s.test) == "extended"][0]
    pe = [s for s in blk.body if isinstance(s, ast.Assign) and unparse(s.targets[0]) == "parity_extension"]
    if pe:
        s, d, _ = classify(pe[0].value, ["(1 + parity_submatrix.sum(dim=1, keepdim=True)) % 2", "(parity_submatrix.sum(dim=1, keepdim=True) + 1) % 2", "(1 + torch.sum(parity_submatrix, dim=1, keepdim=True)) % 2"])
        rep.add("EXTENSION", fi, f"Hamming overall parity: {unparse(pe[0].value)}", s, d or "1 (information bit) + row weight of P, mod 2")
        n += 1
    return n


def rule_hamming_columns(repo: Repo, rep: Report) -> int:
    fi = repo.func(HAM, "create_hamming_parity_submatrix")
    n = 0
    hst, hd = hamming_rows_evaluated(fi)
    if hst in (OK, VIOLATION):
        rep.add("HAMMING-COLS", fi, "parity submatrix evaluated for mu = 2..5 (plain and extended)", hst, hd, node=fi.node)
        return 1
    blocks = [s for s in fi.body if isinstance(s, ast.If) and "mu <=" in unparse(s.test)]
    loops = []
    for b in blocks:
        for s in b.body:
            if isinstance(s, ast.For):
                loops.append(s)
    if not loops:
        rep.undecided("HAMMING-COLS", fi, "weight loop", "not found")
        return 1
    lp = loops[0]
    ok1 = unparse(lp.iter) == "range(2, mu + 1)"
    inner = [s for s in lp.body if isinstance(s, ast.For)]
    ok2 = len(inner) == 1 and unparse(inner[0].iter) == f"itertools.combinations(range(mu), {unparse(lp.target)})"
    if not ok1 and unparse(lp.iter).startswith("range("):
        rep.violation("HAMMING-COLS", fi, f"for {unparse(lp.target)} in {unparse(lp.iter)}", "the parity rows must be all mu-tuples of weight 2..mu (2^mu - mu - 1 = k of them): another weight range gives duplicate or missing columns of H")
    else:
        rep.expect(ok1 and ok2, "HAMMING-COLS", fi, "for w in range(2, mu + 1): for indices in combinations(range(mu), w)", "every mu-tuple of weight >= 2 exactly once: k = 2^mu - mu - 1 distinct non-unit columns", "parity-row enumeration changed")
    n += 1
    body = [unparse(s) for s in stmts_of(inner[0].body)] if inner else []
    ok = "row.index_fill_(0, torch.tensor(indices, device=device), 1.0)" in body and "parity_submatrix[row_idx, :] = row" in body and "row_idx += 1" in body
    rep.expect(ok, "HAMMING-COLS", fi, "row = indicator of the index tuple; stored at consecutive rows", "each tuple becomes one row", "row construction changed")
    return n + 1


def hamming_rows_evaluated(fi: FuncInfo):
    """Run create_hamming_parity_submatrix (own arithmetic) for mu = 2..5: its k = 2^mu - mu - 1 rows must be exactly the
    mu-tuples of weight >= 2, each once (then [I | P] has every non-zero mu-tuple as a column of H: d = 3); the extended
    variant appends the overall parity (1 + row sum) mod 2."""
    from ..frag import FragRaise, FragReturn, run_fragment

    for mu in (2, 3, 4, 5):
        for ext in (False, True):
            try:
                run_fragment(fi.body, {"mu": mu, "extended": ext, "dtype": "torch.float32", "device": None}, {}, max_steps=400000, materialise=True)
                return UNDECIDED, "no value returned"
            except FragReturn as r:
                P = r.value
            except (Unfoldable, FragRaise, TypeError, IndexError) as exc:
                return UNDECIDED, f"not evaluable ({exc})"
            k = 2**mu - mu - 1
            if not (isinstance(P, list) and len(P) == k and all(isinstance(r_, list) and len(r_) == mu + (1 if ext else 0) for r_ in P)):
                return VIOLATION, f"for mu = {mu}, extended = {ext} the parity submatrix is not {k} x {mu + (1 if ext else 0)}"
            rows = [tuple(int(x) for x in r_[:mu]) for r_ in P]
            want = {t_ for t_ in __import__("itertools").product((0, 1), repeat=mu) if sum(t_) >= 2}
            if set(rows) != want or len(set(rows)) != len(rows):
                return VIOLATION, f"for mu = {mu} the parity rows {rows[:4]}... are not the mu-tuples of weight >= 2, each exactly once: H = [P^T | I] then has a repeated or missing column and the code is not the Hamming code (d < 3 or wrong k)"
            if ext and any(int(r_[mu]) % 2 != (1 + sum(rows[i])) % 2 for i, r_ in enumerate(P)):
                return VIOLATION, f"for mu = {mu} the appended column is not the overall parity (1 + row sum) mod 2 of each generator row: the extended code does not have distance 4"
    return OK, "rows = all mu-tuples of weight >= 2, each once; extension column = overall parity (mu = 2..5)"


#: (n, g) the systematic cyclic generator construction is evaluated for (g divides X^n + 1)
CYCLIC_SAMPLES = ((7, 0b1011), (7, 0b1101), (7, 0b10111), (15, 0b10011), (15, 0b111010001), (23, 0b101011100011), (31, 0b100101))


def cyclic_matrix_evaluated(repo: Repo, gi):
    """_generate_systematic_matrix evaluated for CYCLIC_SAMPLES: row i must hold the coefficients of
    X^(m+i) + (X^(m+i) mod g), the coefficient of X^j in column j (k x n, 0/1 entries)."""
    from .. import gf2
    from ..constfold import Unfoldable
    from ..frag import FragRaise, FragReturn, run_fragment

    ci = gi.cls if hasattr(gi, "cls") and gi.cls is not None else repo.cls(CYC, "CyclicCodeEncoder")
    funcs = {f"self.{nm}": f.node for nm, f in ci.methods.items() if nm not in ("__init__", gi.name)}
    for nn, g in CYCLIC_SAMPLES:
        m = g.bit_length() - 1
        k = nn - m
        attrs = {"self._length": nn, "self._dimension": k, "self._redundancy": m, "self._generator_poly": gf2.BP(g)}
        try:
            run_fragment(gi.body, {}, attrs, max_steps=600000, materialise=True, funcs=funcs, ctors={"BinaryPolynomial": gf2.BP})
            return UNDECIDED, "no value returned"
        except FragReturn as r:
            M = r.value
        except (Unfoldable, FragRaise, TypeError, IndexError, ZeroDivisionError) as exc:
            return UNDECIDED, f"{exc}"
        if not (isinstance(M, list) and len(M) == k and all(isinstance(r_, list) and len(r_) == nn for r_ in M)):
            return VIOLATION, f"for n = {nn}, g = {g:#b} the generator matrix is not {k} x {nn}"
        for i in range(k):
            word = (1 << (m + i)) ^ gf2.pmod(1 << (m + i), g)
            want = [(word >> j) & 1 for j in range(nn)]
            if [x for x in M[i]] != want and [float(x) for x in M[i]] != [float(x) for x in want]:
                return VIOLATION, f"for n = {nn}, g = {g:#b} row {i} is {[int(x) if float(x) == int(x) else x for x in M[i]]}; X^{m + i} + (X^{m + i} mod g) has the coefficients {want} (coefficient of X^j in column j): the rows are not the systematic codewords of the cyclic code"
    return OK, f"k x n with row i = coefficients of X^(m+i) + (X^(m+i) mod g) for {len(CYCLIC_SAMPLES)} sample (n, g), n up to 31"


def cyclic_distance_evaluated(repo: Repo):
    """CyclicCodeEncoder.encode_message_polynomial and minimum_distance (class helpers followed; polynomials modelled by
    gf2.BP) evaluated for three sample (n, g) with the object's generator matrix in the 'left' layout [I | P] and in the
    'right' layout [P | I]: every message polynomial u must be encoded as u X^m + (u X^m mod g) - a multiple of g - and
    the advertised distance must be the minimum weight over the non-zero code words (own GF(2)[x] arithmetic).
    Returns (status, detail) or (None, reason)."""
    from .. import gf2
    from ..constfold import Unfoldable
    from ..frag import FragRaise, FragReturn, run_fragment

    ci = repo.cls(CYC, "CyclicCodeEncoder")
    enc = repo.method(ci, "encode_message_polynomial")
    md = repo.method(ci, "minimum_distance")
    funcs = {f"self.{nm}": f.node for nm, f in ci.methods.items() if nm not in ("__init__", "forward", "minimum_distance")}
    cases = 0
    for nn, g in ((7, 0b1011), (7, 0b10111), (15, 0b111010001)):
        m = g.bit_length() - 1
        k = nn - m
        P = [[(gf2.pmod(1 << (m + i), g) >> j) & 1 for j in range(m)] for i in range(k)]
        eye = [[float(i == j) for j in range(k)] for i in range(k)]
        words = {u: (u << m) ^ gf2.pmod(u << m, g) for u in range(1, 1 << k)}
        dmin = min(bin(w).count("1") for w in words.values())
        for layout, G in (("left", [eye[i] + [float(x) for x in P[i]] for i in range(k)]), ("right", [[float(x) for x in P[i]] + eye[i] for i in range(k)])):
            base = {"self._length": nn, "self._dimension": k, "self._redundancy": m, "self._generator_poly": gf2.BP(g), "self.generator_matrix": G, "self._generator_matrix": G, "self.code_length": nn, "self.code_dimension": k, "self.redundancy": m}
            attrs = dict(base)
            for u, want in words.items():
                try:
                    run_fragment(enc.body, {"message_poly": gf2.BP(u)}, attrs, max_steps=200000, materialise=True, funcs={k_: v_ for k_, v_ in funcs.items() if k_ != "self.encode_message_polynomial"}, ctors={"BinaryPolynomial": gf2.BP}, attrs_live=True)
                    return None, "encode_message_polynomial returns no value"
                except FragReturn as r:
                    got = r.value
                except FragRaise:
                    return VIOLATION, f"n = {nn}, g = {g:#b}: the message polynomial {u:#b} is rejected"
                except (Unfoldable, TypeError, IndexError, ZeroDivisionError, ValueError, KeyError) as exc:
                    return None, f"encode_message_polynomial not evaluable ({exc})"
                if not isinstance(got, gf2.BP):
                    return None, f"encode_message_polynomial returns {got!r}, not a polynomial"
                if got.value != want:
                    return VIOLATION, f"n = {nn}, g = {g:#b}, generator matrix in the '{layout}' layout: the message polynomial {u:#b} is encoded as {got.value:#b}; u X^m + (u X^m mod g) is {want:#b}" + (f" (the returned word leaves the remainder {gf2.pmod(got.value, g):#b} modulo g: it is not a code word, and minimum_distance(), which enumerates through this method, advertises a wrong distance)" if gf2.pmod(got.value, g) else "")
                cases += 1
            attrs = dict(base)
            try:
                run_fragment(md.body, {}, attrs, max_steps=3000000, materialise=True, funcs=funcs, ctors={"BinaryPolynomial": gf2.BP}, attrs_live=True)
                return None, "minimum_distance returns no value"
            except FragReturn as r:
                got = r.value
            except (Unfoldable, FragRaise, TypeError, IndexError, ZeroDivisionError, ValueError, KeyError, OverflowError) as exc:
                return None, f"minimum_distance not evaluable ({exc})"
            if got != dmin:
                return VIOLATION, f"n = {nn}, g = {g:#b}, '{layout}' layout: minimum_distance() returns {got}; the minimum weight over the {len(words)} non-zero code words is {dmin}"
            cases += 1
    return OK, f"{cases} evaluations: u X^m + (u X^m mod g) for every non-zero message of (7,4), (7,3), (15,7) in both generator layouts, and the advertised distance equals the minimum code-word weight"


def rule_cyclic_layout(repo: Repo, rep: Report) -> int:
    n = 0
    dst_, dd_ = cyclic_distance_evaluated(repo)
    ep_ = repo.func(CYC, "CyclicCodeEncoder.encode_message_polynomial")
    if dst_ is None:
        rep.undecided("CYCLIC-LAYOUT", ep_, "polynomial encoder and enumerated distance evaluated for sample (n, g)", dd_, node=ep_.node)
    else:
        rep.add("CYCLIC-LAYOUT", ep_, "polynomial encoder and enumerated distance evaluated for sample (n, g), generator matrix in both layouts", dst_, dd_, node=ep_.node)
    n += 1
    gi = repo.func(CYC, "CyclicCodeEncoder._generate_systematic_matrix")
    body = statement_texts(gi)
    forms = [
        "shifted_poly = self._custom_pow(X, m + i)",
        "remainder_poly = shifted_poly % self._generator_poly",
        "codeword_poly = BinaryPolynomial(shifted_poly.value ^ remainder_poly.value)",
        "coeffs = codeword_poly.to_coefficient_list()",
        "generator_matrix[i, j] = 1.0",
    ]
    ok = all(f in body for f in forms) and "n, k, m = (self._length, self._dimension, self._redundancy)" in body
    # recognised wrong idiom: the coefficients of the integer word are unpacked with floating-point arithmetic
    for st_ in ast.walk(gi.node):
        if isinstance(st_, ast.Assign) and isinstance(st_.targets[0], ast.Subscript) and unparse(st_.targets[0].value if not isinstance(st_.targets[0].value, ast.Subscript) else st_.targets[0].value.value) == "generator_matrix":
            vt = unparse(st_.value)
            if ("float(" in vt and ".value" in vt) or ("torch.floor(" in vt and "/" in vt):
                rep.violation("CYCLIC-LAYOUT", gi, st_, "the bits of the codeword polynomial (an integer of up to n bits) are extracted through floating-point division: a float32 quotient keeps 24 significant bits, so for code lengths above 24 the low-order coefficients of each row are rounded away (the standard table goes up to n = 127)", node=st_)
                n += 1
    if not ok:
        # another spelling: the construction is evaluated (own arithmetic, the polynomial class modelled by gf2.BP)
        est, edetail = cyclic_matrix_evaluated(repo, gi)
        if est in (OK, VIOLATION):
            rep.add("CYCLIC-LAYOUT", gi, "systematic generator evaluated for sample (n, g)", est, edetail, node=gi.node)
            ok = est == OK
        else:
            rep.undecided("CYCLIC-LAYOUT", gi, "row i = X^(m+i) + (X^(m+i) mod g); coefficient of X^j stored in column j", f"code shape not recognised and not evaluable ({edetail})", node=gi.node)
    else:
        rep.ok("CYCLIC-LAYOUT", gi, "row i = X^(m+i) + (X^(m+i) mod g); coefficient of X^j stored in column j", "identity in columns m..n-1 (degree m+i), parity (degree < m) in columns 0..m-1")
    n += 1
    init = repo.func(CYC, "CyclicCodeEncoder.__init__")
    ps = [s for s in stmts_of(init.body) if isinstance(s, ast.Assign) and unparse(s.targets[0]) == "parity_submatrix"]
    if not ps:
        rep.undecided("CYCLIC-LAYOUT", init, "parity_submatrix", "no definition found")
        return n + 1
    v = ps[0].value
    sliced_ok = len(ps) == 1 and classify(v, ["generator_matrix[:, 0:n - k]", "generator_matrix[:, :n - k]", "generator_matrix[:, 0:self._redundancy]", "generator_matrix[:, :self._redundancy]"])[0] == OK
    if not sliced_ok and ok:
        # unlisted spelling: evaluate what reaches super().__init__ on a sample matrix with distinct entries, for the
        # 'left', 'right' and index-list information sets (own arithmetic)
        from ..constfold import Folder, Unfoldable
        from ..frag import FragRaise, FragReturn, run_fragment

        sup = [c for c in ast.walk(init.node) if isinstance(c, ast.Call) and unparse(c.func) == "super().__init__"]
        arg = next((k.value for c in sup for k in c.keywords if k.arg == "parity_submatrix"), None)
        top = [s_ for s_ in init.body if any(isinstance(x, ast.Name) and x.id == "parity_submatrix" and isinstance(x.ctx, ast.Store) for x in ast.walk(s_))]
        kk, nn = 3, 7
        M = [[10 * i + j for j in range(nn)] for i in range(kk)]
        want = [row[: nn - kk] for row in M]
        bad = und = None
        for info in ("left", "right", [0, 2, 4]):
            try:
                if arg is None:
                    raise Unfoldable("super().__init__(parity_submatrix=...) not found")
                env = run_fragment(top, {"generator_matrix": M, "k": kk, "n": nn, "information_set": info}, {"self._dimension": kk, "self._length": nn, "self._redundancy": nn - kk})
                got = Folder({k_: v_ for k_, v_ in env.items() if k_ != "__attrs__"}, env["__attrs__"]).fold(arg)
            except (Unfoldable, FragRaise, FragReturn) as exc:
                und = f"information_set={info!r}: {exc}"
                break
            if got != want:
                bad = f"for information_set={info!r} the parity submatrix handed to the systematic encoder is columns {[[e % 10 for e in r] for r in got][0] if isinstance(got, list) and got and isinstance(got[0], list) else got} of the systematic generator instead of [0, n-k) in order"
                break
        if bad:
            rep.violation("CYCLIC-LAYOUT", init, f"parity_submatrix = {unparse(ps[-1].value)}", bad + ": the encoder's words are no longer the multiples of g (not closed under cyclic shifts)", node=ps[-1])
        elif und:
            rep.undecided("CYCLIC-LAYOUT", init, f"parity_submatrix = {unparse(ps[-1].value)}", f"not evaluable ({und})", node=ps[-1])
        else:
            rep.ok("CYCLIC-LAYOUT", init, f"parity_submatrix = {unparse(ps[-1].value)}", "unlisted spelling; evaluates to the parity columns [0, n-k) in order for the left, right and index-list information sets", node=ps[-1])
    elif sliced_ok and ok:
        rep.ok("CYCLIC-LAYOUT", init, f"parity_submatrix = {unparse(v)}", "the parity columns [0, n-k) for every information set: the produced words are the multiples of g (cyclically shifted for the 'left' layout)", node=ps[0])
    elif ok and ("k:n" in unparse(v).replace(" ", "") or isinstance(v, ast.IfExp)):
        rep.violation("CYCLIC-LAYOUT", init, f"parity_submatrix = {unparse(v)}", "a slice other than columns [0, n-k) mixes identity and parity columns of the systematic generator: the encoder's words are not the multiples of g (not cyclic, smaller distance)", node=ps[0])
    else:
        rep.undecided("CYCLIC-LAYOUT", init, f"parity_submatrix = {unparse(v)}", "slice not recognised", node=ps[0])
    n += 1
    # divisibility validation of g
    chk = [s for s in stmts_of(init.body) if isinstance(s, ast.If) and unparse(s.test) == "remainder.value != 0" and any(isinstance(x, ast.Raise) for x in s.body)]
    weak = [s for s in stmts_of(init.body) if isinstance(s, ast.If) and any(isinstance(x, ast.Raise) for x in s.body) and isinstance(s.test, ast.BoolOp) and isinstance(s.test.op, ast.And) and any(unparse(v_) == "remainder.value != 0" for v_ in s.test.values)]
    rep.shape(len(chk) >= 2, bool(weak), "CYCLIC-LAYOUT", init, f"{len(chk)} checks `remainder.value != 0 -> raise`", "generator / check polynomial must divide X^n + 1", "a polynomial that does not divide X^n+1 is no longer rejected")
    mod = [s for s in stmts_of(init.body) if isinstance(s, ast.Assign) and attr_chain(s.targets[0]) == "self._modulus_value"]
    s, d, _ = classify(mod[0].value, ["BinaryPolynomial(1 << code_length).value | 1", "1 << code_length | 1"], int_context=True) if mod else (UNDECIDED, "", None)
    rep.add("CYCLIC-LAYOUT", init, f"modulus X^n + 1 = {unparse(mod[0].value) if mod else '?'}", s, d)
    n += 2
    dims = {attr_chain(s.targets[0]): unparse(s.value) for s in stmts_of(init.body) if isinstance(s, ast.Assign) and attr_chain(s.targets[0]) in ("self._redundancy", "self._dimension")}
    dvals = {attr_chain(s.targets[0]): s.value for s in stmts_of(init.body) if isinstance(s, ast.Assign) and attr_chain(s.targets[0]) in ("self._redundancy", "self._dimension")}
    dim_ok = dims.get("self._redundancy") == "self._generator_poly.degree" and dims.get("self._dimension") == "code_length - self._redundancy"
    dim_wrong = False
    if not dim_ok and len(dvals) == 2:
        try:
            m_ = Folder({"code_length": 7}, {"self._generator_poly.degree": 3, "self._length": 7}).fold(dvals["self._redundancy"])
            k_ = Folder({"code_length": 7}, {"self._generator_poly.degree": 3, "self._redundancy": m_, "self._length": 7}).fold(dvals["self._dimension"])
            dim_ok, dim_wrong = (m_, k_) == (3, 4), (m_, k_) != (3, 4)
        except Unfoldable:
            pass
    rep.shape(dim_ok, dim_wrong, "CYCLIC-LAYOUT", init, f"m = {dims.get('self._redundancy')}, k = {dims.get('self._dimension')}", "m = deg g, k = n - m", "advertised redundancy / dimension are not deg g and n - deg g")
    n += 1
    # advertised distance of a generic cyclic code
    md = repo.func(CYC, "CyclicCodeEncoder.minimum_distance")
    from .c20 import module_level_containers, rule_cache_key

    cache_names = set(module_level_containers(md.module))
    # a memoised advertised value must be keyed by everything that determines it (n, k AND the generator polynomial)
    n += rule_cache_key(repo, rep, [repo.cls(CYC, "CyclicCodeEncoder")])
    rets = returns_of(md.node)
    for r in rets:
        e = Inliner(md).inline(r.value)
        txt = unparse(e)
        if "count('1')" in txt and "_generator_poly" in txt and "min" not in txt:
            rep.violation("ADVERTISED-DISTANCE", md, "the weight of the generator polynomial is advertised as the minimum distance", f"`return {unparse(r.value)}` (= {txt}): for dimensions above the enumeration limit the weight of g is advertised as the minimum distance; wt(g) is only an UPPER bound on d (g is a codeword), the property needs true d >= advertised", node=r)
        elif txt == "int(min_weight)":
            rep.ok("ADVERTISED-DISTANCE", md, f"return {unparse(r.value)}", "minimum weight over all non-zero messages (exact)", node=r)
        elif isinstance(r.value, ast.Subscript) and isinstance(r.value.value, ast.Name) and r.value.value.id in cache_names:
            rep.ok("ADVERTISED-DISTANCE", md, f"return {unparse(r.value)}", "memoised value: decided by the cache-key rule below", node=r, nontrivial=False)
        elif isinstance(r.value, ast.Name) and len([a_ for a_ in ast.walk(md.node) if isinstance(a_, ast.Assign) and any(isinstance(t_, ast.Name) and t_.id == r.value.id for t_ in a_.targets)]) > 1:
            defs_ = [a_ for a_ in ast.walk(md.node) if isinstance(a_, ast.Assign) and any(isinstance(t_, ast.Name) and t_.id == r.value.id for t_ in a_.targets)]
            for a_ in defs_:
                t2 = unparse(a_.value)
                if "count('1')" in t2 and "_generator_poly" in t2 and "min" not in t2:
                    rep.violation("ADVERTISED-DISTANCE", md, "the weight of the generator polynomial is advertised as the minimum distance", f"`return {unparse(r.value)}` (= {t2}): for dimensions above the enumeration limit the weight of g is advertised as the minimum distance; wt(g) is only an UPPER bound on d (g is a codeword), the property needs true d >= advertised", node=a_)
                elif t2 == "int(min_weight)":
                    rep.ok("ADVERTISED-DISTANCE", md, f"{unparse(a_)}", "minimum weight over all non-zero messages (exact)", node=a_)
                else:
                    rep.undecided("ADVERTISED-DISTANCE", md, f"{unparse(a_)}", "not recognised", node=a_)
        else:
            rep.undecided("ADVERTISED-DISTANCE", md, f"return {unparse(r.value)}", "not recognised", node=r)
        n += 1
    return n


def run(repo: Repo, rep: Report, tier: str) -> None:
    if tier == "thorough":
        gi_ = repo.func(CYC, "CyclicCodeEncoder._generate_systematic_matrix")
        st_, d_ = cyclic_matrix_evaluated(repo, gi_)
        if st_ in (OK, VIOLATION):
            rep.add("CYCLIC-LAYOUT", gi_, "systematic cyclic generator evaluated for seven (n, g) (thorough tier)", st_, d_, node=gi_.node)
    thorough = tier == "thorough"
    n = rule_golay(repo, rep, thorough)
    n += rule_tables(repo, rep, thorough)
    n += rule_formulas(repo, rep)
    n += rule_extension(repo, rep)
    n += rule_hamming_columns(repo, rep)
    n += rule_cyclic_layout(repo, rep)
    # BCH / RS constructions presuppose that alpha (the class of X modulo the tabulated modulus) is primitive:
    # with a non-primitive modulus the consecutive powers alpha^1..alpha^(delta-1) are not distinct roots and the
    # designed distance is not reached.  Same rule as C18.
    from .c18 import rule_kernels, rule_modulus_table

    rule_modulus_table(repo, rep)
    # the generator / check polynomials of the cyclic families are products, remainders and quotients in GF(2)[x]
    rule_kernels(repo, rep)
    n += 2
    for file, names in ((HAM, ["create_hamming_parity_submatrix"]), (GOLAY, ["create_golay_parity_submatrix"]), (BCH, ["compute_bch_generator_polynomial", "create_bch_generator_matrix"])):
        for nm in names:
            lint_value_keyed(rep, repo.func(file, nm), rule="G1", allowed_literals={0, 1, -1, 2, 8})
    rep.floor("C03 rule instances", n, 50)
    rep.decided_clauses += [
        "Golay: d = 7 / 8, perfect, weight enumerator, advertised (n,k,t)",
        "standard-code tables: divisibility, (n,k) of each name, textbook distances of the tabulated cyclic codes, BCH names = cyclotomic-coset dimensions with Bose distances",
        "advertised closed forms of Hamming, Reed-Muller, repetition, SPC, BCH (t, d, consecutive roots), code rate",
        "extension column is an overall parity; Hamming parity rows enumerate all weight>=2 tuples once",
        "systematic cyclic generator layout and the parity slice agree for every information set; polynomial divisibility validated",
        "no distance method advertises an upper bound",
    ]
    rep.undecided_clauses += ["true minimum distance of constructed (non-tabulated) codes", "cyclic closure of the produced word set as a value fact", "Reed-Solomon-style distance (the construction multiplies field elements as binary polynomials)"]
