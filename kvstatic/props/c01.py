"""C01 - encoder, generator matrix and parity-check matrix describe one and the same code."""
from __future__ import annotations

import ast
from typing import Dict, List, Optional, Set

from ..astutil import Inliner, ancestors, attr_chain, call_name, match, returns_of, set_parents, stmts_of, statement_texts
from ..closedform import classify
from ..core import OK, UNDECIDED, VIOLATION, AnalysisError, ClassInfo, FuncInfo, Repo, Report, unparse
from ..fecrules import ENC, LIN, SYS, UTL, block_matmul_rule, tstr_lint, verified_return_rule
from ..speciallint import lint_literal_fallback, lint_value_keyed

EXPLANATION = (
    "Structural necessary conditions for 'encoder, G and H describe one code', decided on the syntax tree. ENCODE-FORM: LinearBlockCodeEncoder.forward multiplies each block by the "
    "published generator_matrix buffer mod 2 with block size code_dimension, calculate_syndrome by check_matrix transposed with block size code_length, both raising on a bad "
    "length. OVERRIDE: every subclass override of forward / calculate_syndrome / _compute_check_matrix is enumerated through the MRO and must be a known conforming form. SYSTEMATIC: "
    "create_systematic_generator_matrix stores I at the information indices and P at the parity indices returned by one get_information_and_parity_sets call, and "
    "SystematicLinearBlockCodeEncoder.forward scatters message and parity to the same index sets (gather-with-the-forward-permutation and value-keyed shortcuts are reported). "
    "CHECK-LAYOUT: _compute_check_matrix overrides place the identity on the parity set and P^T on the information set; a tensor-typed property compared with a string is a dead "
    "branch (T-str). VERIFIED-RETURN: every return of compute_null_space_matrix is an exact GF(2) elimination result or was verified as G.H^T = 0 on the returned object; the "
    "elimination helper has its closed form; LDPC generator = null-space rows after row-reducing [H^T | I] cut at the RANK. INFO-SET: the last registered generator_matrix / check_matrix "
    "of every class that accepts an information set depends on it. G: no shape/value-keyed special case or constant fallback. Rank and null-space equality as numerical facts are not decided."
)


def block_ops_evaluated(repo: Repo, which: str):
    """LinearBlockCodeEncoder.forward ("encode") / calculate_syndrome ("syndrome") evaluated as a whole (apply_blockwise and
    the closure followed, own arithmetic) for three codes - two with parity-check matrices that have a linearly dependent
    row, in the middle and at the end - on 1-D, 2-D and 3-D inputs of one and two blocks: block by block the result must
    be m G mod 2 (n symbols per block) / x H^T mod 2 with ALL rows of H; a last dimension that is not a multiple of the
    block length must raise.  Returns (status, detail) or (None, reason)."""
    from ..constfold import Unfoldable
    from ..frag import FragRaise, FragReturn, coverage_scope, run_fragment

    ci = repo.cls(LIN, "LinearBlockCodeEncoder")
    fi = repo.method(ci, "forward" if which == "encode" else "calculate_syndrome")
    funcs = {f"self.{nm}": m.node for nm, m in ci.methods.items() if nm not in ("forward", "__init__", fi.name)}
    funcs.update({nm: f.node for nm, f in repo.func(UTL, "apply_blockwise").module.functions.items()})
    funcs.update({nm: f.node for nm, f in ci.module.functions.items()})
    codes = (
        ([[1, 0, 1, 1, 0], [0, 1, 0, 1, 1]], [[1, 0, 1, 0, 0], [1, 1, 0, 1, 0], [0, 1, 0, 0, 1], [0, 1, 1, 1, 0]]),
        ([[1, 0, 1, 1, 0], [0, 1, 0, 1, 1]], [[1, 0, 1, 0, 0], [1, 0, 1, 0, 0], [1, 1, 0, 1, 0], [0, 1, 0, 0, 1]]),
        ([[1, 1, 0, 1], [0, 1, 1, 1], [1, 1, 1, 0]], [[1, 0, 1, 1]]),
    )

    def rows(z):
        return [z] if not z or not isinstance(z[0], list) else [r_ for t in z for r_ in rows(t)]

    def shape(z):
        return (len(z),) + shape(z[0]) if isinstance(z, list) and z else ((0,) if isinstance(z, list) else ())

    cases = 0
    scope = coverage_scope()
    scope.__enter__()
    try:
        for G, H in codes:
            k, n = len(G), len(G[0])
            assert all(sum(g[t] * h[t] for t in range(n)) % 2 == 0 for g in G for h in H)
            blk, M, width = (k, G, n) if which == "encode" else (n, [[H[c][t] for c in range(len(H))] for t in range(n)], len(H))
            attrs0 = {"self.generator_matrix": G, "self._generator_matrix": G, "self.check_matrix": H, "self._check_matrix": H, "self.code_length": n, "self._length": n, "self.code_dimension": k, "self._dimension": k, "self.redundancy": n - k, "self._redundancy": n - k, "self.parity_bits": n - k}
            words = [[(i * 3 + j + (i * j) % 2) % 2 for j in range(blk)] for i in range(5)]
            words[1] = [1] * blk
            inputs = [words[0] + words[2], [words[1], words[3]], [[words[4] + words[0]], [words[2] + words[1]]], list(words[3])]
            for x in inputs:
                try:
                    run_fragment(fi.body, {"x": [list(r_) if isinstance(r_, list) else r_ for r_ in x], "args": [], "kwargs": {}}, dict(attrs0), funcs=funcs, materialise=True, max_steps=400000, attrs_live=True)
                    return None, "no value returned"
                except FragReturn as ret:
                    got = ret.value
                except FragRaise:
                    return VIOLATION, f"block length {blk}: a valid input of shape {shape(x)} is rejected"
                except (Unfoldable, TypeError, IndexError, ValueError, KeyError) as exc:
                    return None, f"not evaluable ({exc})"
                want = [[sum(row[j * blk + t] * M[t][c] for t in range(blk)) % 2 for j in range(len(row) // blk) for c in range(width)] for row in rows(x)]
                if not isinstance(got, list) or rows(got) != want or shape(got)[:-1] != shape(x)[:-1]:
                    what = "code word m G mod 2" if which == "encode" else f"syndrome x H^T mod 2 (H has {len(H)} rows, n - k = {n - k})"
                    return VIOLATION, f"G = {G}, H = {H}, input of shape {shape(x)}: the result is {rows(got)[0] if isinstance(got, list) and got else got} (shape {shape(got)}); the {what}, block by block, is {want[0]}" + ("" if which == "encode" else " - a word that violates a dropped check gets an all-zero syndrome")
                cases += 1
            try:
                run_fragment(fi.body, {"x": [0] * (blk + 1), "args": [], "kwargs": {}}, dict(attrs0), funcs=funcs, materialise=True, max_steps=100000, attrs_live=True)
                return VIOLATION, "a last dimension that is not a multiple of the block length is not rejected"
            except FragRaise:
                pass
            except FragReturn:
                return VIOLATION, f"an input of length {blk + 1} (not a multiple of {blk}) is answered instead of rejected"
            except (Unfoldable, TypeError, IndexError, ValueError, KeyError, AssertionError) as exc:
                return None, f"invalid length not evaluable ({exc})"
    finally:
        scope.__exit__()
    gap = scope.note([fi.node])
    if gap:
        return None, gap
    return OK, f"{cases} inputs (1-D / 2-D / 3-D, one and two blocks) for three codes, two with a dependent parity-check row: " + ("m G mod 2" if which == "encode" else "x H^T mod 2 with all rows of H") + " block by block; invalid length rejected"


def rule_encode_form(repo: Repo, rep: Report) -> int:
    ci = repo.cls(LIN, "LinearBlockCodeEncoder")
    fwd = repo.method(ci, "forward")
    est_, ed_ = block_ops_evaluated(repo, "encode")
    if est_ is not None:
        rep.add("ENCODE-FORM", fwd, "forward evaluated as a whole: m G mod 2 block by block", est_, ed_, node=fwd.node)
    else:
        block_matmul_rule(rep, "ENCODE-FORM", fwd, "encode_fn", "self.generator_matrix", False, {"self.code_dimension", "self._dimension"}, {"self.code_length", "self._length"}, "encode: c = m.G mod 2")
    syn = repo.method(ci, "calculate_syndrome")
    est_, ed_ = block_ops_evaluated(repo, "syndrome")
    if est_ is not None:
        rep.add("ENCODE-FORM", syn, "calculate_syndrome evaluated as a whole: x H^T mod 2 block by block, all rows of H", est_, ed_, node=syn.node)
    else:
        block_matmul_rule(rep, "ENCODE-FORM", syn, "syndrome_fn", "self.check_matrix", True, {"self.code_length", "self._length"}, {"self.code_dimension", "self._dimension"}, "syndrome: s = x.H^T mod 2")
    # the published buffers are what __init__ registered from its argument / the null-space helper
    init = repo.method(ci, "__init__")
    regs = {c.args[0].value: c.args[1] for c in ast.walk(init.node) if isinstance(c, ast.Call) and attr_chain(c.func) == "self.register_buffer" and len(c.args) >= 2 and isinstance(c.args[0], ast.Constant)}
    rep.expect(unparse(regs.get("generator_matrix")) == "generator_matrix", "ENCODE-FORM", init, f"published generator_matrix = {unparse(regs.get('generator_matrix'))}", "the caller's generator", "the published generator matrix is not the constructor argument")
    inl = Inliner(init)
    cm = [s for s in stmts_of(init.body) if isinstance(s, ast.Assign) and attr_chain(s.targets[0]) == "self._check_matrix"]
    srcs = sorted(unparse(s.value) for s in cm)
    rep.expect(srcs == ["compute_null_space_matrix(generator_matrix)", "kwargs['check_matrix']"], "ENCODE-FORM", init, f"published check_matrix from {srcs}", "null space of G, unless the caller supplies H", "the check matrix is neither the null space of G nor the supplied one")
    return 8


KNOWN_OVERRIDES = {
    # (class, method): handler name
    ("SystematicLinearBlockCodeEncoder", "forward"): "systematic",
    ("CyclicCodeEncoder", "forward"): "delegate",
    ("CyclicCodeEncoder", "_compute_check_matrix"): "layout",
    ("BCHCodeEncoder", "_compute_check_matrix"): "layout",
    ("ReedSolomonCodeEncoder", "_compute_check_matrix"): "rs-layout",
    ("ReedSolomonCodeEncoder", "calculate_syndrome"): "rs-syndrome",
    ("ReedMullerCodeEncoder", "calculate_syndrome"): "rm-residual",
}


def rule_overrides(repo: Repo, rep: Report) -> int:
    n = 0
    subs = repo.subclasses("LinearBlockCodeEncoder")
    rep.floor("LinearBlockCodeEncoder subclasses", len(subs), 9)
    for ci in subs:
        if not ci.file.startswith(ENC + "/"):
            continue
        repo.consulted.add(ci.file)
        for mname in ("forward", "calculate_syndrome", "_compute_check_matrix"):
            if mname not in ci.methods:
                continue
            n += 1
            fi = ci.methods[mname]
            h = KNOWN_OVERRIDES.get((ci.name, mname))
            if h is None:
                rep.undecided("OVERRIDE", fi, f"{ci.name}.{mname} overrides the linear-code form", "an override that this checker has not analysed")
            elif h == "delegate":
                rets = returns_of(fi.node)
                ok = len(rets) == 1 and isinstance(rets[0].value, ast.Call) and match(rets[0].value.func, f"super().{mname}") is not None and rets[0].value.args and unparse(rets[0].value.args[0]) == "x" and len(fi.body) == 1
                rep.expect(ok, "OVERRIDE", fi, f"{ci.name}.{mname}: {unparse(rets[0]) if rets else '?'}", "delegates to the systematic form", "the override no longer just delegates to the parent form", node=fi.node)
            elif h == "systematic":
                n += rule_systematic_forward(rep, fi)
            elif h == "layout":
                n += rule_check_layout(rep, fi)
            elif h == "rs-layout":
                rule_rs_layout(rep, fi)
            elif h == "rs-syndrome":
                forms = sum(1 for x in ast.walk(fi.node) if isinstance(x, ast.BinOp) and unparse(x) in ("torch.matmul(reshaped_received, self.check_matrix.t()) % 2", "torch.matmul(reshaped_received, self.check_matrix.T) % 2"))
                others = [x for x in ast.walk(fi.node) if isinstance(x, ast.Call) and call_name(x) in ("torch.matmul", "torch.mm") and "self.check_matrix" not in unparse(x)]
                rep.expect(forms >= 2 and not others, "OVERRIDE", fi, f"{ci.name}.calculate_syndrome: {forms} returns of the form x.H^T mod 2", "same shape as the generic syndrome", "the syndrome override is not x.H^T mod 2", node=fi.node)
            elif h == "rm-residual":
                rets = returns_of(fi.node)
                ok = len(rets) == 1 and unparse(rets[0].value) == "syn" and any(unparse(s) == "_, syn = self.inverse_encode(y)" for s in stmts_of(fi.body))
                rep.expect(ok, "OVERRIDE", fi, f"{ci.name}.calculate_syndrome = residual of the nearest codeword", "named exception: the residual to the exhaustive-argmin nearest codeword is zero iff the word is a codeword (a conforming syndrome of a different shape)", "the Reed-Muller syndrome is no longer the nearest-codeword residual", node=fi.node)
    return n


def rule_systematic_forward(rep: Report, fi: FuncInfo) -> int:
    """codewords[..., information_set] = message; codewords[..., parity_set] = message @ P % 2."""
    n = 0
    cl = fi.nested("systematic_encode_fn")
    if cl is None:
        rep.undecided("SYSTEMATIC", fi, "systematic_encode_fn", "closure not found")
        return 1
    stores = [s for s in stmts_of(cl.body) if isinstance(s, ast.Assign) and isinstance(s.targets[0], ast.Subscript)]
    inl = Inliner(cl)
    want = {"self.information_set": None, "self.parity_set": None}
    for s in stores:
        t = s.targets[0]
        m = match(t, "codewords[..., _I]")
        key = unparse(m["_I"]) if m else None
        if key in want:
            want[key] = s
    if want["self.information_set"] is None and want["self.parity_set"] is None:
        # recognised wrong idiom: placement by *gathering* with the forward permutation
        src = unparse(cl.node)
        perm_defs = [s for s in list(stmts_of(fi.body)) + list(stmts_of(cl.body)) if isinstance(s, ast.Assign) and any(attr_chain(x) in ("self.information_set", "self.parity_set") for x in ast.walk(s.value)) and "cat" in unparse(s.value)]
        gathers = [x for x in ast.walk(fi.node) if isinstance(x, ast.Subscript) and isinstance(x.ctx, ast.Load) and (any(attr_chain(y) in ("self.information_set", "self.parity_set") for y in ast.walk(x.slice)) or any(isinstance(y, ast.Name) and any(isinstance(t, ast.Name) and t.id == y.id for d in perm_defs for t in d.targets) for y in ast.walk(x.slice)))]
        if gathers and "argsort" not in unparse(fi.node):
            rep.violation("SYSTEMATIC", cl, f"placement by gather: {unparse(gathers[0])[:120]}", "indexing [message | parity] with the concatenated index sets applies the placement permutation where its inverse (argsort) is needed: bits land on the wrong positions for index lists whose permutation is not an involution", node=gathers[0])
            return 1
    ok_i = want["self.information_set"] is not None and unparse(want["self.information_set"].value) == "reshaped_x"
    rep.expect(ok_i, "SYSTEMATIC", cl, f"message placement: {unparse(want['self.information_set']) if want['self.information_set'] else '(missing)'}", "message bit j is written to position information_set[j] (scatter), the columns where G has the identity", "the message is not scattered to the information positions (a gather with the forward permutation places bits at the inverse positions)", node=want["self.information_set"] or cl.node)
    okp = False
    if want["self.parity_set"] is not None:
        v = inl.inline(want["self.parity_set"].value)
        okp = classify(v, ["torch.matmul(reshaped_x, self.parity_submatrix.to(reshaped_x.dtype)) % 2", "torch.matmul(reshaped_x, self.parity_submatrix) % 2"])[0] == OK
    rep.expect(okp, "SYSTEMATIC", cl, f"parity placement: {unparse(want['self.parity_set']) if want['self.parity_set'] else '(missing)'}", "parity = m.P mod 2 written to the parity positions, the columns where G has P", "the parity bits are not m.P mod 2 scattered to the parity positions", node=want["self.parity_set"] or cl.node)
    rets = returns_of(cl.node)
    rep.expect(len(rets) == 1 and unparse(rets[0].value) == "codewords" and len(stores) == 2, "SYSTEMATIC", cl, f"{len(stores)} scatter stores, returns {unparse(rets[0].value) if rets else '?'}", "nothing else touches the codeword", "additional stores or another return value in the systematic encoder", node=cl.node)
    n += 3
    # no branch keyed on the values of the information set
    SETS = ("self.information_set", "self._information_set", "self.parity_set", "self._info_set_config")
    derived = set()
    grew = True
    while grew:
        grew = False
        for a_ in ast.walk(fi.node):
            if isinstance(a_, ast.Assign) and any((attr_chain(x) in SETS) or (isinstance(x, ast.Name) and x.id in derived) for x in ast.walk(a_.value)):
                for t_ in a_.targets:
                    for x in ast.walk(t_):
                        if isinstance(x, ast.Name) and x.id not in derived and x.id not in ("codewords",):
                            derived.add(x.id)
                            grew = True
    for c in ast.walk(fi.node):
        if isinstance(c, (ast.If, ast.IfExp)) and any((attr_chain(x) in SETS) or (isinstance(x, ast.Name) and x.id in derived) for x in ast.walk(c.test)):
            rep.violation("SYSTEMATIC", fi, f"if {unparse(c.test)}", "the encoder branches on the values of the information set: a shortcut valid only for some index lists (the scatter above is correct for every list)", node=c)
            n += 1
    chk = [s for s in fi.body if isinstance(s, ast.If) and any(isinstance(x, ast.Raise) for x in s.body)]
    rep.expect(len(chk) == 1 and "% self._dimension != 0" in unparse(Inliner(fi).inline(chk[0].test)), "SYSTEMATIC", fi, f"length check: {unparse(chk[0].test) if chk else '(none)'}", "rejects lengths that are not multiples of k", "no length validation")
    return n + 1


def rule_check_layout(rep: Report, fi: FuncInfo) -> int:
    """H[:, parity_set] = I ; H[:, information_set] = P^T ; self._check_matrix = H."""
    stores = [s for s in stmts_of(fi.body) if isinstance(s, ast.Assign) and isinstance(s.targets[0], ast.Subscript)]
    got = {}
    for s in stores:
        m = match(s.targets[0], "_H[:, _I]")
        if m:
            got[unparse(m["_I"])] = s
    ok_p = "self.parity_set" in got and isinstance(got["self.parity_set"].value, ast.Call) and call_name(got["self.parity_set"].value) == "torch.eye" and unparse(got["self.parity_set"].value.args[0]) == "self._redundancy"
    ok_i = "self.information_set" in got and unparse(got["self.information_set"].value).startswith("self.parity_submatrix.T")
    construct = "; ".join(unparse(s) for s in stores)[:220] or unparse(fi.node.body[-1])[:220]
    if ok_p and ok_i and len(stores) == 2:
        rep.ok("CHECK-LAYOUT", fi, construct, "identity on the parity positions and P^T on the information positions: G.H^T = P + P = 0 for every information set", node=fi.node)
    elif not any(attr_chain(x) in ("self.information_set", "self.parity_set", "self._information_set", "self._parity_set", "self._info_set_config") for x in ast.walk(fi.node)):
        rep.violation("CHECK-LAYOUT", fi, construct, "the check matrix is assembled by fixed column positions and never consults the encoder's information / parity sets: it is wrong for every other layout", node=fi.node)
    else:
        # recognised wrong idiom: columns selected by a boolean position mask (ascending position order) instead of by
        # the index list (declared order)
        bool_names = {a_.targets[0].id for a_ in ast.walk(fi.node) if isinstance(a_, ast.Assign) and isinstance(a_.targets[0], ast.Name) and "torch.bool" in unparse(a_.value)}
        masked = [k_ for k_ in got if any(isinstance(x_, ast.Name) and x_.id in bool_names for x_ in ast.walk(ast.parse(k_, mode="eval")))]
        if masked:
            rep.violation("CHECK-LAYOUT", fi, construct, f"the columns are selected with the boolean mask `{masked[0]}`: a mask assigns in ascending POSITION order, so column j of P^T lands on the j-th smallest information position instead of on information_set[j]; for an index list that is not sorted G.H^T != 0", node=fi.node)
        else:
            est_, ed_ = check_layout_evaluated(fi)
            if est_ is not None:
                rep.add("CHECK-LAYOUT", fi, f"{fi.qualname} evaluated for six information sets", est_, ed_, node=fi.node)
            else:
                rep.undecided("CHECK-LAYOUT", fi, construct, f"layout code not recognised (expected H[:, parity_set] = I; H[:, information_set] = P^T) and not evaluable ({ed_})", node=fi.node)
    asg = [s for s in stmts_of(fi.body) if isinstance(s, ast.Assign) and attr_chain(s.targets[0]) == "self._check_matrix"]
    if ok_p and ok_i:
        okh = len(asg) == 1 and isinstance(asg[0].value, ast.Name) and all(isinstance(s.targets[0].value, ast.Name) and s.targets[0].value.id == asg[0].value.id for s in stores)
        rep.expect(okh, "CHECK-LAYOUT", fi, f"published: {unparse(asg[0]) if asg else '?'}", "the matrix built above", "the published check matrix is not the matrix that was laid out")
    return 2


def check_layout_evaluated(fi: FuncInfo):
    """A `_compute_check_matrix` override evaluated (own arithmetic) for a (5, 3) code with a parity block of distinct
    rows and the information sets left, right, a PERMUTED left block, a permuted right block and two scattered lists:
    the result must carry row j of P as the column at information_set[j] and the i-th unit vector at parity_set[i]
    (then G H^T = P + P = 0 for the generator laid out on the same sets).  Returns (status, detail) or (None, reason)."""
    from ..constfold import Unfoldable
    from ..frag import FragRaise, FragReturn, run_fragment

    k, r, n = 3, 2, 5
    P = [[1.0, 0.0], [0.0, 1.0], [1.0, 1.0]]
    funcs = {f"self.{nm}": m.node for nm, m in (fi.cls.methods.items() if fi.cls else []) if nm not in ("__init__", "forward", fi.name)}
    cases = 0
    for info in ([0, 1, 2], [2, 3, 4], [1, 0, 2], [4, 2, 3], [4, 0, 2], [0, 3, 1]):
        parity = [c for c in range(n) if c not in info]
        attrs = {"self._dimension": k, "self._redundancy": r, "self._length": n, "self.code_dimension": k, "self.redundancy": r, "self.code_length": n, "self.information_set": list(info), "self._information_set": list(info), "self.parity_set": list(parity), "self._parity_set": list(parity), "self.parity_submatrix": [list(x) for x in P], "self._parity_submatrix": [list(x) for x in P], "self._dtype": "torch.float32", "self.device": "cpu"}
        H = None
        try:
            env = run_fragment(fi.body, {}, attrs, funcs=funcs, materialise=True, max_steps=200000, attrs_live=True)
            H = attrs.get("self._check_matrix")
        except FragReturn as ret:
            H = ret.value if ret.value is not None else attrs.get("self._check_matrix")
        except (Unfoldable, FragRaise, TypeError, IndexError, ValueError, KeyError) as exc:
            return None, f"not evaluable for information_set={info} ({exc})"
        if not (isinstance(H, list) and len(H) == r and all(isinstance(row, list) and len(row) == n for row in H)):
            return None, f"the result for information_set={info} is not an {r} x {n} matrix"
        want = [[0.0] * n for _ in range(r)]
        for i_, c_ in enumerate(parity):
            want[i_][c_] = 1.0
        for j_, c_ in enumerate(info):
            for i_ in range(r):
                want[i_][c_] = P[j_][i_]
        if [[float(x) for x in row] for row in H] != want:
            return VIOLATION, f"information_set = {info} (parity positions {parity}), P = {P}: the check matrix is {[[int(x) for x in row] for row in H]}; row j of P belongs in the column at information_set[j] and the identity on the parity positions: {[[int(x) for x in row] for row in want]} - the encoder and the published generator follow the LISTED order of the information positions, so G H^T != 0 here and code words get non-zero syndromes"
        cases += 1
    return OK, f"{cases} information sets (left, right, permuted left / right blocks, scattered lists): P^T on the information positions in listed order, identity on the parity positions"


def rule_rs_layout(rep: Report, fi: FuncInfo) -> None:
    est_, ed_ = check_layout_evaluated(fi)
    if est_ is not None:
        rep.add("CHECK-LAYOUT", fi, f"{fi.qualname} evaluated for six information sets", est_, ed_, node=fi.node)
        return
    ifs = [s for s in fi.body if isinstance(s, ast.If)]
    ok = len(ifs) == 1 and "self.information_set == torch.arange(self._dimension)" in unparse(ifs[0].test)
    rep.expect(ok, "CHECK-LAYOUT", fi, f"layout test: {unparse(ifs[0].test)[:140] if ifs else '?'}", "layout decided by comparing the index tensor with arange (a live test)", "layout test changed")


def info_parity_sets_evaluated(gi: FuncInfo):
    """get_information_and_parity_sets(k, n, information_set) evaluated: the information positions are the caller's, in the
    caller's order ('left' = 0..k-1, 'right' = n-k..n-1), the parity positions the remaining ones in ascending order; a
    list of the wrong length or with a position outside [0, n) is rejected."""
    from ..constfold import PySeq, Unfoldable
    from ..frag import FragRaise, FragReturn, run_fragment

    funcs = {nm: f.node for nm, f in gi.module.functions.items() if nm != gi.name}
    k, n = 3, 7
    cases = [("left", list(range(k))), ("right", list(range(n - k, n))), (PySeq([0, 2, 5]), [0, 2, 5]), (PySeq([6, 1, 3]), [6, 1, 3]), ([5, 4, 0], [5, 4, 0])]
    for info, want_i in cases:
        try:
            run_fragment(gi.body, dict(zip(gi.params, (k, n, info))), {}, max_steps=100000, materialise=True, funcs=funcs)
            return None, "no value returned"
        except FragReturn as ret:
            got = ret.value
        except (Unfoldable, FragRaise, TypeError, IndexError, ValueError) as exc:
            return None, f"information_set={info!r}: {exc}"
        if not (isinstance(got, list) and len(got) == 2 and all(isinstance(x, list) for x in got)):
            return None, "result is not a pair of index lists"
        gi_, gp_ = [int(x) for x in got[0]], [int(x) for x in got[1]]
        want_p = [j for j in range(n) if j not in want_i]
        if gi_ != want_i or gp_ != want_p:
            return VIOLATION, f"information_set = {list(info) if not isinstance(info, str) else info!r} (k = {k}, n = {n}): information positions {gi_}, parity positions {gp_}; expected {want_i} and the ascending complement {want_p} (encoder, generator and check matrix lay their columns out by these two lists)"
    for bad_info in (PySeq([0, 1]), PySeq([0, 1, 7]), PySeq([-1, 1, 2]), "middle"):
        try:
            run_fragment(gi.body, dict(zip(gi.params, (k, n, bad_info))), {}, max_steps=100000, materialise=True, funcs=funcs)
            return VIOLATION, f"the inadmissible information set {list(bad_info) if not isinstance(bad_info, str) else bad_info!r} is not rejected"
        except FragRaise:
            continue
        except FragReturn:
            return VIOLATION, f"the inadmissible information set {list(bad_info) if not isinstance(bad_info, str) else bad_info!r} (k = {k}, n = {n}) is accepted"
        except (Unfoldable, TypeError, IndexError, ValueError) as exc:
            return None, f"information_set={bad_info!r}: {exc}"
    return OK, f"caller's positions in the caller's order, ascending complement as parity set ({len(cases)} layouts); wrong length / out-of-range / unknown keyword rejected"


def systematic_matrix_evaluated(fi: FuncInfo):
    """create_systematic_generator_matrix(P, information_set) evaluated (own arithmetic, module helpers inlined): column
    information_set[i] must be the i-th unit vector and the j-th smallest remaining position must hold column j of P - the
    layout the systematic encoder's forward() writes messages and parities to."""
    from ..constfold import PySeq, Unfoldable
    from ..frag import FragRaise, FragReturn, run_fragment

    funcs = {nm: f.node for nm, f in fi.module.functions.items() if nm != fi.name}
    k, r = 3, 4
    n = k + r
    P = [[10 * (i + 1) + j for j in range(r)] for i in range(k)]
    sets = ["left", "right", PySeq([0, 2, 5]), PySeq([6, 1, 3]), PySeq([5, 4, 0]), [2, 6, 1]]
    for info in sets:
        try:
            run_fragment(fi.body, {fi.params[0]: [list(row) for row in P], fi.params[1]: info}, {}, max_steps=200000, materialise=True, funcs=funcs)
            return None, "no value returned"
        except FragReturn as ret:
            G = ret.value
        except (Unfoldable, FragRaise, TypeError, IndexError, ValueError) as exc:
            return None, f"information_set={info!r}: {exc}"
        idx = list(range(k)) if info == "left" else (list(range(n - k, n)) if info == "right" else list(info))
        par = [j for j in range(n) if j not in idx]
        want = [[0] * n for _ in range(k)]
        for i in range(k):
            want[i][idx[i]] = 1
            for j, pj in enumerate(par):
                want[i][pj] = P[i][j]
        if not (isinstance(G, list) and len(G) == k and all(isinstance(row, list) and len(row) == n for row in G)):
            return None, f"result is not a {k} x {n} matrix"
        if [[float(x) for x in row] for row in G] != [[float(x) for x in row] for row in want]:
            return VIOLATION, f"information_set = {list(info) if not isinstance(info, str) else info!r}: the generator has rows {[[int(x) for x in row] for row in G][:2]}...; message bit i must sit at position information_set[i] and the parities at the remaining positions in ascending order, i.e. {want[:2]}... (the encoder writes its codewords in that layout, so G and the encoder describe different codes for this information set)"
    return OK, f"identity at information_set[i], P on the ascending remaining positions for {len(sets)} information sets (left, right, sorted and unsorted index lists)"


def rule_systematic_matrix(repo: Repo, rep: Report) -> int:
    fi = repo.func(SYS, "create_systematic_generator_matrix")
    body = {unparse(s.targets[0]): s for s in stmts_of(fi.body) if isinstance(s, ast.Assign)}
    call = body.get("(information_indices, parity_indices)") or body.get("information_indices, parity_indices")
    ok_c = call is not None and unparse(call.value) == "get_information_and_parity_sets(k, n, information_set)"
    ok_i = "generator_matrix[:, information_indices]" in body and unparse(body["generator_matrix[:, information_indices]"].value).startswith("torch.eye(k")
    ok_p = "generator_matrix[:, parity_indices]" in body and unparse(body["generator_matrix[:, parity_indices]"].value) == "parity_submatrix"
    if not (ok_c and ok_i and ok_p):
        # another spelling: the function (helpers inlined) is evaluated for a parity submatrix with distinct entries and
        # left / right / sorted / unsorted information sets
        est, edetail = systematic_matrix_evaluated(fi)
        if est is None:
            rep.undecided("SYSTEMATIC", fi, "G[:, info] = I_k; G[:, parity] = P with (info, parity) from one get_information_and_parity_sets(k, n, information_set)", f"code shape not recognised and not evaluable ({edetail})", node=fi.node)
        else:
            rep.add("SYSTEMATIC", fi, "create_systematic_generator_matrix evaluated for left / right / sorted / unsorted information sets", est, edetail, node=fi.node)
    else:
        rep.ok("SYSTEMATIC", fi, "G[:, info] = I_k; G[:, parity] = P with (info, parity) from one get_information_and_parity_sets(k, n, information_set)", "identity on the information set, P on the complementary parity set", node=fi.node)
    # the encoder uses the same helper with the same arguments
    ci = repo.cls(SYS, "SystematicLinearBlockCodeEncoder")
    init = repo.method(ci, "__init__")
    a = [s for s in stmts_of(init.body) if isinstance(s, ast.Assign) and unparse(s.targets[0]) in ("(self._information_set, self._parity_set)", "self._information_set, self._parity_set")]
    ok = len(a) == 1 and unparse(a[0].value) == "get_information_and_parity_sets(k, n, information_set)"
    g = [s for s in stmts_of(init.body) if isinstance(s, ast.Assign) and unparse(s.targets[0]) == "generator_matrix"]
    okg = len(g) == 1 and unparse(g[0].value) == "create_systematic_generator_matrix(parity_submatrix=parity_submatrix, information_set=information_set)"
    rep.expect(ok and okg, "SYSTEMATIC", init, "encoder index sets and generator come from the same (k, n, information_set)", "placement in forward() and the identity columns of G use one index computation", "the encoder's index sets and its generator matrix are computed from different arguments", node=init.node)
    props = {"information_set": "self._info_set_buffer", "parity_set": "self._parity_set_buffer", "parity_submatrix": "self._parity_submatrix_buffer"}
    bufs = {c.args[0].value: unparse(c.args[1]) for c in ast.walk(init.node) if isinstance(c, ast.Call) and attr_chain(c.func) == "self.register_buffer" and len(c.args) >= 2 and isinstance(c.args[0], ast.Constant)}
    okb = bufs.get("_info_set_buffer") == "self._information_set" and bufs.get("_parity_set_buffer") == "self._parity_set" and bufs.get("_parity_submatrix_buffer") == "self._parity_submatrix"
    okp = all(ci.methods.get(p) is not None and [unparse(r.value) for r in returns_of(ci.methods[p].node)] == [v] for p, v in props.items())
    rep.expect(okb and okp, "SYSTEMATIC", init, "properties information_set / parity_set / parity_submatrix return the registered buffers of the constructor's values", "forward() reads what the constructor computed", "a property no longer returns the constructor's value")
    # get_information_and_parity_sets: parity = complement, in ascending order; left/right contiguous
    gi = repo.func(SYS, "get_information_and_parity_sets")
    vals = {}
    for s in stmts_of(gi.body):
        if isinstance(s, ast.Assign) and isinstance(s.targets[0], ast.Name):
            vals.setdefault(s.targets[0].id, []).append(unparse(s.value))
    okl = "torch.arange(k)" in vals.get("information_indices", []) and "torch.arange(k, n)" in vals.get("parity_indices", [])
    okr = "torch.arange(n - k, n)" in vals.get("information_indices", []) and "torch.arange(n - k)" in vals.get("parity_indices", [])
    okc = any(v.startswith("torch.tensor([i for i in all_indices if i not in information_indices]") for v in vals.get("parity_indices", []))
    # the caller's index list must not be modified: the constructor hands the same list object to this function twice
    # (once for the encoder's index buffers, once inside create_systematic_generator_matrix for the published G)
    aliases = {a.arg for a in gi.node.args.args}
    grew = True
    while grew:
        grew = False
        for s_ in ast.walk(gi.node):
            if isinstance(s_, ast.Assign) and len(s_.targets) == 1 and isinstance(s_.targets[0], ast.Name) and isinstance(s_.value, ast.Name) and s_.value.id in aliases and s_.targets[0].id not in aliases:
                aliases.add(s_.targets[0].id)
                grew = True
    INPLACE = ("sort", "reverse", "append", "extend", "insert", "pop", "remove", "clear")
    muts = []
    for s_ in ast.walk(gi.node):
        if isinstance(s_, ast.Call) and isinstance(s_.func, ast.Attribute) and isinstance(s_.func.value, ast.Name) and s_.func.value.id in aliases and (s_.func.attr in INPLACE or (s_.func.attr.endswith("_") and not s_.func.attr.startswith("_"))):
            muts.append(s_)
        if isinstance(s_, (ast.Assign, ast.AugAssign)):
            for t_ in s_.targets if isinstance(s_, ast.Assign) else [s_.target]:
                if isinstance(t_, ast.Subscript) and isinstance(t_.value, ast.Name) and t_.value.id in aliases:
                    muts.append(s_)
    for m_ in muts:
        rep.violation("SYSTEMATIC", gi, "the information-set argument is modified in place", f"`{unparse(m_)[:70]}` changes the caller's own list/tensor: the encoder's constructor passes the same object again when it builds the published generator matrix, which is then laid out for a different order of the information positions than the encoder's index buffers (encoder(u) != u G for a permuted index list)", node=m_)
    if not (okl and okr and okc):
        est, edetail = info_parity_sets_evaluated(gi)
        if est is None:
            rep.undecided("SYSTEMATIC", gi, "left: (0..k-1 | k..n-1); right: (n-k..n-1 | 0..n-k-1); list: parity = ascending complement", f"code shape not recognised and not evaluable ({edetail})", node=gi.node)
        else:
            rep.add("SYSTEMATIC", gi, "get_information_and_parity_sets evaluated for left / right / sorted / unsorted index lists", est, edetail, node=gi.node)
    else:
        rep.ok("SYSTEMATIC", gi, "left: (0..k-1 | k..n-1); right: (n-k..n-1 | 0..n-k-1); list: parity = ascending complement", "information and parity sets partition the positions", node=gi.node)
    return 4


#: sample generator matrices for the evaluated null-space rule: systematic left / right, unit columns out of order, a unit
#: parity column in front of the information columns, positions {6,7,8} (set iteration order 8,6,7), non-systematic with a
#: singular leading block (RM(1,3)), row swap needed, dependent leading columns
NULL_SPACE_SAMPLES = (
    [[1, 0, 0, 1, 1], [0, 1, 0, 1, 0], [0, 0, 1, 0, 1]],
    [[1, 1, 0], [1, 0, 1]],
    [[0, 1, 1, 1], [1, 1, 0, 1]],
    [[0, 1, 0, 1, 1], [1, 0, 0, 0, 1], [0, 0, 1, 1, 0]],
    [[1, 0, 1, 0, 1], [0, 0, 1, 1, 0]],
    [[1, 1, 0, 1, 1, 0, 1, 0, 0], [0, 1, 1, 1, 0, 1, 0, 1, 0], [1, 1, 1, 0, 0, 0, 0, 0, 1]],
    [[1, 1, 1, 1, 1, 1, 1, 1], [0, 1, 0, 1, 0, 1, 0, 1], [0, 0, 1, 1, 0, 0, 1, 1], [0, 0, 0, 0, 1, 1, 1, 1]],
    [[0, 1, 1, 0], [1, 1, 0, 1]],
    [[1, 1, 0, 1, 0], [1, 1, 1, 0, 1], [0, 0, 0, 1, 1]],
    # rank-deficient (third row = first + second): the null space has dimension n - rank = 2
    [[1, 1, 0, 1], [0, 1, 1, 0], [1, 0, 1, 1]],
)


def aliasing_swaps(fi: FuncInfo):
    """`a[i], a[j] = a[j], a[i]` on tensor rows: the right-hand sides are views, so after the first store both rows are
    equal - a construct whose meaning the value-semantics evaluator does not reproduce, reported on its own."""
    out = []
    for st in ast.walk(fi.node):
        if isinstance(st, ast.Assign) and len(st.targets) == 1 and isinstance(st.targets[0], ast.Tuple) and isinstance(st.value, ast.Tuple):
            tg, vs = st.targets[0].elts, st.value.elts
            if len(tg) == 2 and len(vs) == 2 and all(isinstance(x, ast.Subscript) for x in tg + vs):
                bases = {unparse(x.value) for x in tg + vs}
                if len(bases) == 1 and unparse(tg[0]) == unparse(vs[1]) and unparse(tg[1]) == unparse(vs[0]):
                    out.append(st)
    return out


def null_space_evaluated(repo: Repo, fi: FuncInfo):
    """Run compute_null_space_matrix (helpers inlined) on NULL_SPACE_SAMPLES: H has n - k independent rows and
    G H^T = 0 over GF(2); the elimination helper keeps 0/1 entries and T G = R exactly."""
    from .. import gf2
    from ..constfold import Unfoldable
    from ..frag import FragRaise, FragReturn, run_fragment

    funcs = {nm: f.node for nm, f in fi.module.functions.items() if nm != fi.name}
    for f_ in [fi] + [fi.module.functions[nm] for nm in ("_gf2_row_reduce",) if nm in fi.module.functions]:
        sw = aliasing_swaps(f_)
        if sw:
            return VIOLATION, f"`{unparse(sw[0])}` in {f_.name}: the right-hand sides are views of the tensor, so after the first store both rows hold the same values (the rows are not exchanged): the transformation that accompanies the elimination becomes singular and the right inverse / null space built from it is wrong", sw[0]
    for G in NULL_SPACE_SAMPLES:
        k, n = len(G), len(G[0])
        try:
            run_fragment(fi.body, {"matrix": [list(r) for r in G]}, {}, max_steps=400000, materialise=True, funcs=funcs)
            return UNDECIDED, "no value returned", None
        except FragReturn as r:
            H = r.value
        except (Unfoldable, FragRaise, TypeError, IndexError) as exc:
            return UNDECIDED, f"not evaluable ({exc})", None
        if not (isinstance(H, list) and all(isinstance(r_, list) and len(r_) == n for r_ in H)):
            return UNDECIDED, f"result is not a matrix with {n} columns", None
        Hi = [[int(x) % 2 for x in r_] for r_ in H]
        if any(x not in (0, 1, 0.0, 1.0) for r_ in H for x in r_):
            return VIOLATION, f"for G = {G} the returned matrix has entries outside {{0, 1}}", None
        prod = [[sum(G[i][t] * Hi[j][t] for t in range(n)) % 2 for j in range(len(Hi))] for i in range(k)]
        rkG = gf2.rank(gf2.rows_to_masks(G))
        if any(any(row) for row in prod):
            return VIOLATION, f"for G = {G} the returned H = {Hi} is not orthogonal to the code: G H^T = {prod} over GF(2) (codewords get non-zero syndromes)", None
        if len(Hi) != n - rkG or gf2.rank(gf2.rows_to_masks(Hi)) != n - rkG:
            return VIOLATION, f"for G = {G} the returned H has {len(Hi)} rows of rank {gf2.rank(gf2.rows_to_masks(Hi)) if Hi else 0}; the null space has dimension {n - rkG}", None
    if "_gf2_row_reduce" in fi.module.functions:
        h = fi.module.functions["_gf2_row_reduce"]
        for G in NULL_SPACE_SAMPLES:
            try:
                run_fragment(h.body, {h.params[0]: [list(r) for r in G]}, {}, max_steps=400000, materialise=True, funcs=funcs)
                return UNDECIDED, "elimination helper returns nothing", None
            except FragReturn as r:
                out = r.value
            except (Unfoldable, FragRaise, TypeError, IndexError) as exc:
                return UNDECIDED, f"elimination helper not evaluable ({exc})", None
            if not (isinstance(out, list) and len(out) == 3):
                return UNDECIDED, "elimination helper: unexpected result", None
            R, T, piv = out
            if any(x not in (0, 1, 0.0, 1.0) for M_ in (R, T) for r_ in M_ for x in r_):
                return VIOLATION, f"for G = {G} the elimination leaves entries outside {{0, 1}} in the reduced matrix / transformation ({[x for r_ in T for x in r_ if x not in (0, 1)][:3]}...): the row operations are not carried out over GF(2), the entries grow with every addition and exceed what float32 represents exactly for larger k (the mod-2 reduction applied afterwards then returns wrong bits)", None
            TG = [[sum(int(T[i][t]) * G[t][j] for t in range(len(G))) % 2 for j in range(len(G[0]))] for i in range(len(G))]
            if TG != [[int(x) for x in r_] for r_ in R]:
                return VIOLATION, f"for G = {G} the returned transformation does not satisfy T G = R over GF(2)", None
    return OK, f"G H^T = 0 and rank H = n - k on {len(NULL_SPACE_SAMPLES)} sample generators (systematic, permuted unit columns, singular leading block); elimination keeps 0/1 entries and T G = R", None


def rule_null_space(repo: Repo, rep: Report) -> int:
    fi = repo.func(LIN, "compute_null_space_matrix")
    est, edetail, enode = null_space_evaluated(repo, fi)
    if est in (OK, VIOLATION):
        rep.add("VERIFIED-RETURN", fi, "compute_null_space_matrix evaluated on sample generator matrices", est, edetail, node=enode or fi.node)
        lint_literal_fallback(rep, fi, "G2")
        li = repo.func(f"{ENC}/ldpc_code.py", "LDPCCodeEncoder.get_generator_matrix")
        _LDPC_FUNCS.update({nm: f.node for nm, f in repo.func("kaira/models/fec/utils.py", "row_reduction").module.functions.items()})
        return 2 + ldpc_generator_rule(rep, li)
    n = verified_return_rule(rep, "VERIFIED-RETURN", fi, "matrix", "null", {"_gf2_row_reduce"})
    lint_literal_fallback(rep, fi, "G2")
    n += 1
    # elimination helper closed forms
    if "_gf2_row_reduce" in fi.module.functions:
        h = repo.func(LIN, "_gf2_row_reduce")
        st = {unparse(s) for s in stmts_of(h.body)}
        need = [
            "reduced[other] = (reduced[other] + reduced[row]) % 2",
            "transform[other] = (transform[other] + transform[row]) % 2",
            "reduced[[row, pivot]] = reduced[[pivot, row]]",
            "transform[[row, pivot]] = transform[[pivot, row]]",
            "pivots.append(col)",
            "row += 1",
        ]
        for t in need:
            rep.expect(t in st, "VERIFIED-RETURN", h, f"elimination step `{t}`", "row operations over GF(2) applied identically to the matrix and to the transformation", "a step of the GF(2) elimination is missing or changed")
            n += 1
        conds = [unparse(s.test) for s in stmts_of(h.body) if isinstance(s, ast.If)]
        # the clearing loop must visit EVERY row of the matrix (reduced form), not only the rows below the pivot
        clear_loops = [l_ for l_ in ast.walk(h.node) if isinstance(l_, ast.For) and any(unparse(x_) == "reduced[other] = (reduced[other] + reduced[row]) % 2" for x_ in ast.walk(l_)) and not any(isinstance(y_, ast.For) and y_ is not l_ and any(unparse(x_) == "reduced[other] = (reduced[other] + reduced[row]) % 2" for x_ in ast.walk(y_)) for y_ in ast.walk(l_))]
        all_rows = len(clear_loops) == 1 and unparse(clear_loops[0].iter) in ("range(k)", "range(reduced.shape[0])", "range(reduced.size(0))", "range(matrix.shape[0])") and "other != row and reduced[other, col] != 0" in conds
        partial = len(clear_loops) == 1 and not all_rows and (any(isinstance(x_, ast.Name) and x_.id == "candidates" for x_ in ast.walk(clear_loops[0].iter)) or unparse(clear_loops[0].iter).startswith(("range(row + 1", "range(row,")))
        rep.shape(all_rows, partial, "VERIFIED-RETURN", h, f"eliminate every other row with a 1 in the pivot column: for {unparse(clear_loops[0].target) if clear_loops else '?'} in {unparse(clear_loops[0].iter) if clear_loops else '?'}", "reduced (not just echelon) form", "only rows at or below the pivot are cleared: the result is a row ECHELON form, but the null-space / right-inverse constructions read it as the REDUCED form - G.H^T != 0 for generators whose elimination needs back-substitution")
        n += 1
        # null-space basis construction from the reduced form
        body = set(statement_texts(fi))
        needed = ["null_space[row_idx, free_col] = 1", "null_space[row_idx, pivot_col] = 1", "free_columns = [j for j in range(n) if j not in pivots]"]
        # recognised wrong idiom: the pivot part of a basis vector written to a PREFIX of the columns
        for st_ in ast.walk(fi.node):
            if isinstance(st_, ast.Assign) and isinstance(st_.targets[0], ast.Subscript) and isinstance(st_.targets[0].value, ast.Name) and st_.targets[0].value.id == "null_space" and isinstance(st_.targets[0].slice, ast.Tuple) and len(st_.targets[0].slice.elts) == 2:
                col = st_.targets[0].slice.elts[1]
                if isinstance(col, ast.Slice) and (col.upper is not None or col.lower is not None) and "reduced" in unparse(st_.value):
                    rep.violation("VERIFIED-RETURN", fi, st_, f"the pivot entries of the null-space basis are written to the column range `{unparse(col)}` instead of to the pivot columns themselves: this is only right when the pivots are the first `rank` columns; for a generator whose leading k x k block is singular (Reed-Muller, permuted information sets) G.H^T != 0", node=st_)
                    n += 1
        for st_ in ast.walk(fi.node):
            if isinstance(st_, ast.Assign) and isinstance(st_.targets[0], ast.Subscript) and unparse(st_.targets[0].value) == "null_space" and isinstance(st_.targets[0].slice, ast.Tuple) and len(st_.targets[0].slice.elts) == 2 and unparse(st_.targets[0].slice.elts[1]) == "pivot_row":
                rep.violation("VERIFIED-RETURN", fi, st_, "the basis vector gets its 1 at column `pivot_row` (the ROW of the reduced matrix) instead of at the pivot's column: right only when the pivots are columns 0..k-1; otherwise G.H^T != 0", node=st_)
                n += 1
        for t in needed:
            rep.expect(t in body, "VERIFIED-RETURN", fi, f"null-space basis step `{t}`", "one basis vector per free column: 1 at the free column and at the pivots whose row has a 1 there", "the null-space basis is not built from the reduced row echelon form")
            n += 1
    else:
        rep.note("compute_null_space_matrix has no exact elimination helper on this tree")
    # LDPC generator: null space of H via [H^T | I], cut at the rank
    li = repo.func(f"{ENC}/ldpc_code.py", "LDPCCodeEncoder.get_generator_matrix")
    _LDPC_FUNCS.update({nm: f.node for nm, f in repo.func("kaira/models/fec/utils.py", "row_reduction").module.functions.items()})
    n += ldpc_generator_rule(rep, li)
    return n


LDPC_SAMPLES = (
    [[1, 1, 0, 1, 0, 0], [0, 1, 1, 0, 1, 0], [1, 0, 0, 0, 1, 1]],
    [[1, 1, 0, 1, 0, 0], [0, 1, 1, 0, 1, 0], [1, 0, 0, 0, 1, 1], [1, 0, 1, 1, 1, 0]],  # row 3 = row 0 + row 1
    [[1, 1, 0, 1, 0, 0], [1, 1, 0, 1, 0, 0], [0, 1, 1, 0, 1, 0], [1, 0, 0, 0, 1, 1]],  # a repeated check in the middle
    [[0, 1, 1, 0, 1], [0, 0, 1, 1, 1]],  # column 0 is free
    [[1, 1, 1, 1, 1, 1, 1]],
    [[1, 0, 1, 0, 1, 0, 1], [0, 1, 1, 0, 0, 1, 1], [0, 0, 0, 1, 1, 1, 1]],
    [[1, 1, 0], [0, 1, 1], [1, 0, 1]],  # rank 2 of 3 rows: the repetition code
)


def ldpc_generator_evaluated(li: FuncInfo):
    """LDPCCodeEncoder.get_generator_matrix evaluated (row_reduction and the module helpers followed, own arithmetic) on
    seven parity-check matrices, three of them with linearly dependent rows in different places: the result must have
    n - rank(H) rows, full row rank, and G H^T = 0 (its row space is the null space of H).
    Returns (status, detail) or (None, reason)."""
    from .. import gf2
    from ..constfold import Unfoldable
    from ..frag import FragRaise, FragReturn, run_fragment

    funcs = {nm: f.node for nm, f in li.module.functions.items()}
    hparam = [p_ for p_ in li.params if p_ not in ("self", "cls")]
    if len(hparam) != 1:
        return None, "get_generator_matrix does not take exactly one matrix"
    for H in LDPC_SAMPLES:
        n = len(H[0])
        rk = gf2.rank(gf2.rows_to_masks(H))
        try:
            run_fragment(li.body, {hparam[0]: [list(r) for r in H]}, {"self.device": "cpu"}, funcs=dict(_LDPC_FUNCS, **funcs), materialise=True, max_steps=3000000)
            return None, "no value returned"
        except FragReturn as ret:
            G = ret.value
        except FragRaise:
            return VIOLATION, f"the parity-check matrix {H} is rejected"
        except (Unfoldable, TypeError, IndexError, ValueError, KeyError) as exc:
            return None, f"not evaluable ({exc})"
        if not (isinstance(G, list) and all(isinstance(r, list) and len(r) == n and all(x in (0, 1, 0.0, 1.0, True, False) for x in r) for r in G)):
            return None, f"the result for H = {H} is not a 0/1 matrix with {n} columns"
        Gi = [[int(x) for x in r] for r in G]
        bad = [(g, h) for g in Gi for h in H if sum(a * b for a, b in zip(g, h)) % 2]
        if bad:
            return VIOLATION, f"H = {H} (rank {rk}): the generator row {bad[0][0]} violates the check {bad[0][1]} - G H^T != 0, code words get non-zero syndromes"
        if len(Gi) != n - rk or (Gi and gf2.rank(gf2.rows_to_masks(Gi)) != n - rk):
            return VIOLATION, f"H = {H} has rank {rk}, so the code has dimension {n - rk}; the generator has {len(Gi)} row(s) of rank {gf2.rank(gf2.rows_to_masks(Gi)) if Gi else 0} - it does not span the null space of H"
    return OK, f"G H^T = 0 with n - rank(H) independent rows on {len(LDPC_SAMPLES)} parity-check matrices (three with dependent rows: last, repeated in the middle, all dependent)"


_LDPC_FUNCS: Dict[str, ast.AST] = {}


def ldpc_generator_rule(rep: Report, li: FuncInfo) -> int:
    """G = rows[rank:] of the right block after row-reducing [H^T | I_n] over the first m columns."""
    est_, ed_ = ldpc_generator_evaluated(li)
    if est_ is not None:
        rep.add("VERIFIED-RETURN", li, "LDPC generator evaluated on parity-check matrices with and without dependent rows", est_, ed_, node=li.node)
        return 3
    hparam = li.params[-1] if li.params else "check_matrix_"
    transposed = None  # name of H^T
    dims: Dict[str, str] = {}
    for s_ in li.body:
        if isinstance(s_, ast.Assign) and isinstance(s_.targets[0], ast.Name) and isinstance(s_.value, ast.Call) and any(isinstance(x, ast.Name) and x.id == hparam for x in ast.walk(s_.value)):
            txt = unparse(s_.value)
            if txt.endswith(".t()") or txt.endswith(".T") or "transpose(0, 1)" in txt:
                transposed = s_.targets[0].id
        if isinstance(s_, ast.Assign) and isinstance(s_.targets[0], ast.Tuple) and unparse(s_.value) in (f"{hparam}.shape", f"{hparam}.size()") and len(s_.targets[0].elts) == 2:
            a_, b_ = s_.targets[0].elts
            if isinstance(a_, ast.Name) and isinstance(b_, ast.Name):
                dims[a_.id], dims[b_.id] = "m", "n"

    def dim_of(e: ast.AST) -> Optional[str]:
        t = unparse(e)
        if isinstance(e, ast.Name) and e.id in dims:
            return dims[e.id]
        for base, first, second in ((hparam, "m", "n"), (transposed, "n", "m")):
            if base is None:
                continue
            if t in (f"{base}.shape[0]", f"{base}.size(0)", f"{base}.shape[-2]"):
                return first
            if t in (f"{base}.shape[1]", f"{base}.size(1)", f"{base}.shape[-1]"):
                return second
        return None

    if transposed is None:
        rep.undecided("VERIFIED-RETURN", li, "H^T", "transposed copy of the check matrix not found", node=li.node)
        return 1
    n = 0
    aug = [s_ for s_ in li.body if isinstance(s_, ast.Assign) and isinstance(s_.value, ast.Call) and call_name(s_.value) == "torch.cat" and transposed in unparse(s_.value) and "torch.eye" in unparse(s_.value)]
    red = [s_ for s_ in li.body if isinstance(s_, ast.Assign) and isinstance(s_.value, ast.Call) and call_name(s_.value) == "row_reduction" and any(k.arg == "num_cols" for k in s_.value.keywords)]
    fin = [s_ for s_ in li.body if isinstance(s_, ast.Assign) and isinstance(s_.value, ast.Subscript) and isinstance(s_.value.value, ast.Call) and call_name(s_.value.value) == "row_reduction"]
    if len(aug) != 1 or len(red) != 1 or len(fin) != 1:
        rep.undecided("VERIFIED-RETURN", li, "LDPC generator from [H^T | I]", f"{len(aug)} augmentation / {len(red)} reduction / {len(fin)} extraction statements (code shape not recognised)", node=li.node)
        return 1
    # [H^T | I_n]
    eye = [c for c in ast.walk(aug[0].value) if isinstance(c, ast.Call) and call_name(c) == "torch.eye" and c.args]
    de = dim_of(eye[0].args[0]) if eye else None
    order_ok = unparse(aug[0].value.args[0].elts[0]) == transposed if isinstance(aug[0].value.args[0], (ast.Tuple, ast.List)) and aug[0].value.args[0].elts else False
    n += 1
    if de == "n" and order_ok:
        rep.ok("VERIFIED-RETURN", li, f"augmented matrix {unparse(aug[0].value)[:80]}", "[H^T | I_n]: the identity records the row operations", node=aug[0])
    elif de == "m":
        rep.violation("VERIFIED-RETURN", li, f"augmented matrix {unparse(aug[0].value)[:80]}", "the identity block must have one row per row of H^T (n rows), not m", node=aug[0])
    else:
        rep.undecided("VERIFIED-RETURN", li, f"augmented matrix {unparse(aug[0].value)[:80]}", "identity size / block order not recognised", node=aug[0])
    # reduction over the H^T columns, keeping the rank
    nc = next(k.value for k in red[0].value.keywords if k.arg == "num_cols")
    dn = dim_of(nc)
    n += 1
    if dn == "m":
        rep.ok("VERIFIED-RETURN", li, f"row reduction over the first {unparse(nc)} columns", "pivots are sought in the H^T block only", node=red[0])
    elif dn == "n":
        rep.violation("VERIFIED-RETURN", li, f"row reduction over the first {unparse(nc)} columns", "the reduction must be confined to the m columns of H^T; reducing n columns mixes the identity block in", node=red[0])
    else:
        rep.undecided("VERIFIED-RETURN", li, f"row reduction over the first {unparse(nc)} columns", "column count not recognised", node=red[0])
    tgt = red[0].targets[0]
    rank_name = tgt.elts[1].id if isinstance(tgt, ast.Tuple) and len(tgt.elts) == 2 and isinstance(tgt.elts[1], ast.Name) else None
    sub = fin[0].value.value.args[0] if fin[0].value.value.args else None
    n += 1
    if not (isinstance(sub, ast.Subscript) and isinstance(sub.slice, ast.Tuple) and len(sub.slice.elts) == 2 and all(isinstance(e, ast.Slice) for e in sub.slice.elts)):
        rep.undecided("VERIFIED-RETURN", li, fin[0], "extraction of the null-space rows not recognised", node=fin[0])
        return n
    rows, cols = sub.slice.elts
    lo = rows.lower
    if isinstance(lo, ast.Name) and rank_name is not None and rank_name != "_" and lo.id == rank_name and rows.upper is None:
        rep.ok("VERIFIED-RETURN", li, f"null-space rows start at `{lo.id}`, the rank returned by the reduction", "exactly the rows whose H^T part vanished: the null space of H, also for rank-deficient H", node=fin[0])
    elif lo is not None and (dim_of(lo) in ("m", "n") or isinstance(lo, ast.Constant)):
        rep.violation("VERIFIED-RETURN", li, f"null-space rows start at `{unparse(lo)}`", "the rows of [0 | G] start at the RANK of H (the second value returned by row_reduction), not at a matrix dimension: for a check matrix with dependent rows the rows between rank and m are also codewords and are dropped here, so the published generator spans a smaller code than the null space of H", node=fin[0])
    else:
        rep.undecided("VERIFIED-RETURN", li, f"null-space rows start at `{unparse(lo) if lo is not None else ''}`", "start row not recognised as the reduction's rank", node=fin[0])
    n += 1
    dc = dim_of(cols.lower) if cols.lower is not None else None
    if dc == "m" and cols.upper is None:
        rep.ok("VERIFIED-RETURN", li, f"generator columns start after the {unparse(cols.lower)} columns of H^T", "the identity block holds the combination of rows, i.e. the codeword", node=fin[0])
    elif dc == "n":
        rep.violation("VERIFIED-RETURN", li, f"generator columns start at `{unparse(cols.lower)}`", "the H^T block has m columns; cutting at n leaves the wrong block", node=fin[0])
    else:
        rep.undecided("VERIFIED-RETURN", li, f"generator columns start at `{unparse(cols.lower) if cols.lower is not None else ''}`", "column offset not recognised", node=fin[0])
    return n



def rule_info_set_dependence(repo: Repo, rep: Report) -> int:
    n = 0
    for ci in repo.subclasses("SystematicLinearBlockCodeEncoder"):
        init = ci.methods.get("__init__")
        if init is None or "information_set" not in init.params:
            continue
        repo.consulted.add(ci.file)
        regs = [(c.args[0].value, c) for c in ast.walk(init.node) if isinstance(c, ast.Call) and attr_chain(c.func) == "self.register_buffer" and len(c.args) >= 2 and isinstance(c.args[0], ast.Constant) and c.args[0].value in ("generator_matrix", "check_matrix")]
        for name, call in regs:
            n += 1
            val = call.args[1]
            dep = False
            if name == "check_matrix" and attr_chain(val) == "self._check_matrix":
                m = ci.find_method("_compute_check_matrix")
                dep = m is not None and any(attr_chain(x) in ("self.information_set", "self.parity_set", "self._information_set") for x in ast.walk(m.node))
            else:
                names = {x.id for x in ast.walk(val) if isinstance(x, ast.Name)}
                # flow-insensitive dependence on the information_set parameter
                dep_names = {"information_set"}
                changed = True
                while changed:
                    changed = False
                    for s in stmts_of(init.body):
                        if isinstance(s, ast.Assign) and any(isinstance(x, ast.Name) and x.id in dep_names for x in ast.walk(s.value)):
                            for t in s.targets:
                                for nm in ast.walk(t):
                                    if isinstance(nm, ast.Name) and nm.id not in dep_names:
                                        dep_names.add(nm.id)
                                        changed = True
                dep = bool(names & dep_names)
            if dep:
                rep.ok("INFO-SET", init, f"{ci.name}: last registered {name} = {unparse(val)}", "depends on the information set")
            else:
                rep.violation("INFO-SET", init, f"{ci.name}: last registered {name} = {unparse(val)}", f"the constructor accepts an information set but re-registers a {name} laid out by fixed column positions: for every non-default information set G and H describe different codes", node=call)
    return n


def rule_row_reduction(repo: Repo, rep: Report) -> int:
    """`fec/utils.py::row_reduction(matrix, num_cols)` is what the LDPC encoder derives its generator from ([H^T | I]
    reduced over the first m columns; rank = second return value).  The function is run (own arithmetic) on sample
    matrices - more checks than bits and dependent rows included - and its result is compared with what the callers rely
    on: the returned rank is the GF(2) rank of the first num_cols columns, the reduced matrix spans the same row space,
    its first `rank` rows are in reduced echelon form on those columns and the remaining rows vanish there."""
    from .. import gf2
    from ..constfold import Unfoldable
    from ..frag import FragRaise, FragReturn, run_fragment

    fi = repo.func("kaira/models/fec/utils.py", "row_reduction")
    samples = [
        ([[1, 1, 1, 0, 1, 0, 0], [1, 1, 1, 1, 0, 1, 0], [0, 0, 0, 1, 0, 0, 1]], 4),  # [H^T | I] of a 4 x 3 check matrix (more checks than bits)
        ([[1, 0, 1, 1, 0, 0], [0, 1, 1, 0, 1, 0], [1, 1, 0, 0, 0, 1]], 3),
        ([[1, 1, 0, 1], [1, 1, 0, 1], [0, 1, 1, 0]], None),
        ([[0, 0, 1, 1, 0], [0, 1, 0, 1, 1], [1, 0, 0, 0, 1], [1, 1, 1, 0, 0]], 5),
        ([[1, 0], [0, 1], [1, 1]], 2),
    ]
    what = "row_reduction(matrix, num_cols): reduced matrix and rank"
    for M, nc in samples:
        try:
            run_fragment(fi.body, {"matrix": [list(r) for r in M], "num_cols": nc}, {}, max_steps=60000)
            rep.undecided("ROW-REDUCTION", fi, what, "no value returned")
            return 1
        except FragReturn as r:
            got = r.value
        except (Unfoldable, FragRaise, TypeError, IndexError) as exc:
            rep.undecided("ROW-REDUCTION", fi, what, f"not evaluable ({exc})")
            return 1
        if not (isinstance(got, list) and len(got) == 2 and isinstance(got[1], int) and isinstance(got[0], list)):
            rep.undecided("ROW-REDUCTION", fi, what, f"unexpected result {str(got)[:60]}")
            return 1
        R, rk = [[int(x) % 2 for x in row] for row in got[0]], got[1]
        ncols = len(M[0]) if nc is None else nc
        sub_rank = gf2.rank(gf2.rows_to_masks([row[:ncols] for row in M]))
        bad = None
        if rk != sub_rank:
            bad = f"the returned rank is {rk}; the GF(2) rank of the first {ncols} columns is {sub_rank}"
        elif gf2.rank(gf2.rows_to_masks(M)) != gf2.rank(gf2.rows_to_masks(M + R)) or gf2.rank(gf2.rows_to_masks(R)) != gf2.rank(gf2.rows_to_masks(M)):
            bad = "the reduced matrix does not span the row space of the input"
        elif any(any(row[:ncols]) for row in R[rk:]):
            bad = f"a row below the first {rk} is not zero on the first {ncols} columns"
        else:
            piv = []
            for row in R[:rk]:
                lead = next((j for j in range(ncols) if row[j]), None)
                piv.append(lead)
            if None in piv or piv != sorted(piv) or len(set(piv)) != len(piv) or any(R[i2][pj] for pi_, pj in enumerate(piv) for i2 in range(len(R)) if i2 != pi_):
                bad = f"the first {rk} rows are not in reduced echelon form on the first {ncols} columns (pivots {piv})"
        if bad:
            rep.violation("ROW-REDUCTION", fi, what, f"for the {len(M)} x {len(M[0])} matrix {M} with num_cols={nc}: {bad} - the LDPC encoder takes the rows from `rank` on as its generator, so the code it publishes is not the null space of H", node=fi.node)
            return 1
    rep.ok("ROW-REDUCTION", fi, what, f"rank, row space and reduced echelon form on the first num_cols columns hold on {len(samples)} sample matrices (own GF(2) arithmetic)", node=fi.node)
    return 1


#: real-field linear algebra whose result differs from the GF(2) notion of the same name
REAL_FIELD_CALLS = ("matrix_rank", "inv", "inverse", "pinv", "pinverse", "solve", "lstsq", "det", "slogdet", "qr", "svd", "lu", "cholesky")


def rule_gf2_algebra(repo: Repo, rep: Report) -> int:
    """The encoder package works on 0/1 matrices over GF(2): rank, inverse, determinant ... taken by torch / numpy over the
    reals answer a different question (rows 110, 011, 101 have real rank 3 and GF(2) rank 2).  Expected count: zero."""
    n = 0
    files = [mi for mi in repo.modules.values() if mi.relpath.startswith(ENC + "/") or mi.relpath in ("kaira/models/fec/algebra.py", UTL)]
    rep.floor("encoder / algebra modules scanned for real-field linear algebra", len(files), 10)
    for mi in files:
        for c in ast.walk(mi.tree):
            if isinstance(c, ast.Call):
                nm = call_name(c) or ""
                short = nm.split(".")[-1]
                if short in REAL_FIELD_CALLS and (nm.startswith("torch.") or nm.startswith("np.") or nm.startswith("numpy.") or nm.startswith("scipy.")):
                    owner = next((f for f in list(mi.functions.values()) + [m_ for ci_ in mi.classes.values() for m_ in ci_.methods.values()] if f.node.lineno <= c.lineno <= getattr(f.node, "end_lineno", f.node.lineno)), None)
                    where = owner if owner is not None else f"{mi.relpath}"
                    rep.violation("G2", where, f"{unparse(c)[:90]}", f"`{nm}` is linear algebra over the reals applied in the GF(2) encoder package: real rank / inverse / determinant of a 0/1 matrix differ from their GF(2) counterparts (rows 110, 011, 101: real rank 3, GF(2) rank 2), so rows or columns that the code needs are dropped or kept wrongly", node=c)
                    n += 1
    rep.ok("G2", f"{ENC}/", f"real-field rank / inverse / determinant calls in {len(files)} encoder and algebra modules: {n}", "GF(2) quantities are computed by the package's own GF(2) elimination", nontrivial=False) if n == 0 else None
    # the check matrix LDPCCodeEncoder publishes is the one its generator was derived from
    ci = repo.cls(f"{ENC}/ldpc_code.py", "LDPCCodeEncoder")
    init = repo.method(ci, "__init__")
    sup = [c for c in ast.walk(init.node) if isinstance(c, ast.Call) and unparse(c.func) == "super().__init__"]
    gen = [s_ for s_ in ast.walk(init.node) if isinstance(s_, ast.Assign) and isinstance(s_.value, ast.Call) and attr_chain(s_.value.func) == "self.get_generator_matrix" and s_.value.args]
    harg = next((k.value for c in sup for k in c.keywords if k.arg == "check_matrix"), None)
    if len(sup) != 1 or len(gen) != 1 or not isinstance(harg, ast.Name) or not isinstance(gen[0].value.args[0], ast.Name):
        rep.undecided("G2", init, "LDPC: published check matrix", "super().__init__(check_matrix=<name>) / generator_matrix = self.get_generator_matrix(<name>) not found")
        return n + 2
    src = gen[0].value.args[0].id
    between = [s_ for s_ in ast.walk(init.node) if isinstance(s_, (ast.Assign, ast.AugAssign, ast.AnnAssign)) and gen[0].lineno < s_.lineno <= sup[0].lineno and any(isinstance(t_, ast.Name) and t_.id in (src, harg.id) and isinstance(t_.ctx, ast.Store) for tg in (s_.targets if isinstance(s_, ast.Assign) else [s_.target]) for t_ in ast.walk(tg))]
    same = harg.id == src and not between
    rep.shape(same, False, "G2", init, f"LDPC: generator derived from `{src}`, published check matrix `{harg.id}`" + (f" (re-bound at line {between[0].lineno}: {unparse(between[0])[:60]})" if between else ""), "the published H is the very matrix the generator was computed from: same code, rank n - k", "the published check matrix is not the matrix the generator was computed from", node=sup[0])
    return n + 2


#: buffers that together describe the code of one encoder object
CODE_BUFFERS = ("generator_matrix", "check_matrix")


def rule_buffer_persistence(repo: Repo, rep: Report, names=CODE_BUFFERS, effect="codewords have non-zero syndromes", floor=5) -> int:
    """G, H (and, for C04, the right inverse) are buffers of one module.  load_state_dict replaces the persistent ones and leaves the
    others as constructed, so they describe one code after a checkpoint load only if they are all persistent or all not."""
    n = 0
    sites = []
    for mi in repo.modules.values():
        if not mi.relpath.startswith(ENC + "/"):
            continue
        for ci in mi.classes.values():
            for fi in ci.methods.values():
                for c in ast.walk(fi.node):
                    if isinstance(c, ast.Call) and attr_chain(c.func) == "self.register_buffer" and c.args and isinstance(c.args[0], ast.Constant) and c.args[0].value in names:
                        pk = next((k.value for k in c.keywords if k.arg == "persistent"), c.args[2] if len(c.args) > 2 else None)
                        if pk is None:
                            pers = True
                        elif isinstance(pk, ast.Constant) and isinstance(pk.value, bool):
                            pers = pk.value
                        else:
                            pers = None
                        sites.append((fi, c, c.args[0].value, pers))
    rep.floor("code-describing buffers registered by the encoder package", len(sites), floor)
    known = {p_ for *_, p_ in sites if p_ is not None}
    for fi, c, name, pers in sites:
        n += 1
        if pers is None:
            rep.undecided("PERSIST", fi, f"register_buffer('{name}', ...)", f"persistence `{unparse(c)[:80]}` is not a literal", node=c)
        elif len(known) > 1 and pers is False:
            rep.violation("PERSIST", fi, f"register_buffer('{name}', ..., persistent=False)", f"`{name}` is left out of the state dict while other buffers of the same code description are kept: after load_state_dict from an encoder of another code with the same (n, k) the generator matrix is the loaded one and `{name}` is the old one, so {effect}", node=c)
        else:
            rep.ok("PERSIST", fi, f"register_buffer('{name}', ...) persistent = {pers}", "all buffers of the code description share one persistence: a checkpoint load replaces all of them or none", node=c, nontrivial=False)
    return n


def thorough_evaluations(repo: Repo, rep: Report) -> None:
    """Thorough tier: the evaluations that otherwise only decide unlisted spellings are run on the tree as it is."""
    for what, fn, fi in (
        ("create_systematic_generator_matrix evaluated for six information sets", systematic_matrix_evaluated, repo.func(SYS, "create_systematic_generator_matrix")),
        ("get_information_and_parity_sets evaluated for five layouts and four inadmissible sets", info_parity_sets_evaluated, repo.func(SYS, "get_information_and_parity_sets")),
    ):
        st_, d_ = fn(fi)
        if st_ is not None:
            rep.add("SYSTEMATIC", fi, f"{what} (thorough tier)", st_, d_, node=fi.node)


def run(repo: Repo, rep: Report, tier: str) -> None:
    if tier == "thorough":
        thorough_evaluations(repo, rep)
    n = rule_encode_form(repo, rep)
    n += rule_gf2_algebra(repo, rep)
    n += rule_row_reduction(repo, rep)
    n += rule_overrides(repo, rep)
    n += rule_systematic_matrix(repo, rep)
    n += rule_null_space(repo, rep)
    n += rule_info_set_dependence(repo, rep)
    n += rule_buffer_persistence(repo, rep)
    classes = [repo.cls(LIN, "LinearBlockCodeEncoder")] + [c for c in repo.subclasses("LinearBlockCodeEncoder") if c.file.startswith(ENC + "/")]
    n += tstr_lint(repo, rep, "T-STR", classes)
    for ci in classes:
        for fi in ci.methods.values():
            if fi.name in ("forward", "calculate_syndrome", "_compute_check_matrix", "get_generator_matrix"):
                lint_value_keyed(rep, fi, rule="G1", allowed_literals={0, 1, -1, 2}, also_device=True)
                n += 1
    for fname in ("compute_null_space_matrix",):
        lint_value_keyed(rep, repo.func(LIN, fname), rule="G1", allowed_literals={0, 1, -1, 2})
    for fname in ("create_systematic_generator_matrix", "get_information_and_parity_sets"):
        lint_value_keyed(rep, repo.func(SYS, fname), rule="G1", allowed_literals={0, 1, -1, 2})
    rep.floor("C01 rule instances", n, 45)
    rep.decided_clauses += [
        "encoding = blockwise multiplication by the published G, syndrome = multiplication by the published H^T, with length validation",
        "systematic placement and identity columns use one index computation; check-matrix overrides follow the information set; no dead layout branches",
        "null-space / LDPC-generator helpers return exact GF(2) elimination results or verified objects, never a constant fallback",
        "no class re-registers matrices that ignore a configurable information set",
    ]
    rep.undecided_clauses += ["rank(H) = n-k and null-space equality as numerical facts", "injectivity for arbitrary user matrices", "the Reed-Solomon-style construction (multiplies field elements as binary polynomials)"]
