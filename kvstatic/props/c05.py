"""C05 - noise-free modulation followed by hard demodulation returns the transmitted bits.

Decided statically (structural necessary conditions of the round trip, per registered pair):

LABEL      label-table agreement.  The modulator's map bit group -> constellation index is classified:
           S (search over bit_patterns rows, same row index into constellation), M (MSB-first integer ->
           bit_to_symbol_map built as the inverse of bit_patterns -> constellation), N (MSB-first integer used
           directly: needs bit_patterns[i] = binary(i) in every configuration).  The bit-group -> integer
           kernel is tabulated for all 2^b groups with the checker's own arithmetic.  The demodulator's hard
           branch must take argmin over distances to the SAME point table (through self.modulator) and read
           self.modulator.bit_patterns at that index.
SIGN       sign-based schemes (BPSK, OQPSK): amplitude(bit) and decision(amplitude) compose to the identity on {0,1}.
COUNT      bits are grouped by reshape(..., -1, bits_per_symbol) behind a divisibility ValueError;
           bits_per_symbol = log2(order) (or the literal table width); the demodulator's reference modulator
           is built from the demodulator's own (order, labelling, normalisation) arguments.
MEMORY     schemes with memory: state is written only under `if self.training`; reset_state restores the
           constructor's initial value; DPSK detects on y[1:] * conj(y[:-1]); OQPSK delays the quadrature
           branch only; pi/4-QPSK modulator and demodulator start on the same constellation and toggle per symbol.
OUTPUT     every return of a hard branch is a bit tensor (read from bit_patterns or a comparison), for every input rank.
VALUE-KEYED  a modulator never re-reads a valid bit sequence as symbol indices because of its values or size:
           every guard that leads to `indices = x.long()` is evaluated on enumerated valid bit inputs.
"""
from __future__ import annotations

import ast
import itertools
from typing import Callable, Dict, List, Optional, Sequence, Tuple

from ..astutil import ancestors, attr_chain, call_name, match, names_in, set_parents, stmts_of, walk_no_nested, returns_of
from ..closedform import classify
from ..constfold import Folder, PySeq, Unfoldable
from ..core import OK, UNDECIDED, VIOLATION, AnalysisError, ClassInfo, FuncInfo, Repo, Report, unparse
from ..frag import FragRaise, FragReturn, run_fragment
from .c14 import fold_buffers, label_generator
from .c15 import registered, tv_eval

EXPLANATION = (
    "Round trips are asserted by the tests for BPSK/PSK/QAM/PAM on one random batch only. The rules below decide, for every "
    "registered modulator/demodulator pair and every order / labelling option at once, that the two directions go through the "
    "same pair of tables by the same index (or through a map that is the table's inverse), that the bit-group -> index kernel is "
    "the MSB-first integer for all 2^b groups, that sign conventions compose to the identity, that state is only carried in "
    "training mode and is restored by reset_state, and that no valid bit sequence can be re-read as symbol indices."
)

MD = "kaira/modulations"


def bits_of(i: int, b: int) -> List[int]:
    return [(i >> (b - 1 - k)) & 1 for k in range(b)]


def configured(body: Sequence[ast.stmt], decide: Callable[[ast.expr], Optional[bool]]) -> List[ast.stmt]:
    """Flatten `if` statements whose test the configuration decides; keep the others."""
    out: List[ast.stmt] = []
    for st in body:
        if isinstance(st, ast.If):
            d = decide(st.test)
            if d is True:
                out += configured(st.body, decide)
                continue
            if d is False:
                out += configured(st.orelse, decide)
                continue
        out.append(st)
    return out


def targets_of(st: ast.stmt) -> set:
    out = set()
    for n in ast.walk(st):
        if isinstance(n, (ast.Assign, ast.AugAssign, ast.AnnAssign)):
            tg = n.targets if isinstance(n, ast.Assign) else [n.target]
            for t in tg:
                for x in ast.walk(t):
                    if isinstance(x, ast.Name) and isinstance(x.ctx, ast.Store):
                        out.add(x.id)
                    elif isinstance(x, ast.Name) and isinstance(t, ast.Subscript) and x is t.value:
                        out.add(x.id)
    return out


def backward_slice(body: Sequence[ast.stmt], want: str, seeds: set) -> List[ast.stmt]:
    needed = {want}
    chosen: List[ast.stmt] = []
    changed = True
    while changed:
        changed = False
        for st in body:
            if st in chosen or isinstance(st, (ast.Return, ast.Raise)):
                continue
            if isinstance(st, ast.If) and any(isinstance(x, ast.Raise) for x in st.body) and not (targets_of(st) & needed):
                continue
            if targets_of(st) & needed:
                chosen.append(st)
                for x in ast.walk(st):
                    if isinstance(x, ast.Name) and isinstance(x.ctx, ast.Load) and x.id not in seeds:
                        if x.id not in needed:
                            needed.add(x.id)
                changed = True
    return [st for st in body if st in chosen]


def index_kernel(fi: FuncInfo, target: str, b: int, decide, extra_attrs=None) -> Dict[Tuple[int, ...], int]:
    """Tabulate bit group -> value of `target` for all 2^b groups."""
    body = configured(fi.body, decide)
    sl = backward_slice(body, target, {"x_reshaped", "self", "torch", "x"})
    table = {}
    for i in range(2**b):
        bits = bits_of(i, b)
        env = run_fragment(sl, {"x_reshaped": bits, "x": bits}, dict({"self._bits_per_symbol": b, "self.order": 2**b, "self.bits_per_symbol": b}, **(extra_attrs or {})))
        v = env.get(target)
        if isinstance(v, list) and len(v) == 1:
            v = v[0]
        if isinstance(v, float) and v == int(v):
            v = int(v)
        if not isinstance(v, int) or isinstance(v, bool):
            raise Unfoldable(f"`{target}` is not an integer for bits {bits} ({v!r})")
        table[tuple(bits)] = v
    return table


def modulator_forward_evaluated(ci: ClassInfo, fi: FuncInfo, bs: Sequence[int], via_map: bool):
    """The whole forward of a memoryless table modulator evaluated (own arithmetic) on bit blocks of rank 1, 2 and 3 with
    a table of distinct stand-in points (and, for the PSK modulator, a fixed non-trivial label permutation): symbol t of
    every row must be the point selected by the bits t*b .. t*b+b-1 of THAT row read MSB first.
    Returns (status, detail) or (None, reason)."""
    words = 0
    for b in bs:
        M = 2**b
        pts = [100.0 + i for i in range(M)]
        perm = [(i ^ (i >> 1)) for i in range(M)]  # some permutation of the labels (Gray)
        attrs = {"self._bits_per_symbol": b, "self.bits_per_symbol": b, "self.order": M, "self.constellation": pts, "self.bit_to_symbol_map": perm, "self.normalize": False, "self.gray_coding": True}

        def stream(seed, n_):
            out, v = [], seed
            for _ in range(n_):
                v = (v * 1103515245 + 12345) % (2**31)
                out.append(float((v >> 16) & 1))
            return out

        L = 3 * b
        blocks = [stream(7 + b, L), [stream(11, L), stream(13, L)], [[stream(17, L), stream(19, L)], [stream(23, L), stream(29, L)], [stream(31, L), stream(37, L)]]]
        if b == 1:
            blocks = blocks[1:]  # a rank-1 block of single bits is also a list of indices
        for x in blocks:
            try:
                run_fragment(fi.body, {"x": x, "args": [], "kwargs": {}}, dict(attrs), materialise=True, max_steps=400000)
                return None, "no value returned"
            except FragReturn as ret:
                got = ret.value
            except (Unfoldable, FragRaise, TypeError, IndexError, ValueError) as exc:
                return None, f"{b} bit(s): {exc}"

            def want_of(t):
                if isinstance(t[0], list):
                    return [want_of(r) for r in t]
                out = []
                for g in range(len(t) // b):
                    lab = int("".join(str(int(v)) for v in t[g * b : (g + 1) * b]), 2)
                    out.append(pts[perm[lab]] if via_map else pts[lab])
                return out

            want = want_of(x)
            if got != want:
                rank = 1 + (isinstance(x[0], list)) + (isinstance(x[0], list) and isinstance(x[0][0], list))
                return VIOLATION, f"{b} bit(s) per symbol, bit block of rank {rank}: forward gives {str(got)[:120]}, the points selected row by row (bits read MSB first{', through the label map' if via_map else ''}) are {str(want)[:120]} (stand-in points 100 + index): symbols are not formed from consecutive bits of one row / not in MSB-first order"
            words += 1
    return OK, f"{words} bit blocks (rank 1, 2 and 3; {', '.join(str(b) for b in bs)} bit(s) per symbol): every symbol is the point selected by the consecutive bits of its own row, MSB first"


def rule_label(repo: Repo, rep: Report) -> int:
    n = 0
    # ---- modulators ------------------------------------------------------------------------------
    specs = [
        # class file, class, idiom, orders (bits), label source
        (f"{MD}/psk.py", "QPSKModulator", "N", [2]),
        (f"{MD}/psk.py", "PSKModulator", "M", [2, 3, 4, 5, 6]),
        (f"{MD}/qam.py", "QAMModulator", "S", []),
        (f"{MD}/pam.py", "PAMModulator", "S", []),
        (f"{MD}/dpsk.py", "DPSKModulator", "N", [1, 2, 3, 4]),
        (f"{MD}/pi4qpsk.py", "Pi4QPSKModulator", "N", [2]),
    ]
    for file, cname, idiom, bs in specs:
        ci = repo.cls(file, cname)
        fi = repo.method(ci, "forward")
        set_parents(fi.node)
        if idiom == "S":
            n += search_idiom(rep, ci, fi)
            continue

        def decide(test, cname=cname):
            t = unparse(test)
            if t == "is_binary_input":
                return True
            if cname == "Pi4QPSKModulator" and "x.dim() == 1" in t:
                return False
            if cname == "DPSKModulator" and t.startswith("is_binary_input and"):
                return False
            if cname == "PSKModulator" and ("x.numel() == 1" in t or "scalar_input" in t or "torch.any((x != 0) & (x != 1))" in t):
                return False
            return None

        if cname == "Pi4QPSKModulator":
            pst_, pd_ = pi4_forward_evaluated(repo, cname)
            if pst_ is not None:
                rep.add("LABEL", fi, f"{cname}: forward evaluated - every bit pair is sent as the point of its own label row (both tables, both labelings)", pst_, pd_, node=fi.node)
                n += 2
                n += natural_table_rule(repo, rep, ci, cname)
                continue
        if cname in ("PSKModulator", "QPSKModulator"):
            est_, ed_ = modulator_forward_evaluated(ci, fi, bs, via_map=(idiom == "M"))
            if est_ is not None:
                rep.add("LABEL", fi, f"{cname}: forward evaluated on bit blocks of rank 1, 2, 3 with stand-in points", est_, ed_, node=fi.node)
                n += 1 + len(bs)
                n += psk_map_rule(repo, rep, ci) if idiom == "M" else natural_table_rule(repo, rep, ci, cname)
                continue
        # which name indexes the point table?
        subs = [s for s in ast.walk(fi.node) if isinstance(s, ast.Subscript) and attr_chain(s.value) in ("self.constellation", "self.qpsk", "self.qpsk_rotated", "self.bit_to_symbol_map") and isinstance(s.ctx, ast.Load)]
        roots = set()
        for s in subs:
            r = s.slice
            while isinstance(r, ast.Subscript):
                r = r.value
            if isinstance(r, ast.Name):
                roots.add((attr_chain(s.value), r.id))
        if idiom == "M":
            via_map = [r for t, r in roots if t == "self.bit_to_symbol_map"]
            pts = [r for t, r in roots if t == "self.constellation" and r not in ("indices", "x")]
            mp = [s for s in ast.walk(fi.node) if isinstance(s, ast.Assign) and isinstance(s.targets[0], ast.Name) and s.targets[0].id in pts and isinstance(s.value, ast.Subscript) and attr_chain(s.value.value) == "self.bit_to_symbol_map"]
            ok = len(set(via_map)) == 1 and len(mp) == 1
            rep.expect(ok, "LABEL", fi, f"{cname}: constellation[{'/'.join(sorted(set(pts)))}] with index = bit_to_symbol_map[{'/'.join(sorted(set(via_map)))}]", "bits -> integer -> inverse label map -> point", "lookup chain not recognised")
            target = via_map[0] if via_map else None
            n += 1
        else:
            cand = sorted({r for t, r in roots if t != "self.bit_to_symbol_map"})
            target = cand[0] if len(cand) == 1 else None
            rep.expect(target is not None, "LABEL", fi, f"{cname}: point table indexed by `{target}`", "bits -> integer -> point", f"index variable not unique ({cand})")
            n += 1
        if target is None:
            continue
        for b in bs:
            try:
                tab = index_kernel(fi, target, b, decide)
            except (Unfoldable, FragRaise, FragReturn) as exc:
                rep.undecided("LABEL", fi, f"{cname}: bit group -> `{target}` for {b} bit(s)", f"kernel not evaluable with literal arithmetic ({exc})")
                n += 1
                continue
            bad = [(bits, v) for bits, v in tab.items() if v != int("".join(map(str, bits)), 2)]
            n += 1
            if bad:
                rep.violation("LABEL", fi, f"{cname}: bit group -> `{target}` for {b} bit(s)", f"bits {list(bad[0][0])} give index {bad[0][1]}, not the MSB-first integer {int(''.join(map(str, bad[0][0])), 2)}: the demodulator's label table (row i = binary or Gray pattern read MSB first) no longer matches")
            else:
                rep.ok("LABEL", fi, f"{cname}: bit group -> `{target}` for {b} bit(s)", f"MSB-first integer for all {2**b} groups")
        # table requirement
        if idiom == "M":
            n += psk_map_rule(repo, rep, ci)
        else:
            n += natural_table_rule(repo, rep, ci, cname)
    # ---- demodulators: nearest index over the same points, bits from the same table -------------
    dspecs = [
        (f"{MD}/psk.py", "QPSKDemodulator", "forward", ["self.modulator.constellation"]),
        (f"{MD}/psk.py", "PSKDemodulator", "forward", ["self.modulator.constellation"]),
        (f"{MD}/qam.py", "QAMDemodulator", "forward", ["self.modulator.constellation"]),
        (f"{MD}/pam.py", "PAMDemodulator", "_hard_decision", ["self.modulator.levels"]),
        (f"{MD}/dpsk.py", "DPSKDemodulator", "forward", ["self.modulator.constellation"]),
        (f"{MD}/pi4qpsk.py", "Pi4QPSKDemodulator", "forward", ["self.modulator.qpsk", "self.modulator.qpsk_rotated"]),
    ]
    for file, cname, meth, tables in dspecs:
        ci = repo.cls(file, cname)
        fi = repo.method(ci, meth)
        n += demod_rule(rep, ci, fi, tables)
    # PAM: levels and constellation are the same points in the same order
    ci = repo.cls(f"{MD}/pam.py", "PAMModulator")
    cc = repo.method(ci, "_create_constellation")
    regs = {c.args[0].value: c.args[1] for c in ast.walk(cc.node) if isinstance(c, ast.Call) and attr_chain(c.func) == "self.register_buffer" and len(c.args) >= 2 and isinstance(c.args[0], ast.Constant)}
    lv, cs = regs.get("levels"), regs.get("constellation")
    okp = lv is not None and cs is not None
    if okp:
        from ..astutil import Inliner

        csi = Inliner(cc).inline(cs)
        lvt = unparse(lv)
        m = match(csi, "torch.complex(_L, _Z)")
        okp = m is not None and (unparse(m["_L"]) == lvt or unparse(Inliner(cc).inline(lv)) == unparse(m["_L"])) and "zeros" in unparse(m["_Z"])
    rep.expect(bool(okp), "LABEL", cc, "PAM: constellation = complex(levels, 0), both registered from the same tensor", "the demodulator's nearest level index is the modulator's constellation index", "relation between `levels` and `constellation` not recognised")
    return n + 1


def search_tabulated(ci: ClassInfo, fi: FuncInfo):
    """The modulator's forward run (own arithmetic) on every bit group, with a *permuted* label table and distinct marker
    points: the group that is row i of the table must be sent as point i (finite: all 2^b groups, b = 2, 4 and 8)."""
    funcs = {f"self.{nm}": f_.node for nm, f_ in ci.methods.items() if nm not in ("forward", "__init__")}
    funcs.update({nm: f_.node for nm, f_ in ci.module.functions.items()})
    # module-level literal constants (block sizes, thresholds) the forward may read
    consts = {st_.targets[0].id: st_.value.value for st_ in ci.module.tree.body if isinstance(st_, ast.Assign) and len(st_.targets) == 1 and isinstance(st_.targets[0], ast.Name) and isinstance(st_.value, ast.Constant) and isinstance(st_.value.value, (int, float)) and not isinstance(st_.value.value, bool)}
    count = 0
    for b in (2, 4, 8):  # 8: the largest registered order (256 points) - a table handled in blocks needs more than one block
        M = 2**b
        perm = [(5 * i + 3) % M for i in range(M)]  # a permutation of 0..M-1 (5 is odd)
        table = [[float(v) for v in bits_of(perm[i], b)] for i in range(M)]
        points = [complex(i + 1, -(i + 1)) for i in range(M)]
        x = [float(v) for g in range(M) for v in bits_of(g, b)]
        attrs = {"self.bit_patterns": table, "self.constellation": points, "self.order": M, "self._bits_per_symbol": b, "self.bits_per_symbol": b, "self.gray_coding": True, "self.normalize": False}
        for layout in ("flat", "batch"):
            xin = x if layout == "flat" else [x[: len(x) // 2], x[len(x) // 2:]]
            try:
                run_fragment(fi.body, dict(consts, x=xin, args=[], kwargs={}), attrs, funcs=funcs, materialise=True, max_steps=40000000)
                return None, "no value returned"
            except FragReturn as ret:
                out = ret.value
            except (Unfoldable, FragRaise, TypeError, IndexError, ValueError) as exc:
                return None, str(exc)
            flat = [z for row in out for z in row] if layout == "batch" and isinstance(out, list) and out and isinstance(out[0], list) else out
            if not (isinstance(flat, list) and len(flat) == M and all(isinstance(z, (int, float, complex)) for z in flat)):
                return None, f"output for the {M} groups is not {M} symbols"
            for g in range(M):
                i = perm.index(g)
                if complex(flat[g]) != points[i]:
                    sent = points.index(complex(flat[g])) if complex(flat[g]) in points else None
                    return VIOLATION, f"order {M}: the bit group {bits_of(g, b)} is row {i} of the label table but is sent as {'point ' + str(sent) if sent is not None else repr(flat[g])}: the demodulator reads the labels at the nearest point's own index, so these bits come back as row {sent}'s label"
                count += 1
    return OK, f"every bit group is sent as the point whose label row it is ({count} groups, 1-D and batched input)"


def search_idiom(rep: Report, ci: ClassInfo, fi: FuncInfo) -> int:
    loops = [l for l in fi.body if isinstance(l, ast.For) and match(l.iter, "range(self.order)") is not None and isinstance(l.target, ast.Name)]
    if len(loops) != 1:
        est, edetail = search_tabulated(ci, fi)
        if est is None:
            rep.undecided("LABEL", fi, f"{ci.name}: search loop over range(self.order)", f"not found; tabulation: {edetail}")
        else:
            rep.add("LABEL", fi, f"{ci.name}: bit group -> point, tabulated over all bit groups with a permuted label table", est, edetail, node=fi.node)
        return 1
    lp = loops[0]
    v = lp.target.id
    pats = [s for s in lp.body if isinstance(s, ast.Assign) and isinstance(s.targets[0], ast.Name) and "self.bit_patterns" in unparse(s.value)]
    masks = [s for s in lp.body if isinstance(s, ast.Assign) and isinstance(s.targets[0], ast.Name) and "torch.all" in unparse(s.value)]
    stores = [s for s in lp.body if isinstance(s, ast.Assign) and isinstance(s.targets[0], ast.Subscript)]
    if len(pats) != 1 or len(masks) != 1 or len(stores) != 1:
        est, edetail = search_tabulated(ci, fi)
        if est is None:
            rep.undecided("LABEL", fi, f"{ci.name}: search loop body", f"{len(pats)} pattern / {len(masks)} mask / {len(stores)} store statements; tabulation: {edetail}")
        else:
            rep.add("LABEL", fi, f"{ci.name}: bit group -> point, tabulated over all bit groups with a permuted label table", est, edetail, node=lp)
        return 1
    pname = pats[0].targets[0].id
    mname = masks[0].targets[0].id
    row = pats[0].value
    while isinstance(row, ast.Call) and isinstance(row.func, ast.Attribute) and row.func.attr in ("to", "float"):
        row = row.func.value
    m1 = match(row, "self.bit_patterns[_I]")
    okrow = m1 is not None
    if okrow and not (isinstance(m1["_I"], ast.Name) and m1["_I"].id == v):
        rep.violation("LABEL", fi, pats[0], f"the searched label row is `{unparse(m1['_I'])}`, not the loop index `{v}`", node=pats[0])
    else:
        rep.expect(okrow, "LABEL", fi, pats[0], f"row {v} of the label table", "label row not recognised", node=pats[0])
    mm = match(masks[0].value, f"torch.all(torch.eq(x_reshaped, {pname}), dim=-1)") or match(masks[0].value, f"torch.all(x_reshaped == {pname}, dim=-1)") or match(masks[0].value, f"(x_reshaped == {pname}).all(dim=-1)")
    if mm is None:
        st, d, _ = classify(masks[0].value, [f"torch.all(torch.eq(x_reshaped, {pname}), dim=-1)", f"torch.all(x_reshaped == {pname}, dim=-1)"])
        rep.add("LABEL", fi, masks[0], st, d, node=masks[0])
    else:
        rep.ok("LABEL", fi, masks[0], "bit groups equal to that row in every position", node=masks[0])
    st_ = stores[0]
    ms = match(st_.targets[0], f"symbols[{mname}]")
    mv = match(st_.value, "self.constellation[_J]")
    if ms is None or mv is None:
        rep.undecided("LABEL", fi, st_, "store of the selected point not recognised", node=st_)
    elif isinstance(mv["_J"], ast.Name) and mv["_J"].id == v:
        rep.ok("LABEL", fi, st_, f"groups labelled by row {v} are sent as point {v}: the modulator's map is the label table itself", node=st_)
    else:
        rep.violation("LABEL", fi, st_, f"groups labelled by row `{v}` are sent as point `{unparse(mv['_J'])}`: the demodulator reads bit_patterns at the nearest point's own index, so these bits come back as another row", node=st_)
    return 3


def psk_map_rule(repo: Repo, rep: Report, ci: ClassInfo) -> int:
    cc = repo.method(ci, "_create_constellation")
    set_parents(cc.node)
    n = 0
    # first choice: tabulate the inverse label map with the checker's own arithmetic (vectorised constructions)
    from .. import gf2

    evaluated = 0
    for gray in (True, False):
        # the whole constructor body is run (own arithmetic): label table and inverse map as the code builds them
        bad = None
        labs: Dict[int, list] = {}
        try:
            for b in (2, 3, 4, 5, 6):
                env = run_fragment(cc.body, {}, {"self.order": 2**b, "self._bits_per_symbol": b, "self.gray_coding": gray, "self.normalize": True}, max_steps=600000, materialise=True)
                mp, bp = env.get("bit_to_symbol_map"), env.get("bit_patterns")
                if not (isinstance(mp, list) and len(mp) == 2**b and all(isinstance(v, int) and not isinstance(v, bool) for v in mp)):
                    raise Unfoldable("map is not an integer list")
                if not (isinstance(bp, list) and len(bp) == 2**b and all(isinstance(r, list) and len(r) == b and all(x in (0, 1) for x in r) for r in bp)):
                    raise Unfoldable("label table is not a 0/1 matrix")
                labs[b] = [int("".join(str(int(x)) for x in r), 2) for r in bp]
                for i in range(2**b):
                    if mp[labs[b][i]] != i:
                        bad = (b, i, labs[b][i], mp[labs[b][i]])
                        break
                if bad:
                    break
        except (Unfoldable, FragRaise, FragReturn, IndexError, TypeError, ValueError):
            continue
        lab = lambda i, _l=labs, _b=(bad[0] if bad else 2): _l[_b][i]  # noqa: E731
        evaluated += 1
        n += 1
        what = f"{ci.name}(gray_coding={gray}): bit_to_symbol_map tabulated for orders 4..64"
        if bad:
            b, i, li, got = bad
            rep.violation("LABEL", cc, what, f"for order {2**b} the bit group {format(li, f'0{b}b')} (the label of point {i}) is mapped to point {got}: the demodulator returns label {format(lab(got), f'0{b}b')} for it", node=cc.node)
        else:
            rep.ok("LABEL", cc, what, "map[label(i)] = i for every point of every order: the map is the inverse of the label table", node=cc.node)
    if evaluated == 2:
        return n
    stores = [s for s in ast.walk(cc.node) if isinstance(s, ast.Assign) and isinstance(s.targets[0], ast.Subscript) and attr_chain(s.targets[0].value) == "bit_to_symbol_map"]
    for s in stores:
        guard = [a for a in ancestors(s) if isinstance(a, ast.If)]
        gray = None
        if guard:
            in_body = any(s is x for b_ in guard[0].body for x in ast.walk(b_))
            t = tv_eval(guard[0].test, {"self.gray_coding": True})
            gray = (t is True) == in_body if t is not None else None
        key, val = unparse(s.targets[0].slice), unparse(s.value)
        loop = [a for a in ancestors(s) if isinstance(a, ast.For)]
        lv = loop[0].target.id if loop and isinstance(loop[0].target, ast.Name) else None
        n += 1
        if gray is None or lv is None:
            rep.undecided("LABEL", cc, s, "configuration of the map store not recognised", node=s)
            continue
        if gray:
            # key must be the MSB-first integer of bit_patterns[lv, :], value the row index
            acc = [x for x in ast.walk(loop[0]) if isinstance(x, ast.Assign) and isinstance(x.targets[0], ast.Name) and x.targets[0].id == key]
            inner = [x for x in acc if match(x.value, f"{key} * 2 + int(bit_patterns[{lv}, _J])") is not None or match(x.value, f"({key} << 1) | int(bit_patterns[{lv}, _J])") is not None or match(x.value, f"2 * {key} + int(bit_patterns[{lv}, _J])") is not None]
            zero = [x for x in acc if isinstance(x.value, ast.Constant) and x.value.value == 0]
            okk = len(inner) == 1 and len(zero) == 1
            if okk and val == lv:
                rep.ok("LABEL", cc, s, f"map[integer of label row {lv}] = {lv}: the map is the inverse of the label table (Gray)", node=s)
            elif okk:
                rep.violation("LABEL", cc, s, f"the inverse label map stores `{val}` at the integer of row `{lv}`; it must store the row index itself", node=s)
            else:
                rep.undecided("LABEL", cc, s, "integer of the label row not recognised (expected idx = idx*2 + int(bit_patterns[i, j]) from 0)", node=s)
        else:
            g, _node = label_generator(cc, {"self.gray_coding": False, "not self.gray_coding": True})
            if key == lv and val == lv and g == "id":
                rep.ok("LABEL", cc, s, "binary labelling: row i is binary(i), the map is the identity", node=s)
            elif g == "gray":
                rep.violation("LABEL", cc, s, f"the identity map is used although the binary-labelling rows are binary({g})", node=s)
            elif g != "id":
                rep.undecided("LABEL", cc, s, "label generator of the binary labelling not recognised", node=s)
            else:
                rep.violation("LABEL", cc, s, f"identity map expected for binary labels, found map[{key}] = {val}", node=s)
    rep.expect(len(stores) == 2, "LABEL", cc, f"{len(stores)} store(s) into bit_to_symbol_map", "one per labelling", "expected one store per labelling")
    return n + 1


def natural_table_rule(repo: Repo, rep: Report, ci: ClassInfo, cname: str) -> int:
    """N idiom: bit_patterns[i] must be binary(i) in every configuration."""
    n = 0
    if cname == "QPSKModulator":
        for norm in (True, False):
            bufs = fold_buffers(ci, "__init__", {"normalize": norm}, {"self.normalize": norm})
            n += _literal_natural(rep, ci, "__init__", f"{cname}(normalize={norm})", bufs.get("bit_patterns"))
    elif cname == "Pi4QPSKModulator":
        for gray in (True, False):
            bufs = fold_buffers(ci, "_create_constellations", {"self.gray_coded": gray}, {})
            n += _literal_natural(rep, ci, "_create_constellations", f"{cname}(gray_coded={gray})", bufs.get("bit_patterns"))
    elif cname == "DPSKModulator":
        cc = repo.method(ci, "_create_constellation")
        for gray in (True, False):
            g, node = label_generator(cc, {"self.gray_coding": gray, "not self.gray_coding": not gray})
            n += 1
            what = f"{cname}(gray_coding={gray}): index = MSB-first integer of the bits, label row i = binary({ {'id': 'i', 'gray': 'i ^ (i >> 1)'}.get(g, g) })"
            if g == "id":
                rep.ok("LABEL", cc, what, "row i is binary(i): the demodulator's row at the transmitted index is the transmitted group", node=node)
            elif g == "gray":
                rep.violation("LABEL", repo.method(ci, "forward"), what, "the modulator sends bit group g as phase index int(g), but the demodulator returns row int(g) of the table, which is Gray(int(g)) != g for orders above 2: DQPSK / Gray DPSK round trips return other bits than were sent", node=node)
            else:
                rep.undecided("LABEL", cc, what, "label generator not recognised", node=node)
    return n


def _literal_natural(rep: Report, ci: ClassInfo, meth: str, what: str, table) -> int:
    where = ci.methods[meth]
    if not isinstance(table, list):
        rep.undecided("LABEL", where, f"{what}: bit_patterns", f"not a literal table ({table})")
        return 1
    b = len(table[0]) if table else 0
    rows = [[int(round(float(x))) for x in r] for r in table]
    ok = len(rows) == 2**b and all(rows[i] == bits_of(i, b) for i in range(len(rows)))
    rep.check(ok, "LABEL", where, f"{what}: bit_patterns = {rows}", "row i is binary(i): indexing the points by the MSB-first integer agrees with the demodulator's table", "the modulator indexes the points by the natural-binary integer of the bits, but row i of the label table is not binary(i): the demodulator returns other bits")
    return 1


def demod_rule(rep: Report, ci: ClassInfo, fi: FuncInfo, tables: List[str]) -> int:
    """Hard branch: idx = argmin(distance to the modulator's points); bits = modulator.bit_patterns[idx]."""
    set_parents(fi.node)
    n = 0
    # local aliases of the point tables
    alias: Dict[str, str] = {}
    for s in ast.walk(fi.node):
        if isinstance(s, ast.Assign) and isinstance(s.targets[0], ast.Name):
            ch = attr_chain(s.value)
            if ch and ch.startswith("self.modulator."):
                alias[s.targets[0].id] = ch
            if isinstance(s.value, ast.Call) and isinstance(s.value.func, ast.Attribute) and s.value.func.attr == "to" and (attr_chain(s.value.func.value) or "").startswith("self.modulator."):
                alias[s.targets[0].id] = attr_chain(s.value.func.value)
            if isinstance(s.value, ast.IfExp):
                a, b_ = attr_chain(s.value.body) or alias.get(unparse(s.value.body)), attr_chain(s.value.orelse) or alias.get(unparse(s.value.orelse))
                a = alias.get(unparse(s.value.body), a)
                b_ = alias.get(unparse(s.value.orelse), b_)
                if a and b_:
                    alias[s.targets[0].id] = f"{a}|{b_}"

    def origin(e: ast.AST) -> set:
        out = set()
        for x in ast.walk(e):
            if isinstance(x, ast.Name) and x.id in alias:
                out |= set(alias[x.id].split("|"))
            ch = attr_chain(x) if isinstance(x, ast.Attribute) else None
            if ch and ch.startswith("self.modulator."):
                out.add(".".join(ch.split(".")[:3]))
        return {".".join(o.split(".")[:3]) for o in out}

    # flow-insensitive closure over all definitions of every local name
    defs: Dict[str, List[ast.AST]] = {}
    for s in ast.walk(fi.node):
        if isinstance(s, ast.Assign):
            for t in s.targets:
                if isinstance(t, ast.Name):
                    defs.setdefault(t.id, []).append(s.value)
    name_org: Dict[str, set] = {k: set() for k in defs}
    changed = True
    while changed:
        changed = False
        for k, vals in defs.items():
            for v in vals:
                o = origin(v)
                for x in ast.walk(v):
                    if isinstance(x, ast.Name) and x.id in name_org and x.id != k:
                        o |= name_org[x.id]
                if not o <= name_org[k]:
                    name_org[k] |= o
                    changed = True

    def full_origin(e: ast.AST) -> set:
        o = origin(e)
        for x in ast.walk(e):
            if isinstance(x, ast.Name) and x.id in name_org:
                o |= name_org[x.id]
        return o

    argmins = [c for c in ast.walk(fi.node) if isinstance(c, ast.Call) and (((call_name(c) or "") in ("torch.argmin",) and c.args) or (isinstance(c.func, ast.Attribute) and c.func.attr == "argmin" and not (call_name(c) or "").startswith("torch.")))]
    hard = []
    for c in argmins:
        src = full_origin(c.args[0] if (call_name(c) or "") == "torch.argmin" else c.func.value)
        hard.append((c, src))
    if not hard:
        # the search is spelt differently (a helper, a running minimum ...): the hard branch is tabulated at the
        # constellation points of the paired modulator's own tables
        try:
            from .c15 import hard_nearest_tabulated

            st_, d_ = hard_nearest_tabulated(REPO_REF[0], ci, fi) if REPO_REF else (None, "repository handle not available")
        except Exception as exc:  # the tabulation is a fallback: its failure leaves the obligation undecided
            st_, d_ = None, f"{type(exc).__name__}: {exc}"
        if st_ is None:
            rep.undecided("LABEL", fi, f"{ci.name}: nearest-point search", f"no torch.argmin found in the hard branch; tabulation: {d_}")
        else:
            rep.add("LABEL", fi, f"{ci.name}: nearest-point search (tabulated)", st_, d_, node=fi.node)
        return 1
    for c, src in hard:
        pts = {s for s in src if not s.endswith("bit_patterns")}
        n += 1
        if pts and pts <= set(tables):
            rep.ok("LABEL", fi, f"{ci.name}: {unparse(c)[:60]}", f"nearest index over {sorted(pts)}: the table the modulator maps through", node=c)
        elif pts:
            rep.violation("LABEL", fi, f"{ci.name}: {unparse(c)[:60]}", f"the nearest index is taken over {sorted(pts)}, not over {tables}: the index does not identify the transmitted point", node=c)
        else:
            rep.undecided("LABEL", fi, f"{ci.name}: {unparse(c)[:60]}", "the distances are not derived from a table of the reference modulator", node=c)
    # bits read from self.modulator.bit_patterns at the nearest index
    idx_names = set()
    for s in ast.walk(fi.node):
        if isinstance(s, ast.Assign) and isinstance(s.value, ast.Call) and ((call_name(s.value) or "") == "torch.argmin" or (isinstance(s.value.func, ast.Attribute) and s.value.func.attr == "argmin")):
            for t in s.targets:
                if isinstance(t, ast.Name):
                    idx_names.add(t.id)
    # block-wise search: idx[b*K:(b+1)*K] = argmin(...) inside `for b in range(E)` must cover every symbol
    for s in ast.walk(fi.node):
        if isinstance(s, ast.Assign) and isinstance(s.value, ast.Call) and (call_name(s.value) or "") == "torch.argmin" and isinstance(s.targets[0], ast.Subscript) and isinstance(s.targets[0].value, ast.Name):
            tname = s.targets[0].value.id
            idx_names.add(tname)
            n += 1
            loops = [a for a in ancestors(s) if isinstance(a, ast.For)]
            sl = s.targets[0].slice
            if loops and isinstance(loops[0].target, ast.Name) and isinstance(sl, ast.Name) and sl.id == loops[0].target.id and isinstance(loops[0].iter, ast.Call) and call_name(loops[0].iter) == "range" and len(loops[0].iter.args) == 1:
                rep.ok("LABEL", fi, f"{ci.name}: {unparse(s)[:80]}", f"one decision per position of range({unparse(loops[0].iter.args[0])})", node=s, nontrivial=False)
                continue
            if not loops or not isinstance(loops[0].target, ast.Name) or not isinstance(sl, ast.Slice) or sl.lower is None or sl.upper is None or not (isinstance(loops[0].iter, ast.Call) and call_name(loops[0].iter) == "range" and len(loops[0].iter.args) == 1):
                rep.undecided("LABEL", fi, f"{ci.name}: {unparse(s)[:80]}", "partial store of nearest indices: coverage of all symbols not recognised", node=s)
                continue
            lv = loops[0].target.id
            mK = match(sl.lower, f"{lv} * _K") or match(sl.lower, f"_K * {lv}")
            if mK is None or not isinstance(mK["_K"], ast.Name):
                rep.undecided("LABEL", fi, f"{ci.name}: {unparse(s)[:80]}", "block bounds not recognised", node=s)
                continue
            K = mK["_K"].id
            E = loops[0].iter.args[0]

            class SubN(ast.NodeTransformer):
                def visit_Subscript(self, nd):
                    if isinstance(nd.value, ast.Attribute) and nd.value.attr == "shape":
                        return ast.Name(id="N__", ctx=ast.Load())
                    return self.generic_visit(nd)

                def visit_Call(self, nd):
                    if isinstance(nd.func, ast.Attribute) and nd.func.attr in ("numel", "size") and not (call_name(nd) or "").startswith("torch."):
                        return ast.Name(id="N__", ctx=ast.Load())
                    return self.generic_visit(nd)

            import copy

            E2 = ast.fix_missing_locations(SubN().visit(copy.deepcopy(E)))
            # names bound to such sizes earlier (n = y_flat.shape[0])
            size_names = {d_.targets[0].id for d_ in ast.walk(fi.node) if isinstance(d_, ast.Assign) and isinstance(d_.targets[0], ast.Name) and isinstance(d_.value, ast.Subscript) and isinstance(d_.value.value, ast.Attribute) and d_.value.value.attr == "shape"}
            bad = None
            try:
                for Kv in (4, 7):
                    for Nv in (1, Kv - 1, Kv, Kv + 1, 2 * Kv - 1, 2 * Kv, 2 * Kv + 1, 3 * Kv + 2):
                        names = {K: Kv, "N__": Nv}
                        names.update({sn: Nv for sn in size_names})
                        trip = Folder(names).fold(E2)
                        if not isinstance(trip, int) or trip * Kv < Nv:
                            bad = (Nv, Kv, trip)
                            break
                    if bad:
                        break
            except Unfoldable as exc:
                rep.undecided("LABEL", fi, f"{ci.name}: for {lv} in range({unparse(E)})", f"trip count not evaluable ({exc})", node=loops[0])
                continue
            if bad:
                rep.violation("LABEL", fi, f"{ci.name}: for {lv} in range({unparse(E)}) with blocks of {K}", f"for {bad[0]} symbols and blocks of {bad[1]} the loop runs {bad[2]} time(s) and decides only {bad[2] * bad[1] if isinstance(bad[2], int) else '?'} symbols: the remaining symbols keep the fill value of `{tname}` and are returned as the label of point 0", node=loops[0])
            else:
                rep.ok("LABEL", fi, f"{ci.name}: for {lv} in range({unparse(E)}) with blocks of {K}", "the blocks cover every symbol (checked on 16 size/block combinations)", node=loops[0])
    reads = [s for s in ast.walk(fi.node) if isinstance(s, ast.Subscript) and isinstance(s.ctx, ast.Load) and (attr_chain(s.value) == "self.modulator.bit_patterns" or (isinstance(s.value, ast.Name) and alias.get(s.value.id) == "self.modulator.bit_patterns"))]
    reads = [r for r in reads if not (isinstance(r.slice, ast.Tuple) and any(isinstance(e, ast.Slice) for e in r.slice.elts) and isinstance(r.slice.elts[0], ast.Slice))]  # [:, bit_idx] is the soft branch's column read
    good = 0
    for r in reads:
        sl = r.slice
        if isinstance(sl, ast.Tuple) and sl.elts:
            sl = sl.elts[0]
        if isinstance(sl, ast.Name) and sl.id in idx_names:
            good += 1
            rep.ok("LABEL", fi, f"{ci.name}: {unparse(r)}", "label row of the nearest point", node=r)
            continue
        if isinstance(sl, ast.Name):
            # the where-loop form: for i in range(order): mask = (idx == i); row = bit_patterns[i]; bits = where(mask, row, bits)
            loops = [a for a in ancestors(r) if isinstance(a, ast.For) and isinstance(a.target, ast.Name) and a.target.id == sl.id]
            if loops:
                cmp_ = [c for c in ast.walk(loops[0]) if isinstance(c, ast.Compare) and len(c.ops) == 1 and isinstance(c.ops[0], ast.Eq) and isinstance(c.left, ast.Name) and c.left.id in idx_names]
                if cmp_ and all(isinstance(c.comparators[0], ast.Name) and c.comparators[0].id == sl.id for c in cmp_):
                    good += 1
                    rep.ok("LABEL", fi, f"{ci.name}: {unparse(r)} where {unparse(cmp_[0])}", "symbols whose nearest point is i receive label row i", node=r)
                    continue
                if cmp_:
                    rep.violation("LABEL", fi, f"{ci.name}: {unparse(r)} where {unparse(cmp_[0])}", f"symbols nearest to point `{unparse(cmp_[0].comparators[0])}` receive label row `{sl.id}`: rows and points are paired by different indices", node=r)
                    good += 1
                    continue
        rep.undecided("LABEL", fi, f"{ci.name}: {unparse(r)}", "index of the label-row read not recognised", node=r)
    if not reads:
        # the lookup lives elsewhere (a helper method): the hard branch is tabulated at and around the constellation points
        try:
            from .c15 import hard_nearest_tabulated

            st_, d_ = hard_nearest_tabulated(REPO_REF[0], ci, fi) if REPO_REF else (None, "repository handle not available")
        except Exception as exc:
            st_, d_ = None, f"{type(exc).__name__}: {exc}"
        if st_ is None:
            rep.undecided("LABEL", fi, f"{ci.name}: bits read from self.modulator.bit_patterns", f"no read found; tabulation: {d_}")
        else:
            rep.add("LABEL", fi, f"{ci.name}: decided bits = label of the nearest point (tabulated)", st_, d_, node=fi.node)
    return n + max(1, good)


# ---------------------------------------------------------------------------
# SIGN
# ---------------------------------------------------------------------------

def rule_sign(repo: Repo, rep: Report) -> int:
    n = 0
    _REPO[:] = [repo]
    # BPSK
    mod = repo.method(repo.cls(f"{MD}/psk.py", "BPSKModulator"), "forward")
    dem = repo.method(repo.cls(f"{MD}/psk.py", "BPSKDemodulator"), "forward")
    for cx in (True, False):
        body = configured(mod.body, lambda t: cx if unparse(t) == "self.complex_output" else None)
        n += sign_compose(rep, mod, body, dem, "y_real", f"BPSK(complex_output={cx})", attrs={"self.complex_output": cx})
    # OQPSK: both rails
    mod = repo.method(repo.cls(f"{MD}/oqpsk.py", "OQPSKModulator"), "forward")
    dem = repo.method(repo.cls(f"{MD}/oqpsk.py", "OQPSKDemodulator"), "forward")
    for norm in (0.7071067811865475, 1.0):
        for rail, amp, dec in (("in-phase", "in_phase", "bits_real"), ("quadrature", "quad", "bits_imag")):
            n += sign_rail(rep, mod, dem, amp, dec, norm, f"OQPSK {rail} rail (normalization={norm:.4g})")
    return n


RAW_BIT_VIEWS = {"reshape", "view", "clone", "contiguous", "flatten", "unsqueeze", "squeeze", "flip", "roll"}
FLOAT_CASTS = {"float", "double", "to", "type", "half"}


def rule_bit_dtype(repo: Repo, rep: Report) -> int:
    """A bit tensor may arrive in an integer dtype (uint8 from unpackbits): `1 - 2 * bits` written with integer literals
    is computed in that dtype, and in uint8 `1 - 2` wraps to 255, so every 1 bit gets a large positive amplitude.  In the
    modulators' forward every subtraction whose operands are only integer literals and (views of) the raw input is
    reported; a float literal, a float cast of the bits, or a prior `x = x.float()` promotes the arithmetic."""
    n = 0
    mods = [(f"{MD}/psk.py", "BPSKModulator"), (f"{MD}/psk.py", "QPSKModulator"), (f"{MD}/psk.py", "PSKModulator"), (f"{MD}/qam.py", "QAMModulator"), (f"{MD}/pam.py", "PAMModulator"), (f"{MD}/dpsk.py", "DPSKModulator"), (f"{MD}/oqpsk.py", "OQPSKModulator"), (f"{MD}/pi4qpsk.py", "Pi4QPSKModulator")]
    for file, cname in mods:
        fi = repo.method(repo.cls(file, cname), "forward")
        raw = {"x"}
        cast = False
        for st in stmts_of(fi.body):
            if isinstance(st, ast.Assign) and len(st.targets) == 1 and isinstance(st.targets[0], ast.Name):
                v = st.value
                if st.targets[0].id == "x" and any(isinstance(c, ast.Call) and isinstance(c.func, ast.Attribute) and c.func.attr in FLOAT_CASTS for c in ast.walk(v)):
                    cast = True
                while (isinstance(v, ast.Call) and isinstance(v.func, ast.Attribute) and v.func.attr in RAW_BIT_VIEWS) or isinstance(v, ast.Subscript):
                    v = v.func.value if isinstance(v, ast.Call) else v.value
                if isinstance(v, ast.Name) and v.id in raw:
                    raw.add(st.targets[0].id)

        def kind(e):
            """'int' literal, 'raw' bits, 'mix' (ints and raw bits only), or None (something else: promotes or unknown)"""
            if isinstance(e, ast.Constant) and isinstance(e.value, int) and not isinstance(e.value, bool):
                return "int"
            v = e
            while (isinstance(v, ast.Call) and isinstance(v.func, ast.Attribute) and v.func.attr in RAW_BIT_VIEWS) or isinstance(v, ast.Subscript):
                v = v.func.value if isinstance(v, ast.Call) else v.value
            if isinstance(v, ast.Name) and v.id in raw:
                return "raw"
            if isinstance(e, ast.BinOp) and isinstance(e.op, (ast.Add, ast.Sub, ast.Mult)):
                a, b = kind(e.left), kind(e.right)
                if a is None or b is None:
                    return None
                return "int" if a == b == "int" else "mix"
            return None

        sites = [e for e in ast.walk(fi.node) if isinstance(e, ast.BinOp) and isinstance(e.op, ast.Sub) and kind(e) == "mix"]
        set_parents(fi.node)
        sites = [e for e in sites if not (isinstance(getattr(e, "_parent", None), ast.BinOp) and kind(e._parent) == "mix" and isinstance(e._parent.op, ast.Sub))]
        n += 1
        if sites and not cast:
            rep.violation("BIT-DTYPE", fi, f"{cname}: {unparse(sites[0])}", "the bipolar map is computed in the dtype of the bit tensor: for uint8 bits `1 - 2` wraps to 255, the 1 bit gets a positive amplitude and the sign-based hard decision returns 0 for every transmitted 1 (write the literals as floats or cast the bits)", node=sites[0])
        else:
            rep.ok("BIT-DTYPE", fi, f"{cname}.forward: no integer-only subtraction on the raw bit tensor", "amplitude arithmetic is promoted to float before it can wrap", nontrivial=False)
    return n


def dpsk_detection_evaluated(dd: FuncInfo):
    """Unlisted spelling of the differential detector: the statements of forward up to the nearest-point index of the hard
    branch are run (own arithmetic) for every ordered pair (previous, current) of M-PSK points, M = 4, 8; the index must
    be the phase step (b - a) mod M - also when the two phases straddle the +-pi branch cut of torch.angle."""
    import cmath as _cm
    import math as _m

    from ..frag import FragRaise, FragReturn, run_fragment

    hard = next((s_ for s_ in dd.body if isinstance(s_, ast.If) and unparse(s_.test) in ("noise_var is None", "noise_var is None and (not self.soft_output)")), None)
    if hard is None:
        return UNDECIDED, "hard branch `if noise_var is None:` not found at the top level"
    target = None
    upto = []
    for s_ in hard.body:
        upto.append(s_)
        if isinstance(s_, ast.Assign) and any(isinstance(c, ast.Call) and (call_name(c) or "").split(".")[-1] == "argmin" for c in ast.walk(s_.value)) and isinstance(s_.targets[0], ast.Name):
            target = s_.targets[0].id
            break
    if target is None:
        return UNDECIDED, "no nearest-point (argmin) statement in the hard branch"
    pre = [s_ for s_ in dd.body[: dd.body.index(hard)] if isinstance(s_, ast.Assign)]
    prog = pre + upto
    for M in (4, 8):
        pts = [_cm.exp(1j * 2 * _m.pi * k / M) for k in range(M)]
        for a in range(M):
            for b in range(M):
                try:
                    env = run_fragment(prog, {"y": [pts[a], pts[b]], "noise_var": None}, {"self.modulator.constellation": list(pts), "self.order": M, "self._bits_per_symbol": M.bit_length() - 1, "self.gray_coding": False}, max_steps=20000)
                except (Unfoldable, FragRaise, FragReturn, TypeError, ValueError) as exc:
                    return UNDECIDED, f"the hard branch is not evaluable ({exc})"
                got = env.get(target)
                while isinstance(got, list) and len(got) == 1:
                    got = got[0]
                want = (b - a) % M
                if got != want:
                    return VIOLATION, f"for order {M}, previous point {a} (phase {_cm.phase(pts[a]):.3f}) and current point {b} (phase {_cm.phase(pts[b]):.3f}) the detector decides for step {got} instead of {want}: the differential phase is not reduced correctly modulo 2 pi (pairs whose phases straddle the +-pi cut of torch.angle are decided wrongly)"
    return OK, "unlisted spelling; the decided index is the phase step (b - a) mod M for every ordered pair of points, M = 4 and 8"


def dpsk_modulator_evaluated(repo: Repo):
    """DPSKModulator.forward (class helpers followed, the phase memory kept on the object) evaluated with own arithmetic for
    orders 4 and 8 on one row and on a batch of two rows of bit groups, in training and in evaluation mode, with a
    stand-in phase table exp(2 pi j k / M) and with the offset table exp(j pi (2k + 1) / M) (not closed under products): symbol t = symbol t-1 * table[index of bit group t], symbol -1 being the
    phase memory; the memory left behind is the last symbol (its mean over the batch) in training mode and unchanged in
    evaluation mode.  The index of a bit group is compared as the natural-binary integer (the labelling is decided by
    the LABEL rule).  Returns (status, detail) or (None, reason)."""
    import cmath
    import math

    ci = repo.cls(f"{MD}/dpsk.py", "DPSKModulator")
    fwd = repo.method(ci, "forward")
    funcs = {f"self.{nm}": m.node for nm, m in ci.methods.items() if nm not in ("forward", "__init__")}
    runs = 0
    for M, b, off in ((4, 2, 0.0), (8, 3, 0.0), (4, 2, 1.0), (8, 3, 1.0)):
        # off = 1: the phase steps carry an offset of pi / M (the class's table without Gray coding) - not closed under products
        table = [cmath.exp(1j * math.pi * (2 * k + off) / M) for k in range(M)]
        rows1 = [[(i * 5 + 3) % M for i in range(3)]]
        rows2 = [[1, M - 1, 2], [3, 0, 1]]
        for rows in (rows1, rows2):
            bits = [[float((g >> (b - 1 - t)) & 1) for g in r_ for t in range(b)] for r_ in rows]
            x = bits if len(rows) > 1 else bits[0]
            for training in (True, False):
                mem0 = complex(0, 1)
                attrs = {"self._phase_memory": [mem0], "self.constellation": list(table), "self.order": M, "self._bits_per_symbol": b, "self.bits_per_symbol": b, "self.training": training, "self.gray_coding": False}
                try:
                    run_fragment(fwd.body, {"x": x, "args": PySeq([]), "kwargs": {}}, attrs, funcs=funcs, materialise=True, max_steps=400000, attrs_live=True)
                    return None, "no value returned"
                except FragReturn as ret:
                    out = ret.value
                except (Unfoldable, FragRaise, TypeError, ValueError, IndexError) as exc:
                    return None, f"forward not evaluable ({exc})"
                want = []
                for r_ in rows:
                    prev, acc = mem0, []
                    for g in r_:
                        prev = prev * table[g]
                        acc.append(prev)
                    want.append(acc)
                got = out if len(rows) > 1 else [out]
                try:
                    ok = len(got) == len(want) and all(len(g_) == len(w_) and all(abs(complex(a_) - b_) < 1e-9 for a_, b_ in zip(g_, w_)) for g_, w_ in zip(got, want))
                except TypeError:
                    return None, "the result is not a block of complex symbols"
                if not ok:
                    return VIOLATION, f"order {M}, phase steps exp(j pi (2k + {off:g}) / {M}), bit groups {rows}, phase memory {mem0}: the symbols are {str(out)[:150]}; differential encoding (symbol t = symbol t-1 times the phase step of group t, the memory first) gives {str(want)[:150]}"
                mem = attrs.get("self._phase_memory")
                while isinstance(mem, list) and len(mem) == 1:
                    mem = mem[0]
                last = [w_[-1] for w_ in want]
                want_m = (sum(last) / len(last)) if training else mem0
                if mem is None or isinstance(mem, list) or abs(complex(mem) - want_m) > 1e-9:
                    return VIOLATION, f"order {M}, {'training' if training else 'evaluation'} mode: the phase memory left for the next call is {mem!r} instead of {want_m}"
                runs += 1
    return OK, f"{runs} runs (orders 4, 8; phase tables with and without the pi/M offset; one row and two rows; training and evaluation mode): symbol t = symbol t-1 * phase step t with the memory first; memory = last symbol in training mode, unchanged in evaluation mode"


def oqpsk_modulator_evaluated(repo: Repo):
    """OQPSKModulator.forward (class helpers followed, the carried quadrature value kept on the object) evaluated with own
    arithmetic on one row of 3 and of 4 bit pairs and on a batch of two rows, in training and in evaluation mode: symbol
    t is (amplitude of in-phase bit t) + j (amplitude of quadrature bit t-1), the quadrature of symbol 0 being the carried
    value; amplitude = (1 - 2 bit) * normalisation.  Returns (status, detail) or (None, reason)."""
    ci = repo.cls(f"{MD}/oqpsk.py", "OQPSKModulator")
    fwd = repo.method(ci, "forward")
    funcs = {f"self.{nm}": m.node for nm, m in ci.methods.items() if nm not in ("forward", "__init__")}
    norm, d0 = 0.5, 0.25
    runs = 0
    for x in ([0.0, 1.0, 1.0, 1.0, 0.0, 0.0], [1.0, 0.0, 0.0, 0.0, 1.0, 1.0, 0.0, 1.0], [[0.0, 1.0, 1.0, 1.0, 1.0, 0.0], [1.0, 0.0, 0.0, 0.0, 0.0, 1.0]]):
        for training in (True, False):
            attrs = {"self._delayed_quad": d0, "self._normalization": norm, "self.training": training, "self.normalize": True}
            try:
                run_fragment(fwd.body, {"x": x, "args": PySeq([]), "kwargs": {}}, attrs, funcs=funcs, materialise=True, max_steps=200000, attrs_live=True)
                return None, "no value returned"
            except FragReturn as ret:
                out = ret.value
            except (Unfoldable, FragRaise, TypeError, ValueError, IndexError) as exc:
                return None, f"forward not evaluable ({exc})"
            rows = x if isinstance(x[0], list) else [x]
            want = []
            for r_ in rows:
                ib, qb = r_[0::2], r_[1::2]
                want.append([complex((1 - 2 * ib[t]) * norm, d0 if t == 0 else (1 - 2 * qb[t - 1]) * norm) for t in range(len(ib))])
            got = out if isinstance(x[0], list) else [out]
            try:
                ok = len(got) == len(want) and all(len(g_) == len(w_) and all(abs(complex(a_) - b_) < 1e-12 for a_, b_ in zip(g_, w_)) for g_, w_ in zip(got, want))
            except TypeError:
                return None, "the result is not a block of complex symbols"
            if not ok:
                return VIOLATION, f"bits {str(x)[:70]}, carried quadrature value {d0}: the symbols are {str(out)[:140]}; in-phase amplitude of pair t with the quadrature amplitude of pair t-1 (the carried value first) gives {str(want if isinstance(x[0], list) else want[0])[:140]}"
            carried = attrs.get("self._delayed_quad")
            while isinstance(carried, list) and len(carried) == 1:
                carried = carried[0]
            last = [(1 - 2 * r_[-1]) * norm for r_ in rows]
            want_c = sum(last) / len(last) if training else d0
            if isinstance(carried, list) or abs(complex(carried) - want_c) > 1e-12:
                return VIOLATION, f"bits {str(x)[:70]}, {'training' if training else 'evaluation'} mode: the quadrature value carried to the next call is {carried!r} instead of {want_c}"
            runs += 1
    return OK, f"{runs} runs: the in-phase rail is undelayed, the quadrature rail delayed by exactly one symbol with the carried value first; the carried value is the last quadrature amplitude in training mode and unchanged in evaluation mode"


def pi4_forward_evaluated(repo: Repo, cname: str):
    """The whole forward of the pi/4-QPSK modulator / demodulator (class helpers followed, the state attribute carried on
    the object) evaluated with own arithmetic: both initial states, training and evaluation mode, sequences of 3, 4, 5
    symbols as one row and as a batch of two rows, both labelings; the demodulator in its hard-bit, hard-index and soft
    modes on noise-free symbols.  Symbol t must use the rotated table iff state XOR (t odd); the state left behind is
    state XOR (n odd) in training mode and unchanged in evaluation mode.  Returns (status, detail) or (None, reason)."""
    from .c14 import fold_buffers

    ci = repo.cls(f"{MD}/pi4qpsk.py", cname)
    mc = repo.cls(f"{MD}/pi4qpsk.py", "Pi4QPSKModulator")
    fwd = repo.method(ci, "forward")
    funcs = {nm: f_.node for nm, f_ in ci.module.functions.items()}
    funcs.update({f"self.{nm}": f_.node for nm, f_ in ci.methods.items() if nm not in ("forward", "__init__")})
    is_mod = cname.endswith("Modulator")
    runs = 0
    for gray in (True, False):
        try:
            bufs = fold_buffers(mc, "_create_constellations", {"self.gray_coded": gray}, {"self.gray_coded": gray})
        except Exception as exc:  # noqa: BLE001
            return None, f"tables not evaluable ({exc})"
        q, qr, bp = bufs.get("qpsk"), bufs.get("qpsk_rotated"), bufs.get("bit_patterns")
        if not (isinstance(q, list) and isinstance(qr, list) and len(q) == len(qr) == 4 and isinstance(bp, list) and len(bp) == 4):
            return None, "tables have an unexpected form"
        q, qr = [complex(z) for z in q], [complex(z) for z in qr]
        bp = [[int(b_) for b_ in r_] for r_ in bp]
        seqs = {3: [[2, 0, 3], [1, 3, 0]], 4: [[0, 1, 2, 3], [3, 3, 1, 0]], 5: [[1, 0, 3, 2, 2], [0, 2, 1, 1, 3]]}
        for nsym, rows in seqs.items():
            for batched in (False, True):
                labs = rows if batched else rows[:1]
                for b0 in (False, True):
                    for training in (True, False):
                        pts = [[(qr if (bool(b0) != bool(t % 2)) else q)[l_] for t, l_ in enumerate(r_)] for r_ in labs]
                        bits = [[float(b_) for l_ in r_ for b_ in bp[l_]] for r_ in labs]
                        want_state = (bool(b0) != bool(nsym % 2)) if training else bool(b0)
                        modes = [("modulate", None)] if is_mod else [("hard", None), ("soft", 0.5)]
                        for mode, nv in modes:
                            attrs = {"self.qpsk": q, "self.qpsk_rotated": qr, "self.bit_patterns": [[float(b_) for b_ in r_] for r_ in bp], "self.modulator.qpsk": q, "self.modulator.qpsk_rotated": qr, "self.modulator.bit_patterns": [[float(b_) for b_ in r_] for r_ in bp], "self._use_rotated": b0, "self.training": training, "self.soft_output": False, "self._bits_per_symbol": 2, "self.bits_per_symbol": 2, "self.gray_coded": gray}
                            arg = (bits if batched else bits[0]) if is_mod else (pts if batched else pts[0])
                            names = {"x": arg, "args": PySeq([]), "kwargs": {}} if is_mod else {"y": arg, "noise_var": nv, "args": PySeq([]), "kwargs": {}}
                            try:
                                run_fragment(fwd.body, names, attrs, funcs=funcs, materialise=True, max_steps=4000000, attrs_live=True)
                                return None, "no value returned"
                            except FragReturn as ret:
                                out = ret.value
                            except (Unfoldable, FragRaise, TypeError, ValueError, IndexError, ZeroDivisionError) as exc:
                                return None, f"forward not evaluable ({exc})"
                            ctx = f"{cname}, gray_coded={gray}, {nsym} symbols {'in each of 2 rows' if batched else 'in one row'}, state {b0}, {'training' if training else 'evaluation'} mode" + ("" if is_mod else f", {mode} decisions")
                            flat = []

                            def fl(z):
                                if isinstance(z, list):
                                    for e_ in z:
                                        fl(e_)
                                else:
                                    flat.append(z)

                            fl(out)
                            if is_mod:
                                want = [z for r_ in pts for z in r_]
                                if len(flat) != len(want) or any(abs(complex(a_) - b_) > 1e-9 for a_, b_ in zip(flat, want)):
                                    return VIOLATION, f"{ctx}: the symbols sent are {str([complex(round(complex(a_).real, 3), round(complex(a_).imag, 3)) for a_ in flat])[:160]}; symbol t must be the point of its bit pair in the rotated table iff state XOR (t odd)"
                            elif mode == "soft":
                                if len(flat) != 2 * nsym * len(labs):
                                    return None, f"soft output is not {2 * nsym * len(labs)} numbers"
                                k_ = 0
                                for r_ in labs:
                                    for t, l_ in enumerate(r_):
                                        for j in range(2):
                                            llr = flat[k_]
                                            k_ += 1
                                            if not isinstance(llr, (int, float)) or llr != llr or llr == 0 or (llr > 0) != (bp[l_][j] == 0):
                                                return VIOLATION, f"{ctx}: at symbol {t} (label {bp[l_]}, sent from the {'rotated' if (bool(b0) != bool(t % 2)) else 'standard'} table) the LLR of bit {j} is {llr!r}: the demodulator does not use the table the modulator used at that position"
                            else:
                                wb = [b_ for r_ in labs for l_ in r_ for b_ in bp[l_]]
                                wi = [l_ for r_ in labs for l_ in r_]
                                got = [float(v_) for v_ in flat] if all(isinstance(v_, (int, float)) and not isinstance(v_, bool) for v_ in flat) else None
                                if got is None or not (got == [float(v_) for v_ in wb] or got == [float(v_) for v_ in wi]):
                                    return VIOLATION, f"{ctx}: noise-free symbols of the labels {wi} are decided as {str(got)[:120]} (neither their bits {wb} nor their indices): the demodulator does not use the table the modulator used at every position"
                            final = attrs.get("self._use_rotated")
                            while isinstance(final, list) and len(final) == 1:
                                final = final[0]
                            if isinstance(final, list) or bool(final) != want_state:
                                return VIOLATION, f"{ctx}: the state left for the next call is {final!r} instead of {want_state} (the table of the next symbol in training mode, unchanged in evaluation mode): the following frame is processed a quarter turn out of step with the other side"
                            runs += 1
    return OK, f"{runs} runs (both labelings, 3 / 4 / 5 symbols, one row and two rows, both initial states, training and evaluation mode" + ("" if is_mod else ", hard and soft decisions") + "): symbol t uses the rotated table iff state XOR (t odd); hand-over state XOR (n odd) in training, unchanged in evaluation"


def pi4_state_machine(rep: Report, fwd: FuncInfo, cname: str) -> int:
    """Symbol i of a call uses the rotated set iff state XOR (i odd); in training mode the state left behind is
    state XOR (n odd) - the set of the *next* symbol - and in evaluation mode the state is unchanged.  The flag logic of
    forward is sliced out (assignments of flag variables, the selections of the constellation, the state stores, the
    enclosing loops / branches) and run with the checker's own arithmetic for n = 1..4 symbols, both initial states and
    every layout / output-mode path."""
    import copy

    from ..frag import FragRaise, FragReturn, run_fragment

    STATE = "self._use_rotated"
    flags = set()
    assigns = [s_ for s_ in ast.walk(fwd.node) if isinstance(s_, ast.Assign) and len(s_.targets) == 1 and isinstance(s_.targets[0], ast.Name)]
    loop_vars = {x.id for l_ in ast.walk(fwd.node) if isinstance(l_, ast.For) for x in ast.walk(l_.target) if isinstance(x, ast.Name)}
    for _ in range(5):
        for s_ in assigns:
            v_ = s_.value
            derived = any((isinstance(x, ast.Attribute) and attr_chain(x) == STATE) or (isinstance(x, ast.Name) and x.id in flags) for x in ast.walk(v_))
            # a flag variable is a function of the state, other flag variables, loop counters and constants only
            pure = all(x.id in flags or x.id in loop_vars or x.id in ("bool", "int", "torch", "self", "True", "False") for x in ast.walk(v_) if isinstance(x, ast.Name)) and all(attr_chain(x) == STATE or (attr_chain(x) or "").startswith(STATE + ".") or (attr_chain(x) or "").startswith("torch.") for x in ast.walk(v_) if isinstance(x, ast.Attribute)) and not any(isinstance(x, ast.Subscript) for x in ast.walk(v_))
            if derived and pure:
                flags.add(s_.targets[0].id)
    if not flags:
        rep.undecided("MEMORY", fwd, f"{cname}: alternation state machine", "no variable derived from the state flag found")
        return 1

    def flag_test(t: ast.AST) -> bool:
        return any(isinstance(x, ast.Name) and x.id in flags for x in ast.walk(t)) and not any(isinstance(x, ast.Subscript) for x in ast.walk(t))

    def selects(node: ast.AST) -> bool:
        return any(isinstance(x, (ast.Name, ast.Attribute)) and (attr_chain(x) or "").split(".")[-1] in ("qpsk_rotated",) for x in ast.walk(node))

    def trace(test: ast.AST) -> ast.stmt:
        return ast.Expr(value=ast.Call(func=ast.Attribute(value=ast.Name(id="sel__", ctx=ast.Load()), attr="append", ctx=ast.Load()), args=[ast.Call(func=ast.Name(id="bool", ctx=ast.Load()), args=[copy.deepcopy(test)], keywords=[])], keywords=[]))

    def slice_body(stmts):
        out = []
        for st in stmts:
            if isinstance(st, ast.Assign) and len(st.targets) == 1:
                t = st.targets[0]
                if isinstance(t, ast.Name) and t.id in flags:
                    out.append(st)
                elif attr_chain(t) == STATE:
                    out.append(st)
                elif isinstance(st.value, ast.IfExp) and flag_test(st.value.test) and selects(st.value):
                    pos = selects(st.value.body) and not selects(st.value.orelse)
                    out.append(trace(st.value.test if pos else ast.UnaryOp(op=ast.Not(), operand=st.value.test)))
                elif isinstance(t, ast.Name) and t.id in ("batch_shape", "symbol_shape", "symbol_len"):
                    continue
            elif isinstance(st, ast.If):
                if flag_test(st.test) and (selects(ast.Module(body=st.body, type_ignores=[])) or selects(ast.Module(body=st.orelse, type_ignores=[]))):
                    pos = selects(ast.Module(body=st.body, type_ignores=[])) and not selects(ast.Module(body=st.orelse, type_ignores=[]))
                    out.append(trace(st.test if pos else ast.UnaryOp(op=ast.Not(), operand=st.test)))
                else:
                    b, o = slice_body(st.body), slice_body(st.orelse)
                    if b or o:
                        out.append(ast.If(test=st.test, body=b or [ast.Pass()], orelse=o))
            elif isinstance(st, (ast.For, ast.While)):
                b = slice_body(st.body)
                if b:
                    new = copy.copy(st)
                    new.body, new.orelse = b, []
                    out.append(new)
            elif isinstance(st, ast.Return):
                out.append(ast.Return(value=None))
            elif isinstance(st, ast.Expr) and isinstance(st.value, ast.Call) and isinstance(st.value.func, ast.Attribute) and st.value.func.attr in ("fill_", "copy_") and attr_chain(st.value.func.value) == STATE:
                out.append(st)
        return out

    prog = [ast.fix_missing_locations(x) for x in slice_body(fwd.body)]
    what = f"{cname}: constellation alternation and state hand-over"
    layouts = [{"batch_shape": PySeq([])}, {"batch_shape": PySeq([2])}]
    modes = [{"noise_var": None, "self.soft_output": False}, {"noise_var": 0.5, "self.soft_output": False}, {"noise_var": None, "self.soft_output": True}]
    runs = 0
    for lay in layouts:
        for mode in modes:
            for training in (True, False):
                for b0 in (False, True):
                    for nsym in (1, 2, 3, 4):
                        names = {"sel__": PySeq([]), "symbol_shape": nsym, "symbol_len": nsym, "batch_shape": lay["batch_shape"], "noise_var": mode["noise_var"]}
                        attrs = {STATE: b0, "self.training": training, "self.soft_output": mode["self.soft_output"]}
                        try:
                            env = run_fragment(prog, names, attrs, max_steps=5000)
                            sel, final = env.get("sel__"), env["__attrs__"].get(STATE)
                        except FragReturn as fr:
                            env = getattr(fr, "env", None)
                            if env is None:
                                rep.undecided("MEMORY", fwd, what, "an early return inside the sliced state machine could not be followed")
                                return 1
                            sel, final = env.get("sel__"), env["__attrs__"].get(STATE)
                        except (Unfoldable, FragRaise, TypeError) as exc:
                            rep.undecided("MEMORY", fwd, what, f"state machine not evaluable ({exc})")
                            return 1
                        runs += 1
                        want_sel = [bool(b0) != bool(i % 2) for i in range(nsym)]
                        want_final = (bool(b0) != bool(nsym % 2)) if training else bool(b0)
                        got_sel = [bool(x) for x in sel] if isinstance(sel, list) else None
                        ctx = f"{nsym} symbol(s), state {b0}, {'training' if training else 'eval'} mode, {'batched' if lay['batch_shape'] else '1-D'} input, noise_var={mode['noise_var']}, soft_output={mode['self.soft_output']}"
                        if got_sel != want_sel:
                            rep.violation("MEMORY", fwd, what, f"with {ctx} the rotated set is selected at {got_sel} instead of {want_sel}: modulator and demodulator no longer use the same set at the same symbol position", node=fwd.node)
                            return 1
                        if isinstance(final, list) or bool(final) != want_final:
                            rep.violation("MEMORY", fwd, what, f"with {ctx} the state left for the next call is {final} instead of {want_final} (the set of the next symbol): the following frame is processed a quarter turn out of step with the other side", node=fwd.node)
                            return 1
    rep.ok("MEMORY", fwd, what, f"symbol i uses the rotated set iff state XOR (i odd); hand-over state XOR (n odd) in training, unchanged in eval ({runs} runs of the sliced flag logic)")
    return 1


def rule_oqpsk_interleave(repo: Repo, rep: Report) -> int:
    """The OQPSK demodulator returns, for every row, i0 q0 i1 q1 ...: each return expression of forward is evaluated (own
    list arithmetic) with the in-phase / quadrature decision tensors replaced by labelled index tensors, for inputs of shape
    (N,), (B, N) and (B1, B2, N).  Which operand is the in-phase one is read from the dataflow (y.real / y.imag)."""
    dem = repo.method(repo.cls(f"{MD}/oqpsk.py", "OQPSKDemodulator"), "forward")
    prov: Dict[str, str] = {}
    assigns = [s_ for s_ in ast.walk(dem.node) if isinstance(s_, ast.Assign) and len(s_.targets) == 1 and isinstance(s_.targets[0], ast.Name)]
    for _ in range(4):
        for s_ in assigns:
            tags = set()
            for x in ast.walk(s_.value):
                if isinstance(x, ast.Attribute) and x.attr in ("real", "imag") and isinstance(x.value, ast.Name) and x.value.id == "y":
                    tags.add(x.attr)
                elif isinstance(x, ast.Name) and x.id in prov:
                    tags.add(prov[x.id])
            if len(tags) == 1:
                prov[s_.targets[0].id] = tags.pop()
    shape_names = {s_.targets[0].id: s_.value for s_ in assigns if unparse(s_.value) in ("y.shape", "y.size()")}
    n = 0
    for r in returns_of(dem.node):
        rails = [x.id for x in ast.walk(r.value) if isinstance(x, ast.Name) and x.id in prov]
        rails = list(dict.fromkeys(rails))
        what = f"I/Q interleave: return {unparse(r.value)[:110]}"
        n += 1
        if len(rails) != 2 or {prov[a] for a in rails} != {"real", "imag"}:
            rep.undecided("OUTPUT", dem, what, f"in-phase / quadrature operands not identified ({rails})", node=r)
            continue
        # an element-wise function of one rail (a comparison, a cast, a scaling) keeps the rail's layout: it is replaced by
        # the rail itself, so that only the shuffling part of the expression is evaluated
        SHUFFLE = {"reshape", "view", "cat", "stack", "permute", "transpose", "flatten", "repeat", "repeat_interleave", "tile", "expand", "unbind", "chunk", "split"}

        class Abstract(ast.NodeTransformer):
            def visit_Call(self, node):
                # the callee expression itself (`rail.reshape`) is not a value: only receiver, arguments and keywords are
                if isinstance(node.func, ast.Attribute):
                    used = {x.id for x in ast.walk(node) if isinstance(x, ast.Name) and x.id in prov}
                    shapes_used = any(isinstance(x, ast.Name) and x.id in shape_names for x in ast.walk(node))
                    shuffles = any(isinstance(x, ast.Call) and ((call_name(x) or "").split(".")[-1] in SHUFFLE or (attr_chain(x.func) or "").startswith("self.")) for x in ast.walk(node))
                    if len(used) == 1 and not shapes_used and not shuffles:
                        return ast.copy_location(ast.Name(id=used.pop(), ctx=ast.Load()), node)
                    node.func.value = self.visit(node.func.value)
                node.args = [self.visit(a) for a in node.args]
                for k in node.keywords:
                    k.value = self.visit(k.value)
                return node

            def generic_visit(self, node):
                if isinstance(node, ast.expr) and not isinstance(node, (ast.List, ast.Tuple, ast.Starred, ast.Name, ast.Constant)):
                    used = {x.id for x in ast.walk(node) if isinstance(x, ast.Name) and x.id in prov}
                    shapes_used = any(isinstance(x, ast.Name) and x.id in shape_names for x in ast.walk(node))
                    shuffles = any(isinstance(x, ast.Call) and ((call_name(x) or "").split(".")[-1] in SHUFFLE or (attr_chain(x.func) or "").startswith("self.")) for x in ast.walk(node))
                    if len(used) == 1 and not shapes_used and not shuffles:
                        return ast.copy_location(ast.Name(id=used.pop(), ctx=ast.Load()), node)
                return super().generic_visit(node)

        expr = ast.fix_missing_locations(Abstract().visit(ast.parse(unparse(r.value), mode="eval").body))
        methods = {f"self.{k}": v.node for k, v in dem.cls.methods.items()} if dem.cls is not None else {}
        bad = None
        try:
            for shp in ((4,), (2, 3), (2, 2, 3)):
                def lab(off, shape=shp, base=[0]):
                    def mk(dims, row):
                        if len(dims) == 1:
                            return [row * 1000 + 2 * j + off for j in range(dims[0])]
                        return [mk(dims[1:], row * dims[0] + i) for i in range(dims[0])]
                    return mk(list(shape), 0)
                names: Dict[str, object] = {k: PySeq(shp) for k in shape_names}
                for a in rails:
                    names[a] = lab(0 if prov[a] == "real" else 1)
                fo = Folder(names, {"self._normalization": 1.0})
                fo.funcs = methods
                got = fo.fold(expr)
                want_rows = []
                def rows(z):
                    if isinstance(z, list) and z and not isinstance(z[0], list):
                        want_rows.append(z)
                    elif isinstance(z, list):
                        for t in z:
                            rows(t)
                rows(got)
                for row in want_rows:
                    base = (row[0] // 1000) * 1000 if row else 0
                    if row != [base + t for t in range(2 * shp[-1])]:
                        bad = (shp, row)
                        break
                if bad or len(want_rows) == 0:
                    break
        except Unfoldable as exc:
            rep.undecided("OUTPUT", dem, what, f"not evaluable ({exc})", node=r)
            continue
        if bad:
            shp, row = bad
            names_ = ["i" + str((v % 1000) // 2) if v % 2 == 0 else "q" + str((v % 1000) // 2) for v in row]
            rep.violation("OUTPUT", dem, what, f"for an input of shape {shp} a row comes out as {' '.join(names_)} instead of i0 q0 i1 q1 ...: the bits of a symbol are no longer adjacent (batched inputs are de-interleaved), so the modulator's bit order is not restored", node=r)
        else:
            rep.ok("OUTPUT", dem, what, "i0 q0 i1 q1 ... in every row for 1-D, 2-D and 3-D inputs", node=r)
    return n


def _hard_body(dem: FuncInfo):
    return configured(dem.body, lambda t: True if unparse(t) == "noise_var is None" else (False if unparse(t) == "noise_var is not None" else None))


def sign_compose(rep: Report, mod: FuncInfo, body, dem: FuncInfo, dem_in: str, what: str, attrs: Optional[Dict[str, object]] = None) -> int:
    try:
        out = {}
        for b in (0, 1):
            try:
                run_fragment(body, {"x": b}, dict(attrs or {}))
                raise Unfoldable("no return")
            except FragReturn as r:
                amp = r.value
            amp = amp.real if isinstance(amp, complex) else amp
            try:
                run_fragment(_hard_body(dem), {"y": complex(amp, 0.0), "noise_var": None})
                raise Unfoldable("no return")
            except FragReturn as r:
                out[b] = r.value
    except (Unfoldable, FragRaise) as exc:
        rep.undecided("SIGN", mod, what, f"not evaluable with literal arithmetic ({exc})")
        return 1
    ok = all(int(round(float(out[b]))) == b for b in (0, 1))
    rep.check(ok, "SIGN", dem, f"{what}: bit -> amplitude -> decision = {out}", "identity on {0, 1}", f"the decision rule returns {out}: the amplitude convention of the modulator and the sign test of the demodulator do not compose to the identity")
    return 1


_REPO: List[Repo] = []


def sign_polarity_fallback(rep: Report, mod: FuncInfo, dem: FuncInfo, what: str, why: str) -> int:
    """The named statements of the closed-form rails are gone (refactored): decide the composition with the polarity
    engine instead - monotonicity of the transmitted amplitude in the bit and of the decided bit in the received
    amplitude (whole forward functions, helper methods followed)."""
    from ..polarity import D as PD, I as PI, T as PT, is_top
    from .c15 import HARD_ATOMS, modulator_amplitude_polarity, run_forward

    repo = _REPO[0]
    dci = dem.cls
    amp = modulator_amplitude_polarity(repo, dci)
    hi = run_forward(repo, dci, dem, HARD_ATOMS)
    pys = set()
    for v, r, _e in hi.returns:
        if v is None:
            continue
        pys.add(PT if is_top(v) else v.p("y"))
    if amp not in (PI, PD) or not pys or PT in pys or len(pys) != 1:
        rep.undecided("SIGN", mod, what, f"{why}; polarity fallback: modulator {amp}, decision {sorted(map(str, pys))}")
        return 1
    py = pys.pop()
    if py == amp:
        rep.ok("SIGN", dem, f"{what}: amplitude is {amp} in the bit, decided bit is {py} in the received amplitude", "the two monotone maps compose to the identity on {0, 1} (polarity engine; statement names not found)")
    else:
        rep.violation("SIGN", dem, f"{what}: amplitude is {amp} in the bit, decided bit is {py} in the received amplitude", "the decision is the complement of the transmitted bit")
    return 1


def sign_rail(rep: Report, mod: FuncInfo, dem: FuncInfo, amp_name: str, dec_name: str, norm: float, what: str) -> int:
    a = [s for s in ast.walk(mod.node) if isinstance(s, ast.Assign) and isinstance(s.targets[0], ast.Name) and s.targets[0].id == amp_name]
    d = [s for s in ast.walk(dem.node) if isinstance(s, ast.Assign) and isinstance(s.targets[0], ast.Name) and s.targets[0].id == dec_name]
    if len(a) != 1 or len(d) != 1:
        return sign_polarity_fallback(rep, mod, dem, what, f"{len(a)} amplitude / {len(d)} decision statements named {amp_name}/{dec_name}")
    # local single assignments are followed back to the bit tensor; `x_reshaped` (..., N, 2) is modelled by its two rails
    single: Dict[str, List[ast.AST]] = {}
    for s_ in ast.walk(mod.node):
        if isinstance(s_, ast.Assign) and len(s_.targets) == 1 and isinstance(s_.targets[0], ast.Name):
            single.setdefault(s_.targets[0].id, []).append(s_.value)
    local = {k: v[0] for k, v in single.items() if len(v) == 1 and k not in ("x_reshaped", "x")}
    # any name for the (..., N, 2) view of the bit tensor is modelled by its two rails
    pair_views = {k for k, v in local.items() if isinstance(v, ast.Call) and isinstance(v.func, ast.Attribute) and v.func.attr in ("reshape", "view") and isinstance(v.func.value, ast.Name) and v.func.value.id == "x" and v.args and isinstance(v.args[-1], ast.Constant) and v.args[-1].value == 2}
    for k in pair_views:
        local.pop(k)
    src = [x.id for x in ast.walk(d[0].value) if isinstance(x, ast.Name) and x.id.startswith("y_")]
    try:
        out = {}
        for b in (0, 1):
            names = dict(local)
            names.update({"x_reshaped": [b, b], "x": b})
            names.update({k: [b, b] for k in pair_views})
            fo_ = Folder(names, {"self._normalization": norm})
            fo_.funcs = {f"self.{k}": v.node for k, v in mod.cls.methods.items()} if mod.cls is not None else {}
            amp = fo_.fold(a[0].value)
            out[b] = Folder({s_: amp for s_ in src}).fold(d[0].value)
    except Unfoldable as exc:
        rep.undecided("SIGN", mod, what, f"not evaluable with literal arithmetic ({exc})")
        return 1
    ok = all(int(round(float(out[b]))) == b for b in (0, 1))
    rep.check(ok, "SIGN", dem, f"{what}: bit -> amplitude -> decision = {out}", "identity on {0, 1}", f"the decision returns {out}: modulator amplitude `{unparse(a[0].value)}` and demodulator test `{unparse(d[0].value)}` do not compose to the identity", node=d[0])
    return 1


# ---------------------------------------------------------------------------
# COUNT
# ---------------------------------------------------------------------------

def modulator_count_evaluated(fi: FuncInfo, bs: Sequence[int]):
    """forward of a memoryless table modulator evaluated on bit blocks whose length is / is not a multiple of the group
    size: the number of symbols is bits / b along the last axis, and any other length is rejected (no value returned)."""
    cases = 0
    for b in bs:
        M = 2**b
        attrs = {"self._bits_per_symbol": b, "self.bits_per_symbol": b, "self.order": M, "self.constellation": [100.0 + i for i in range(M)], "self.bit_to_symbol_map": list(range(M)), "self.normalize": False, "self.gray_coding": False}
        for g in (1, 2, 5):
            for extra in ((0, 1) if b > 1 else (0,)) + ((b - 1,) if b > 2 else ()):
                L = g * b + extra
                x = [[float((i * 7 + r) % 2) for i in range(L)] for r in range(2)]
                try:
                    run_fragment(fi.body, {"x": x, "args": [], "kwargs": {}}, dict(attrs), materialise=True, max_steps=400000)
                    return None, "no value returned"
                except FragReturn as ret:
                    got = ret.value
                except FragRaise:
                    got = "raise"
                except (Unfoldable, TypeError, IndexError, ValueError) as exc:
                    return None, f"{b} bit(s): {exc}"
                if extra == 0:
                    if got == "raise":
                        return VIOLATION, f"{b} bit(s) per symbol: a block of {L} bits per row ({g} full groups) is rejected"
                    if not (isinstance(got, list) and len(got) == 2 and all(isinstance(r, list) and len(r) == g for r in got)):
                        return VIOLATION, f"{b} bit(s) per symbol: {L} bits per row give {len(got[0]) if isinstance(got, list) and got and isinstance(got[0], list) else '?'} symbols per row instead of {g}"
                elif got != "raise":
                    return VIOLATION, f"{b} bit(s) per symbol: a block of {L} bits per row (not a multiple of {b}) is accepted and gives {len(got[0]) if isinstance(got, list) and got and isinstance(got[0], list) else '?'} symbols per row: bits are silently dropped or padded"
                cases += 1
    return OK, f"{cases} block lengths: symbols = bits / b along the last axis, lengths that are not a multiple of b raise"


def rule_count(repo: Repo, rep: Report) -> int:
    n = 0
    mods = [(f"{MD}/psk.py", "QPSKModulator", "2"), (f"{MD}/psk.py", "PSKModulator", "self._bits_per_symbol"), (f"{MD}/qam.py", "QAMModulator", "self._bits_per_symbol"), (f"{MD}/pam.py", "PAMModulator", "self._bits_per_symbol"), (f"{MD}/dpsk.py", "DPSKModulator", "self._bits_per_symbol"), (f"{MD}/oqpsk.py", "OQPSKModulator", "2"), (f"{MD}/pi4qpsk.py", "Pi4QPSKModulator", "2")]
    for file, cname, bps in mods:
        ci = repo.cls(file, cname)
        fi = repo.method(ci, "forward")
        rs = [s for s in ast.walk(fi.node) if isinstance(s, ast.Assign) and isinstance(s.targets[0], ast.Name) and s.targets[0].id == "x_reshaped"]
        n += 1
        m = None
        if cname in ("PSKModulator", "QPSKModulator") and len(rs) != 1:
            # another spelling of the grouping: decided by evaluation of the whole method
            cst_, cd_ = modulator_count_evaluated(fi, [2] if cname == "QPSKModulator" else [1, 2, 3, 4])
            if cst_ is not None:
                rep.add("COUNT", fi, f"{cname}: forward evaluated on block lengths that are / are not multiples of the group size", cst_, cd_, node=fi.node)
                n += 1
                continue
        if len(rs) != 1:
            # the grouping under another name: the one reshape / view of the input `x` into (*lead, symbols, group)
            calls_ = [c_ for c_ in ast.walk(fi.node) if isinstance(c_, ast.Call) and isinstance(c_.func, ast.Attribute) and c_.func.attr in ("reshape", "view") and isinstance(c_.func.value, ast.Name) and c_.func.value.id == "x" and len(c_.args) == 3 and isinstance(c_.args[0], ast.Starred) and not c_.keywords]
            lead_ = {s_.targets[0].id for s_ in ast.walk(fi.node) if isinstance(s_, ast.Assign) and isinstance(s_.targets[0], ast.Name) and unparse(s_.value) == "x.shape[:-1]"}
            calls_ = [c_ for c_ in calls_ if (isinstance(c_.args[0].value, ast.Name) and c_.args[0].value.id in lead_) or unparse(c_.args[0].value) == "x.shape[:-1]"]
            if len(calls_) != 1:
                rep.undecided("COUNT", fi, f"{cname}: x_reshaped", f"{len(rs)} definitions")
                continue
            rs = [next(s_ for s_ in ast.walk(fi.node) if isinstance(s_, (ast.Assign, ast.Return, ast.Expr)) and any(x_ is calls_[0] for x_ in ast.walk(s_)))]
            if unparse(calls_[0].args[1]) == "-1" or isinstance(calls_[0].args[1], ast.Name):
                m = {"_B": calls_[0].args[2]}
        else:
            m = match(rs[0].value, "x.reshape(*batch_shape, -1, _B)") or match(rs[0].value, "x.view(*batch_shape, -1, _B)") or match(rs[0].value, "x.reshape(*batch_shape, symbol_len, _B)")
        if m is None:
            rep.undecided("COUNT", fi, rs[0], "grouping reshape not recognised", node=rs[0])
            continue
        got = unparse(m["_B"])
        if isinstance(m["_B"], ast.Name):
            # a local that names the group size (`bps = self._bits_per_symbol`): its only definition decides
            ds_ = [s_.value for s_ in ast.walk(fi.node) if isinstance(s_, ast.Assign) and len(s_.targets) == 1 and isinstance(s_.targets[0], ast.Name) and s_.targets[0].id == got]
            if len(ds_) == 1 and got not in fi.params:
                got = unparse(ds_[0])
            elif got not in ("2",):
                rep.undecided("COUNT", fi, rs[0], f"group size `{got}` is a local with {len(ds_)} definitions", node=rs[0])
                continue
        if got == bps:
            rep.ok("COUNT", fi, rs[0], f"bits grouped {bps} per symbol along the last axis: symbols = bits / {bps}", node=rs[0])
        else:
            rep.violation("COUNT", fi, rs[0], f"bits are grouped {got} per symbol; this scheme carries {bps} bits per symbol", node=rs[0])
        # divisibility guard
        guards = [s for s in ast.walk(fi.node) if isinstance(s, ast.If) and any(isinstance(x, ast.Raise) for x in s.body) and "%" in unparse(s.test)]
        okg = any(match(g.test, f"bit_len % {bps} != 0") is not None or f"bit_len % {bps} != 0" in unparse(g.test) or f"x.shape[-1] % {bps} != 0" in unparse(g.test) or f"x.size(-1) % {bps} != 0" in unparse(g.test) for g in guards)
        if not okg:
            # the same test with the operands named in locals: every local is replaced by its only definition
            sdefs = {}
            for s_ in ast.walk(fi.node):
                if isinstance(s_, ast.Assign) and len(s_.targets) == 1 and isinstance(s_.targets[0], ast.Name):
                    sdefs.setdefault(s_.targets[0].id, []).append(s_.value)

            class _Res(ast.NodeTransformer):
                def visit_Name(self, nd):
                    v_ = sdefs.get(nd.id)
                    if isinstance(nd.ctx, ast.Load) and v_ is not None and len(v_) == 1 and nd.id not in fi.params:
                        import copy as _cp

                        return self.visit(_cp.deepcopy(v_[0]))
                    return nd

            for g in guards:
                import copy as _cp

                t_ = unparse(_Res().visit(_cp.deepcopy(g.test)))
                if t_ in (f"x.shape[-1] % {bps} != 0", f"x.size(-1) % {bps} != 0", f"not x.shape[-1] % {bps} == 0", f"x.shape[-1] % {bps}", f"x.shape[-1] % {bps} > 0"):
                    okg = True
        rep.expect(okg, "COUNT", fi, f"{cname}: `bit_len % {bps} != 0` raises", "no silent truncation or padding of the bit sequence", "divisibility guard not recognised")
        n += 1
    # bits_per_symbol = log2(order)
    for file, cname in ((f"{MD}/psk.py", "PSKModulator"), (f"{MD}/psk.py", "PSKDemodulator"), (f"{MD}/qam.py", "QAMModulator"), (f"{MD}/qam.py", "QAMDemodulator"), (f"{MD}/pam.py", "PAMModulator"), (f"{MD}/pam.py", "PAMDemodulator"), (f"{MD}/dpsk.py", "DPSKModulator"), (f"{MD}/dpsk.py", "DPSKDemodulator")):
        ci = repo.cls(file, cname)
        init = repo.method(ci, "__init__")
        a = [s for s in ast.walk(init.node) if isinstance(s, (ast.Assign, ast.AnnAssign)) and attr_chain(s.targets[0] if isinstance(s, ast.Assign) else s.target) == "self._bits_per_symbol" and s.value is not None]
        for s in a:
            v = s.value
            txt = unparse(v)
            if txt == "bits_per_symbol":
                rep.ok("COUNT", init, s, "given explicitly together with order = 2**bits_per_symbol", node=s, nontrivial=False)
                continue
            st, d, _ = classify(v, ["int(torch.log2(torch.tensor(order, dtype=torch.float)).item())", "int(torch.log2(torch.tensor(self.order, dtype=torch.float)).item())", "int(math.log2(order))", "order.bit_length() - 1"])
            if st != OK:
                # unlisted spelling (e.g. through a module-level helper): evaluated for every power of two up to 1024
                try:
                    bad_ = None
                    for b_ in range(1, 11):
                        fo_ = Folder({"order": 2**b_}, {"self.order": 2**b_})
                        fo_.funcs = {nm_: f_.node for nm_, f_ in init.module.functions.items()}
                        got_ = fo_.fold(v)
                        if got_ != b_:
                            bad_ = (2**b_, got_)
                            break
                    st, d = (OK, "unlisted spelling; equals log2(order) for order = 2 .. 1024") if bad_ is None else (VIOLATION, f"for order {bad_[0]} the number of bits per symbol is computed as {bad_[1]}")
                except Unfoldable:
                    pass
            rep.add("COUNT", init, f"{cname}: {unparse(s)[:90]}", st, d or "bits per symbol = log2(order)", node=s)
            n += 1
    # reference modulator built from the demodulator's own arguments
    want = {
        "QPSKDemodulator": ("psk.py", "QPSKModulator", {"normalize": ["normalize", "self.normalize"]}),
        "PSKDemodulator": ("psk.py", "PSKModulator", {"order": ["order", "self.order"], "gray_coding": ["gray_coding", "self.gray_coding"]}),
        "QAMDemodulator": ("qam.py", "QAMModulator", {"order": ["order", "self.order"], "gray_coding": ["gray_coding", "self.gray_coding"], "normalize": ["normalize", "self.normalize"]}),
        "PAMDemodulator": ("pam.py", "PAMModulator", {"order": ["order", "self.order"], "gray_coding": ["gray_coding", "self.gray_coding"], "normalize": ["normalize", "self.normalize"]}),
        "DPSKDemodulator": ("dpsk.py", "DPSKModulator", {"order": ["self.order"], "gray_coding": ["self.gray_coding"]}),
        "Pi4QPSKDemodulator": ("pi4qpsk.py", "Pi4QPSKModulator", {"gray_coded": ["gray_coded", "self.gray_coded"]}),
    }
    for cname, (fname, mname, params) in want.items():
        ci = repo.cls(f"{MD}/{fname}", cname)
        mi = repo.cls(f"{MD}/{fname}", mname)
        init = repo.method(ci, "__init__")
        minit = repo.method(mi, "__init__")
        a = [s for s in ast.walk(init.node) if isinstance(s, ast.Assign) and attr_chain(s.targets[0]) == "self.modulator"]
        n += 1
        if len(a) != 1 or not isinstance(a[0].value, ast.Call) or call_name(a[0].value) != mname:
            rep.undecided("COUNT", init, f"{cname}: self.modulator", f"{len(a)} assignments / not a direct {mname}(...) call")
            continue
        call = a[0].value
        mparams = [p for p in minit.params if p != "self"]
        bound: Dict[str, ast.AST] = {}
        for p_, a_ in zip(mparams, [x for x in call.args if not isinstance(x, ast.Starred)]):
            bound[p_] = a_
        for k in call.keywords:
            if k.arg:
                bound[k.arg] = k.value
        bad = []
        for p_, accepted in params.items():
            if p_ not in bound:
                bad.append(f"`{p_}` is not forwarded (the modulator's default is used whatever the demodulator was given)")
            elif unparse(bound[p_]) not in accepted:
                bad.append(f"`{p_}` receives `{unparse(bound[p_])}` instead of the demodulator's own `{accepted[0]}`")
        rep.check(not bad, "COUNT", init, f"{cname}: self.modulator = {unparse(call)}", "same order / labelling / normalisation as the demodulator was given", "; ".join(bad) + ": the reference tables are those of a different configuration", node=a[0])
    n += rule_alias_option(repo, rep)
    # fixed-parameter aliases forward the same constants on both sides
    dp = repo.module(f"{MD}/dpsk.py")
    for base in ("DBPSK", "DQPSK"):
        args = []
        for suffix in ("Modulator", "Demodulator"):
            ci = dp.classes.get(base + suffix)
            if ci is None:
                raise AnalysisError(f"anchor vanished: {base}{suffix}")
            init = repo.method(ci, "__init__")
            sup = [c for c in ast.walk(init.node) if isinstance(c, ast.Call) and match(c.func, "super().__init__") is not None]
            args.append([unparse(a) for a in sup[0].args[:2]] if len(sup) == 1 else None)
        n += 1
        rep.check(args[0] is not None and args[0] == args[1], "COUNT", f"{MD}/dpsk.py::{base}", f"{base}Modulator{args[0]} / {base}Demodulator{args[1]}", "modulator and demodulator fix the same (order, labelling)", "the two halves of the pair are built with different (order, labelling)")
    return n


def rule_alias_option(repo: Repo, rep: Report, rule: str = "COUNT") -> int:
    """DPSKDemodulator accepts the labelling under two names; the effective option is `gray_coded` when it is given
    (True OR False) and `gray_coding` otherwise - evaluated on all six combinations."""
    ci = repo.cls(f"{MD}/dpsk.py", "DPSKDemodulator")
    init = repo.method(ci, "__init__")
    a = [s_ for s_ in ast.walk(init.node) if isinstance(s_, ast.Assign) and attr_chain(s_.targets[0]) == "self.gray_coding"]
    if len(a) != 1:
        rep.undecided(rule, init, "DPSKDemodulator: self.gray_coding", f"{len(a)} assignments")
        return 1
    bad = None
    try:
        for gc in (None, True, False):
            for gg in (True, False):
                got = Folder({"gray_coded": gc, "gray_coding": gg}).fold(a[0].value)
                want = gc if gc is not None else gg
                if bool(got) != want or isinstance(got, list):
                    bad = (gc, gg, got, want)
                    break
            if bad:
                break
    except Unfoldable as exc:
        rep.undecided(rule, init, f"DPSKDemodulator: {unparse(a[0])}", f"not evaluable ({exc})", node=a[0])
        return 1
    if bad:
        rep.violation(rule, init, f"DPSKDemodulator: {unparse(a[0])}", f"for gray_coded={bad[0]}, gray_coding={bad[1]} the effective labelling is {bad[2]} instead of {bad[3]}: an explicit gray_coded=False is ignored and the reference modulator (constellation rotation and label table) is that of the other labelling - hard decisions and LLRs are taken against the wrong table", node=a[0])
    else:
        rep.ok(rule, init, f"DPSKDemodulator: {unparse(a[0])}", "the alias takes precedence whenever it is given (checked on the six combinations)", node=a[0])
    return 1


# ---------------------------------------------------------------------------
# MEMORY
# ---------------------------------------------------------------------------

def rule_memory(repo: Repo, rep: Report) -> int:
    n = 0
    stateful = [
        (f"{MD}/dpsk.py", "DPSKModulator", "_phase_memory"),
        (f"{MD}/oqpsk.py", "OQPSKModulator", "_delayed_quad"),
        (f"{MD}/pi4qpsk.py", "Pi4QPSKModulator", "_use_rotated"),
        (f"{MD}/pi4qpsk.py", "Pi4QPSKDemodulator", "_use_rotated"),
    ]
    for file, cname, attr in stateful:
        ci = repo.cls(file, cname)
        fwd = repo.method(ci, "forward")
        set_parents(fwd.node)
        writes = [s for s in ast.walk(fwd.node) if (isinstance(s, (ast.Assign, ast.AugAssign)) and any(attr_chain(t) == f"self.{attr}" or (isinstance(t, ast.Subscript) and attr_chain(t.value) == f"self.{attr}") for t in (s.targets if isinstance(s, ast.Assign) else [s.target])))]
        writes += [c for c in ast.walk(fwd.node) if isinstance(c, ast.Call) and isinstance(c.func, ast.Attribute) and c.func.attr.endswith("_") and not c.func.attr.startswith("__") and attr_chain(c.func.value) == f"self.{attr}"]
        for w in writes:
            guards = [a for a in ancestors(w) if isinstance(a, ast.If)]
            tr = any(unparse(g.test) == "self.training" and any(w is x for b_ in g.body for x in ast.walk(b_)) for g in guards)
            n += 1
            if tr:
                rep.ok("MEMORY", fwd, f"{cname}: {unparse(w)[:80]}", "state carried over only in training mode: evaluation-mode calls are independent", node=w)
            else:
                rep.violation("MEMORY", fwd, f"{cname}: {unparse(w)[:80]}", f"self.{attr} is written outside `if self.training`: in evaluation mode a call leaves state behind and the next round trip starts from it", node=w)
        if not writes:
            rep.undecided("MEMORY", fwd, f"{cname}: writes of self.{attr}", "none found (anchor changed)")
        # reset_state restores the constructor's initial value
        init = ci.find_method("__init__")

        def _mkf(ci=ci):
            f_ = Folder()
            f_.funcs = {f"self.{nm_}": m_.node for nm_, m_ in ci.methods.items() if nm_ not in ("forward", "__init__", "reset_state")}
            return f_
        rs = ci.methods.get("reset_state")
        ini = None
        for s in ast.walk(init.node):
            if isinstance(s, ast.Call) and attr_chain(s.func) == "self.register_buffer" and len(s.args) >= 2 and isinstance(s.args[0], ast.Constant) and s.args[0].value == attr:
                ini = s.args[1]
        n += 1
        if rs is None or ini is None:
            rep.undecided("MEMORY", ci, f"{cname}: reset_state / initial value of {attr}", "not found")
            continue
        try:
            iv = _mkf().fold(ini)
        except Unfoldable:
            iv = None
        rv = None
        for s in ast.walk(rs.node):
            if isinstance(s, ast.Assign) and attr_chain(s.targets[0]) == f"self.{attr}":
                try:
                    rv = _mkf().fold(s.value)
                except Unfoldable:
                    rv = "?"
            if isinstance(s, ast.Call) and isinstance(s.func, ast.Attribute) and s.func.attr in ("fill_", "copy_") and attr_chain(s.func.value) == f"self.{attr}" and s.args:
                try:
                    rv = _mkf().fold(s.args[0])
                except Unfoldable:
                    rv = "?"
            if isinstance(s, ast.Call) and isinstance(s.func, ast.Attribute) and s.func.attr == "zero_" and attr_chain(s.func.value) == f"self.{attr}":
                rv = 0
        if rv is None and iv is not None:
            # nothing in reset_state touches the attribute: does it reach a method of this class that does?
            own_calls = [c_ for c_ in ast.walk(rs.node) if isinstance(c_, ast.Call) and isinstance(c_.func, ast.Attribute) and ((isinstance(c_.func.value, ast.Name) and c_.func.value.id == "self") or unparse(c_.func.value) == "super()")]
            mentions = any(isinstance(a_, ast.Attribute) and attr_chain(a_) == f"self.{attr}" for a_ in ast.walk(rs.node)) or any(isinstance(c_, ast.Call) and call_name(c_) in ("setattr", "getattr") for c_ in ast.walk(rs.node))
            if not own_calls and not mentions:
                others = sorted({unparse(c_.func) for c_ in ast.walk(rs.node) if isinstance(c_, ast.Call)})
                rep.violation("MEMORY", rs, f"{cname}.reset_state never writes self.{attr}", f"forward advances self.{attr} (initial value {iv!r}) and reset_state does not restore it" + (f" (it only calls {', '.join(others)[:80]}, which acts on another object)" if others else "") + ": the alternation state survives a reset, so the next sequence starts on the wrong constellation", node=rs.node)
                continue
        if rv is None or rv == "?" or iv is None:
            rep.undecided("MEMORY", rs, f"{cname}.reset_state", f"reset value {rv!r} / initial value {iv!r} not literal")
        else:
            same = complex(rv) == complex(iv)
            rep.check(same, "MEMORY", rs, f"{cname}.reset_state sets {attr} = {rv!r}; constructor registers {iv!r}", "reset restores the initial state", f"reset_state sets {rv!r} but a fresh instance starts from {iv!r}: after a reset the round trip differs from a fresh instance")
    # memoryless schemes keep nothing between calls: no attribute of self is written by forward / its helpers
    for file, cname in ((f"{MD}/psk.py", "BPSKModulator"), (f"{MD}/psk.py", "BPSKDemodulator"), (f"{MD}/psk.py", "QPSKModulator"), (f"{MD}/psk.py", "QPSKDemodulator"), (f"{MD}/psk.py", "PSKModulator"), (f"{MD}/psk.py", "PSKDemodulator"), (f"{MD}/qam.py", "QAMModulator"), (f"{MD}/qam.py", "QAMDemodulator"), (f"{MD}/pam.py", "PAMModulator"), (f"{MD}/pam.py", "PAMDemodulator"), (f"{MD}/dpsk.py", "DPSKDemodulator"), (f"{MD}/oqpsk.py", "OQPSKDemodulator"), (f"{MD}/identity.py", "IdentityModulator"), (f"{MD}/identity.py", "IdentityDemodulator")):
        ci = repo.cls(file, cname)
        writes = []
        for mname, fi_ in ci.methods.items():
            if mname in ("__init__", "reset_state", "_create_constellation", "_create_constellations", "plot_constellation") or mname.startswith("__"):
                continue
            for s_ in ast.walk(fi_.node):
                tg = s_.targets if isinstance(s_, ast.Assign) else ([s_.target] if isinstance(s_, (ast.AugAssign, ast.AnnAssign)) else [])
                for t in tg:
                    root = t
                    while isinstance(root, ast.Subscript):
                        root = root.value
                    ch = attr_chain(root) if isinstance(root, ast.Attribute) else None
                    if ch and ch.startswith("self.") and ch.count(".") == 1:
                        writes.append((fi_, s_, ch))
        n += 1
        if writes:
            for fi_, s_, ch in writes[:3]:
                rep.violation("MEMORY", fi_, f"{cname}: {unparse(s_)[:80]}", f"a scheme without memory writes `{ch}` while processing a call: state (or a tensor handed out to the caller) is carried into later calls, so a second modulate/demodulate changes the outcome of the first round trip", node=s_)
        else:
            rep.ok("MEMORY", ci, f"{cname}: no attribute of self is written outside the constructor", "every call is independent", nontrivial=False)
    # DPSK detection orientation
    dd = repo.method(repo.cls(f"{MD}/dpsk.py", "DPSKDemodulator"), "forward")
    a = {s.targets[0].id: s for s in ast.walk(dd.node) if isinstance(s, ast.Assign) and isinstance(s.targets[0], ast.Name) and s.targets[0].id in ("y_prev", "y_current", "z")}
    ok1 = "y_prev" in a and match(a["y_prev"].value, "y[..., :-1]") is not None
    ok2 = "y_current" in a and match(a["y_current"].value, "y[..., 1:]") is not None
    zs = sorted([s for s in ast.walk(dd.node) if isinstance(s, ast.Assign) and isinstance(s.targets[0], ast.Name) and s.targets[0].id == "z"], key=lambda s: s.lineno)
    if ok1 and ok2 and zs:
        from .c10 import form as _form

        _form(rep, "MEMORY", dd, zs[0].value, ["y_current * torch.conj(y_prev)", "y_current * y_prev.conj()"], "DPSK detection: phase step = current symbol times conjugate of the previous one", "the detector must remove the previous symbol's phase", num=([{"y_current": complex(0.6, 0.8), "y_prev": complex(0.0, 1.0)}, {"y_current": complex(-1.0, 0.0), "y_prev": complex(0.6, -0.8)}], lambda p: p["y_current"] * p["y_prev"].conjugate()))
    else:
        st_, d_ = dpsk_detection_evaluated(dd)
        rep.add("MEMORY", dd, "DPSK detection: index of the phase step between consecutive symbols", st_, d_ if st_ != UNDECIDED else f"slices y[1:] * conj(y[:-1]) not recognised and {d_}", node=dd.node)
    n += 1
    # DPSK differential encoding
    dm = repo.method(repo.cls(f"{MD}/dpsk.py", "DPSKModulator"), "forward")
    st0 = [s for s in ast.walk(dm.node) if isinstance(s, ast.Assign) and unparse(s.targets[0]) == "output[..., 0]"]
    sti = [s for s in ast.walk(dm.node) if isinstance(s, ast.Assign) and unparse(s.targets[0]) == "output[..., i]"]
    dst_, dd_ = dpsk_modulator_evaluated(repo)
    if dst_ is not None:
        rep.add("MEMORY", dm, "DPSK modulator forward evaluated: one row and a batch, training and evaluation mode, two orders", dst_, dd_, node=dm.node)
    elif len(st0) == 1 and len(sti) == 1:
        s1, d1, _ = classify(st0[0].value, ["ref_phase.squeeze(-1) * phase_shifts[..., 0]"])
        s2, d2, _ = classify(sti[0].value, ["output[..., i - 1] * phase_shifts[..., i]"])
        rep.add("MEMORY", dm, f"DPSK encoding: {unparse(st0[0])}", s1, d1 if s1 != OK else "first symbol = reference * first phase step", node=st0[0])
        rep.add("MEMORY", dm, f"DPSK encoding: {unparse(sti[0])}", s2, d2 if s2 != OK else "y[i] = y[i-1] * shift[i]", node=sti[0])
    else:
        rep.undecided("MEMORY", dm, "DPSK differential encoding", "stores into output[..., 0] / output[..., i] not recognised")
    n += 2
    # OQPSK: only the quadrature rail is delayed, by exactly one symbol
    om = repo.method(repo.cls(f"{MD}/oqpsk.py", "OQPSKModulator"), "forward")
    dq = [s for s in ast.walk(om.node) if isinstance(s, ast.Assign) and isinstance(s.targets[0], ast.Name) and s.targets[0].id == "delayed_quad"]
    ost_, od_ = oqpsk_modulator_evaluated(repo)
    if ost_ is not None:
        rep.add("MEMORY", om, "OQPSK modulator forward evaluated: one row and a batch, training and evaluation mode", ost_, od_, node=om.node)
        n += 2
    elif len(dq) == 1:
        st, d, _ = classify(dq[0].value, ["torch.cat([prev_quad.unsqueeze(-1), quad[..., :-1]], dim=-1)"])
        rep.add("MEMORY", om, f"OQPSK: {unparse(dq[0])[:90]}", st, d if st != OK else "quadrature stream delayed by one symbol, carried value first", node=dq[0])
    else:
        rep.undecided("MEMORY", om, "OQPSK delayed_quad", "not found")
    rets = [s for s in ast.walk(om.node) if isinstance(s, ast.Return)]
    if ost_ is not None:
        pass
    elif len(rets) == 1:
        st, d, _ = classify(rets[0].value, ["torch.complex(in_phase, delayed_quad)"])
        rep.add("MEMORY", om, f"OQPSK: {unparse(rets[0])}", st, d if st != OK else "in-phase rail undelayed, quadrature rail delayed", node=rets[0])
    else:
        rep.undecided("MEMORY", om, "OQPSK return", "not unique")
    n += 2 if ost_ is None else 0
    # pi/4-QPSK: both sides select the constellation by the same toggling flag
    for cname in ("Pi4QPSKModulator", "Pi4QPSKDemodulator"):
        ci = repo.cls(f"{MD}/pi4qpsk.py", cname)
        fwd = repo.method(ci, "forward")
        pst_, pd_ = pi4_forward_evaluated(repo, cname)
        if pst_ is not None:
            rep.add("MEMORY", fwd, f"{cname}: forward evaluated from both states, training / evaluation mode, rows of 3, 4, 5 symbols", pst_, pd_, node=fwd.node)
            n += 3
            continue
        n += pi4_state_machine(rep, fwd, cname)
        set_parents(fwd.node)
        inits = [s for s in ast.walk(fwd.node) if isinstance(s, ast.Assign) and isinstance(s.targets[0], ast.Name) and s.targets[0].id == "use_rotated" and match(s.value, "self._use_rotated.clone()") is not None]
        toggles = [s for s in ast.walk(fwd.node) if isinstance(s, ast.Assign) and isinstance(s.targets[0], ast.Name) and s.targets[0].id == "use_rotated" and match(s.value, "~use_rotated") is not None]
        in_loop = all(any(isinstance(a, ast.For) for a in ancestors(t)) and not any(isinstance(a, ast.If) for a in ancestors(t) if any(isinstance(b_, ast.For) for b_ in ancestors(a))) for t in toggles)
        rep.expect(bool(inits) and bool(toggles) and in_loop, "MEMORY", fwd, f"{cname}: use_rotated starts from the state flag and toggles once per symbol", "alternation is unconditional", "alternation shape not recognised")
        sel_rot = [i for i in ast.walk(fwd.node) if isinstance(i, (ast.If, ast.IfExp)) and unparse(i.test) == "use_rotated"]
        okpol = True
        for i in sel_rot:
            body_txt = unparse(i.body if isinstance(i, ast.IfExp) else ast.Module(body=i.body, type_ignores=[]))
            else_txt = unparse(i.orelse if isinstance(i, ast.IfExp) else ast.Module(body=i.orelse, type_ignores=[]))
            if "qpsk_rotated" not in body_txt or "qpsk_rotated" in else_txt:
                okpol = False
                rep.violation("MEMORY", fwd, f"{cname}: {unparse(i)[:80]}", "the rotated constellation is selected when the flag is False: modulator and demodulator disagree on which constellation a symbol position uses", node=i)
        if okpol:
            rep.expect(bool(sel_rot), "MEMORY", fwd, f"{cname}: rotated constellation iff use_rotated ({len(sel_rot)} site(s))", "same selection on both sides", "selection site not found")
        n += 2
    return n


# ---------------------------------------------------------------------------
# OUTPUT kind
# ---------------------------------------------------------------------------

def rule_output(repo: Repo, rep: Report) -> int:
    n = 0
    specs = [
        (f"{MD}/psk.py", "BPSKDemodulator", "forward"), (f"{MD}/psk.py", "QPSKDemodulator", "forward"), (f"{MD}/psk.py", "PSKDemodulator", "forward"), (f"{MD}/qam.py", "QAMDemodulator", "forward"),
        (f"{MD}/pam.py", "PAMDemodulator", "_hard_decision"), (f"{MD}/dpsk.py", "DPSKDemodulator", "forward"), (f"{MD}/oqpsk.py", "OQPSKDemodulator", "forward"), (f"{MD}/pi4qpsk.py", "Pi4QPSKDemodulator", "forward"),
    ]
    for file, cname, meth in specs:
        ci = repo.cls(file, cname)
        fi = repo.method(ci, meth)
        set_parents(fi.node)
        from ..astutil import Inliner

        inl = Inliner(fi, allow_loop_defs=True)

        def hard(ret: ast.AST) -> Optional[bool]:
            """Is this return reachable with noise_var None and soft_output False?"""
            HARD = {"noise_var is None": True, "noise_var is not None": False, "self.soft_output": False, "not self.soft_output": True}
            for a in ancestors(ret):
                if isinstance(a, ast.If):
                    in_body = any(ret is x for b_ in a.body for x in ast.walk(b_))
                    t = tv_eval(a.test, HARD)
                    if t is not None and t != in_body:
                        return False
            # an earlier sibling `if <hard condition>: ... return` (early-return style) ends the hard path before this statement

            def always_leaves(block):
                return bool(block) and (isinstance(block[-1], (ast.Return, ast.Raise)) or (isinstance(block[-1], ast.If) and block[-1].orelse and always_leaves(block[-1].body) and always_leaves(block[-1].orelse)))

            chain = [ret] + list(ancestors(ret))
            for child, parent in zip(chain, chain[1:]):
                for fld in ("body", "orelse", "finalbody"):
                    blk = getattr(parent, fld, None)
                    if isinstance(blk, list) and any(child is x for x in blk):
                        for sib in blk[: next(i for i, x in enumerate(blk) if x is child)]:
                            if isinstance(sib, ast.If):
                                t = tv_eval(sib.test, HARD)
                                if (t is True and always_leaves(sib.body)) or (t is False and always_leaves(sib.orelse)):
                                    return False
                if parent is fi.node:
                    break
            return True

        # flow-insensitive kinds of the local names: 'bits' (label rows / sign tests) or 'indices' (argmin results)
        ndefs: Dict[str, List[ast.AST]] = {}
        for s_ in ast.walk(fi.node):
            if isinstance(s_, ast.Assign) and hard(s_):
                for t in s_.targets:
                    root_t = t
                    while isinstance(root_t, ast.Subscript):
                        root_t = root_t.value
                    if isinstance(root_t, ast.Name):
                        ndefs.setdefault(root_t.id, []).append(s_.value)
                    elif isinstance(root_t, ast.Tuple):
                        for e in root_t.elts:
                            if isinstance(e, ast.Name):
                                ndefs.setdefault(e.id, []).append(s_.value)

        def expr_kinds(e: ast.AST, nk: Dict[str, set]) -> set:
            out = set()
            txt_ = unparse(e)
            if "bit_patterns" in txt_:
                out.add("bits")
            for x in ast.walk(e):
                if isinstance(x, ast.Compare) and len(x.ops) == 1 and isinstance(x.ops[0], (ast.Lt, ast.Gt, ast.LtE, ast.GtE)) and isinstance(x.comparators[0], ast.Constant) and x.comparators[0].value == 0:
                    out.add("bits")
                if isinstance(x, ast.Call) and (call_name(x) or "").split(".")[-1] in ("argmin", "argmax"):
                    out.add("indices")
                if isinstance(x, ast.Call) and (attr_chain(x.func) or "").startswith("self.") and (attr_chain(x.func) or "").count(".") == 1:
                    # a helper method of the class: what it returns is judged from its own body
                    h_ = ci.find_method(attr_chain(x.func)[5:])
                    if h_ is not None and "bit_patterns" in unparse(h_.node):
                        out.add("bits")
                    elif h_ is not None and any(isinstance(c_, ast.Call) and (call_name(c_) or unparse(c_.func)).split(".")[-1] in ("argmin", "argmax") for c_ in ast.walk(h_.node)):
                        out.add("indices")  # the helper returns positions of nearest points, never label bits
                    elif h_ is not None:
                        out.add("helper")
                if isinstance(x, ast.Name) and x.id in nk:
                    out |= nk[x.id]
            return out

        nk: Dict[str, set] = {k: set() for k in ndefs}
        chg = True
        while chg:
            chg = False
            for k, vals in ndefs.items():
                for v_ in vals:
                    o = expr_kinds(v_, nk)
                    if not o <= nk[k]:
                        nk[k] |= o
                        chg = True

        rets = [r for r in walk_no_nested(fi.node) if isinstance(r, ast.Return) and r.value is not None and hard(r)]
        for r in rets:
            # earlier unconditional hard returns shadow later ones
            v = r.value
            txt = unparse(inl.inline(v))
            root = v
            while isinstance(root, ast.Call) and isinstance(root.func, ast.Attribute) and root.func.attr in ("reshape", "float", "view", "squeeze", "to"):
                root = root.func.value
            kind = None
            ks = expr_kinds(v, nk)
            if "bits" in ks:
                kind = "bits"
            elif ks == {"indices"}:
                kind = "indices"
            if kind is None and isinstance(root, ast.Name):
                defs = [s for s in ast.walk(fi.node) if isinstance(s, ast.Assign) and any(isinstance(t, ast.Name) and t.id == root.id for t in s.targets)]
                stores = [s for s in ast.walk(fi.node) if isinstance(s, ast.Assign) and any(isinstance(t, ast.Subscript) and isinstance(t.value, ast.Name) and t.value.id == root.id for t in s.targets)]
                srcs = " ; ".join(unparse(s.value) for s in defs + stores)
                if "bit_patterns" in srcs or "bit_pattern" in srcs or "< 0" in srcs:
                    kind = "bits"
                elif "argmin" in srcs and "bit_pattern" not in srcs:
                    kind = "indices"
                elif root.id in ("result",):
                    kind = "bits" if "bits" in srcs else None
            if kind is None:
                if "bit_patterns" in txt or "< 0" in txt or "bits_real" in txt:
                    kind = "bits"
                elif "argmin" in txt and "bit_patterns" not in txt:
                    kind = "indices"
                elif any(hard(r2) for r2 in rets if r2 is not r) and ("llr" in txt.lower() or "min_dist" in txt or "noise_var" in txt):
                    continue  # the soft branch reached through an undecidable condition
            n += 1
            if kind == "bits":
                rep.ok("OUTPUT", fi, f"{cname}: return {unparse(v)[:70]}", "hard decisions are label bits", node=r)
            elif kind == "indices":
                # keyed by what is wrong, not by how the return is spelt: a refactoring of the same return is the same finding
                rep.violation("OUTPUT", fi, f"{cname}: hard decisions returned as nearest-point indices", f"`return {unparse(v)[:70]}`: the hard branch returns nearest-point indices, not the bit sequence: for this input layout demodulate(modulate(bits)) is not bits", node=r)
            else:
                rep.undecided("OUTPUT", fi, f"{cname}: return {unparse(v)[:70]}", "kind of the returned value not recognised", node=r)
    # identity pair
    for cname, meths in (("IdentityModulator", ("forward", "modulate")), ("IdentityDemodulator", ("forward", "demodulate"))):
        ci = repo.cls(f"{MD}/identity.py", cname)
        f0 = repo.method(ci, meths[0])
        f1 = repo.method(ci, meths[1])
        r0 = [r for r in ast.walk(f0.node) if isinstance(r, ast.Return)]
        r1 = [r for r in ast.walk(f1.node) if isinstance(r, ast.Return)]
        p1 = [p for p in f1.params if p != "self"]
        ok0 = any(match(r.value, f"self.{meths[1]}(_X)") is not None and isinstance(match(r.value, f"self.{meths[1]}(_X)")["_X"], ast.Name) for r in r0)
        ok1 = len(r1) == 1 and isinstance(r1[0].value, ast.Name) and p1 and r1[0].value.id == p1[0]
        rep.shape(bool(ok0 and ok1), len(r1) == 1 and isinstance(r1[0].value, (ast.BinOp, ast.Call, ast.UnaryOp)), "OUTPUT", f1, f"{cname}: forward -> {meths[1]} -> return {unparse(r1[0].value) if r1 else '?'}", "the identity pair returns its input unchanged", "the identity scheme alters its input")
        n += 1
    return n


# ---------------------------------------------------------------------------
# VALUE-KEYED input reinterpretation
# ---------------------------------------------------------------------------

def rule_value_keyed(repo: Repo, rep: Report) -> int:
    n = 0
    specs = [(f"{MD}/psk.py", "PSKModulator", [2, 3]), (f"{MD}/dpsk.py", "DPSKModulator", [2, 3]), (f"{MD}/pi4qpsk.py", "Pi4QPSKModulator", [2]), (f"{MD}/psk.py", "QPSKModulator", [2]), (f"{MD}/qam.py", "QAMModulator", [2, 4]), (f"{MD}/pam.py", "PAMModulator", [1, 2]), (f"{MD}/oqpsk.py", "OQPSKModulator", [2])]
    for file, cname, bs in specs:
        ci = repo.cls(file, cname)
        fi = repo.method(ci, "forward")
        set_parents(fi.node)
        # statements that read the argument itself as indices: `<name> = x.long()` / `x.to(torch.long)` used as a table index
        reint = [s for s in ast.walk(fi.node) if isinstance(s, ast.Assign) and (match(s.value, "x.long()") is not None or match(s.value, "x.to(torch.long)") is not None or match(s.value, "x.int()") is not None)]
        reint += [s for s in ast.walk(fi.node) if isinstance(s, ast.Return) and s.value is not None and "x.long()" in unparse(s.value) and "constellation" in unparse(s.value)]
        if not reint:
            rep.ok("VALUE-KEYED", fi, f"{cname}: no path reads the argument as symbol indices", "bits are the only reading", nontrivial=False)
            continue
        for s in reint:
            n += 1
            witness = None
            undec = None
            for b in bs:
                for groups in (1, 2):
                    for shape in ("1d", "2d"):
                        for bits in itertools.product((0, 1), repeat=b * groups):
                            x = list(bits) if shape == "1d" else [list(bits)]
                            r = reaches(fi, s, x, b)
                            if r is True and witness is None:
                                witness = (x, b)
                            elif r is None and undec is None:
                                undec = (x, b)
                        if witness:
                            break
                    if witness:
                        break
                if witness:
                    break
            if witness is not None:
                x, b = witness
                rep.violation("VALUE-KEYED", fi, f"{cname}: a valid bit input is re-read as symbol indices", f"`{unparse(s)[:70]}`: the valid bit input {x} ({b} bit(s) per symbol) is re-read as symbol indices because of its values / size: it is sent as {len(x) if not isinstance(x[0], list) else len(x[0])} symbols instead of {(len(x) if not isinstance(x[0], list) else len(x[0])) // b}, and the round trip cannot return the bits", node=s)
            elif undec is not None:
                rep.undecided("VALUE-KEYED", fi, f"{cname}: {unparse(s)[:70]}", f"guard not evaluable for input {undec[0]}", node=s)
            else:
                rep.ok("VALUE-KEYED", fi, f"{cname}: {unparse(s)[:70]}", "no valid bit input (all groups of 1-2 symbols, 1-D and batched) reaches the index reading", node=s)
    return n


def reaches(fi: FuncInfo, stmt: ast.stmt, x, b: int) -> Optional[bool]:
    """Does the concrete bit input x reach `stmt`?  Evaluates the guards on the path with literal arithmetic."""
    path = []
    cur = stmt
    for a in ancestors(stmt):
        if isinstance(a, ast.If):
            in_body = any(cur is y for b_ in a.body for y in ast.walk(b_))
            path.append((a, in_body))
        if a is fi.node:
            break
    # straight-line prefix: evaluate assignments before each guard at function level
    env_names = {"x": x}
    attrs = {"self._bits_per_symbol": b, "self.order": 2**b}
    try:
        # run the function body up to the statement, following the decided branches
        def run(body) -> Optional[bool]:
            for st in body:
                if st is stmt:
                    return True
                if isinstance(st, ast.If):
                    holds = any(stmt is y for y in ast.walk(st))
                    try:
                        t = Folder(env_names, attrs).fold(st.test)
                    except Unfoldable:
                        if holds:
                            raise
                        for t_ in targets_of(st):
                            env_names.pop(t_, None)
                        continue
                    if isinstance(t, list):
                        t = len(t) > 0
                    r = run(st.body if t else st.orelse)
                    if r is not None:
                        return r
                    if holds:
                        return False  # the statement lives in the branch not taken
                    continue
                if any(st is y for y in ast.walk(fi.node)) and any(stmt is y for y in ast.walk(st)):
                    # a loop / with containing the statement: not expected
                    raise Unfoldable("statement nested in a loop")
                if isinstance(st, ast.Raise):
                    return False
                if isinstance(st, ast.Return):
                    return False
                if isinstance(st, ast.Assign):
                    try:
                        e = run_fragment([st], env_names, attrs)
                        for k, v in e.items():
                            if k not in ("__attrs__",):
                                env_names[k] = v
                    except Unfoldable:
                        for t_ in targets_of(st):
                            env_names.pop(t_, None)
                elif isinstance(st, (ast.Expr, ast.Pass)):
                    continue
                else:
                    # loops etc. after which the statement may still follow: drop what they define
                    for t_ in targets_of(st):
                        env_names.pop(t_, None)
            return None

        r = run(fi.body)
        return bool(r) if r is not None else False
    except (Unfoldable, FragRaise):
        return None
    except FragReturn:
        return False


#: the repository under analysis, for rules that are handed only class / function records
REPO_REF: list = []


def run(repo: Repo, rep: Report, tier: str) -> None:
    REPO_REF[:] = [repo]
    if tier == "thorough":
        from .c15 import tabulate_demodulators

        tabulate_demodulators(repo, rep, "LABEL", "hard")
        for f_, c_ in ((f"{MD}/qam.py", "QAMModulator"), (f"{MD}/pam.py", "PAMModulator")):
            ci_ = repo.cls(f_, c_)
            fw_ = repo.method(ci_, "forward")
            st_, d_ = search_tabulated(ci_, fw_)
            if st_ is not None:
                rep.add("LABEL", fw_, f"{c_}: bit group -> point tabulated over all groups with a permuted label table (thorough tier)", st_, d_, node=fw_.node)
    mods = registered(repo, "register_modulator")
    dems = registered(repo, "register_demodulator")
    rep.floor("registered modulators", len(mods), 11)
    rep.floor("registered demodulators", len(dems), 11)
    n = rule_label(repo, rep)
    n += rule_sign(repo, rep)
    n += rule_bit_dtype(repo, rep)
    n += rule_oqpsk_interleave(repo, rep)
    n += rule_count(repo, rep)
    n += rule_memory(repo, rep)
    n += rule_output(repo, rep)
    n += rule_value_keyed(repo, rep)
    # memoised per-call helpers (alternation masks, label subsets) must be keyed by the state they depend on
    from .c20 import rule_cache_key

    n += rule_cache_key(repo, rep, mods + dems)
    rep.floor("C05 rule instances", n, 80)
    rep.decided_clauses += [
        "label agreement: modulator and demodulator go through the same point table and label table by the same index (search idiom), or through the inverse label map (PSK), or by the natural-binary integer with a natural-binary table; the bit-group -> integer kernel is MSB first for all 2^b groups",
        "sign schemes: amplitude convention and decision test compose to the identity",
        "symbol count: grouping by bits_per_symbol = log2(order) behind a divisibility error; reference modulator built with the demodulator's own parameters; fixed-parameter aliases agree",
        "memory: state written only in training mode, reset_state restores the initial value, DPSK encoding/detection orientation, OQPSK delays only the quadrature rail by one symbol, pi/4-QPSK alternation identical on both sides",
        "hard branches return label bits for every layout; the identity pair returns its input",
        "no valid bit input is re-read as symbol indices because of its values or size",
    ]
    rep.undecided_clauses += ["nearest-point arithmetic itself (C06)", "bijectivity / Gray structure of the tables (C14)", "start-up loss bookkeeping as values", "behaviour for non-binary inputs"]
