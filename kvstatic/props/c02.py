"""C02 - hard-decision decoders: structural conditions for 'corrects <= t errors' / 'complete decoders are ML'."""
from __future__ import annotations

import ast
from typing import Dict, List, Optional

from ..astutil import Inliner, ancestors, attr_chain, call_name, match, returns_of, set_parents, stmts_of, statement_texts
from ..closedform import classify
from ..core import OK, UNDECIDED, VIOLATION, AnalysisError, ClassInfo, FuncInfo, Repo, Report, unparse
from ..fecrules import ENC
from ..speciallint import lint_value_keyed, tainted_names

EXPLANATION = (
    "Structural necessary conditions, decided on the syntax tree. SPECIAL-CASE: no decoder forward / decode_block closure (syndrome lookup, brute-force ML, Berlekamp-Massey, "
    "Reed-Muller) and no encoder inverse (Hamming, Reed-Muller) compares the syndrome, the received length, the field size or the batch row index with a literal, and the batch loop "
    "index flows only into subscripts. COSET-LEADER: the syndrome table is built by ascending weight range(1, n+1) over exhaustive patterns of each weight (start positions "
    "range(start, n - ones_left + 1)) with first-come insertion (`not in table`), so every leader has minimum weight in its coset; forward XORs the looked-up pattern and extracts "
    "the message with the encoder's own extract_message. ML: the brute-force codebook enumerates range(2**k) messages, each encoded by the encoder itself; the decision is the "
    "argmin of a Hamming count (!= then sum) over the whole codebook and the message is taken at the same index. BM: t comes from the encoder ((delta-1)//2), syndromes are evaluated "
    "at alpha^i for i in range(1, 2t+1), the Chien search covers range(n) with x = alpha^(n-j), exactly the located positions are flipped (1 - bit), the LFSR synthesis loop has "
    "its discrepancy / connection-polynomial update shape. HAMMING: the flipped position is the index of the check-matrix column equal to the syndrome. That these algorithms "
    "actually correct all patterns of weight <= t is algorithmic behaviour over field values and is NOT decided (the Reed-Muller majority decoder is a self-declared simplification)."
)

DEC = "kaira/models/fec/decoders"
SL = f"{DEC}/syndrome_lookup.py"
ML = f"{DEC}/brute_force_ml.py"
BM = f"{DEC}/berlekamp_massey.py"
RMD = f"{DEC}/reed_muller_decoder.py"
HAM = f"{ENC}/hamming_code.py"
RME = f"{ENC}/reed_muller_code.py"
BCH = f"{ENC}/bch_code.py"


#: names of model tables (as opposed to batches of inputs): a loop over their rows is not a loop over the batch
TABLE_LIKE = {"points", "constellation", "patterns", "bit_patterns", "codebook", "codewords", "cws", "table", "levels", "syndromes", "generator_matrix", "check_matrix", "H", "G", "msgs", "messages"}


def batch_index_taint(rep: Report, fi: FuncInfo) -> int:
    """C20.2 / C02.1: the index of a loop over the batch may flow only into subscripts."""
    set_parents(fi.node)
    n = 0
    for lp in [x for x in ast.walk(fi.node) if isinstance(x, ast.For)]:
        it = unparse(lp.iter)
        if not (it.startswith("range(batch_size") or it.startswith("range(B)") or "shape[0]" in it or "size(0)" in it):
            continue
        if not isinstance(lp.target, ast.Name):
            continue
        # a loop over the ROWS of the batch: range(n) / range(0, n); a stepped range walks through chunks (of a table or
        # of the batch) and its index legitimately enters offsets; the extent of a table of the model is not a batch either
        if isinstance(lp.iter, ast.Call) and (len(lp.iter.args) == 3 or (len(lp.iter.args) == 2 and not (isinstance(lp.iter.args[0], ast.Constant) and lp.iter.args[0].value == 0))):
            continue
        ext_ = lp.iter.args[-1] if isinstance(lp.iter, ast.Call) and lp.iter.args else None
        owner_ = ext_
        while isinstance(owner_, (ast.Subscript, ast.Call, ast.Attribute)) and not (isinstance(owner_, ast.Attribute) and isinstance(owner_.value, ast.Name) and owner_.attr not in ("shape", "size")):
            owner_ = owner_.value if isinstance(owner_, (ast.Subscript, ast.Attribute)) else owner_.func
        otxt_ = unparse(owner_) if owner_ is not None else ""
        if otxt_.startswith("self.") or otxt_.split(".")[0] in TABLE_LIKE:
            continue
        iv = lp.target.id
        n += 1
        bad = None
        for x in ast.walk(lp):
            if isinstance(x, ast.Name) and x.id == iv and isinstance(x.ctx, ast.Load):
                p = getattr(x, "_parent", None)
                # allowed: direct subscript index (possibly inside a tuple index)
                q = p
                ok = False
                while q is not None and isinstance(q, (ast.Tuple, ast.Slice)):
                    q = getattr(q, "_parent", None)
                if isinstance(q, ast.Subscript) and any(x is y for y in ast.walk(q.slice)):
                    ok = True
                if not ok:
                    bad = p
                    break
        if bad is None:
            rep.ok("ROW-INDEX", fi, f"for {iv} in {it}: the row index is used only as a subscript", "every batch row is processed by the same code, independent of its position")
        else:
            rep.violation("ROW-INDEX", fi, f"for {iv} in {it}: `{unparse(bad)[:100]}`", f"the batch row index `{iv}` reaches a computation or a branch condition: the result for a word depends on its position in the batch", node=bad)
    return n


def lint_search_early_exit(rep: Report, fi: FuncInfo) -> int:
    """A complete (nearest-codeword) search may stop early only when nothing better can follow: at distance 0, or within
    the unique-decoding radius t = (d - 1) // 2.  A `break` under `best < d` (or `<= d - 1`) stops on a codeword at distance
    up to d - 1 although the transmitted one, at distance <= t, may still lie ahead: the decision then depends on the
    enumeration order and is not the nearest codeword."""
    n = 0
    set_parents(fi.node)
    for br in [x for x in ast.walk(fi.node) if isinstance(x, ast.Break)]:
        guards = [a for a in ancestors(br) if isinstance(a, ast.If)]
        loops = [a for a in ancestors(br) if isinstance(a, (ast.For, ast.While))]
        if not guards or not loops:
            continue
        test = guards[0].test
        cmps = [c for c in ast.walk(test) if isinstance(c, ast.Compare) and len(c.ops) == 1]
        dist = [c for c in cmps if "distance" in unparse(c.comparators[0]) or "distance" in unparse(c.left)]
        n += 1
        construct = f"{fi.qualname if hasattr(fi, 'qualname') else fi.name}: early exit of the search under `{unparse(test)[:90]}`"
        zero = [c for c in cmps if isinstance(c.ops[0], ast.Eq) and unparse(c.comparators[0]) in ("0", "0.0")]
        if dist:
            c = dist[0]
            rhs = unparse(c.comparators[0])
            wrong = (isinstance(c.ops[0], ast.Lt) and rhs in ("self.minimum_distance", "self.encoder.minimum_distance")) or (isinstance(c.ops[0], ast.LtE) and rhs in ("self.minimum_distance - 1", "self.encoder.minimum_distance - 1"))
            right = (isinstance(c.ops[0], ast.LtE) and rhs.replace(" ", "") in ("(self.minimum_distance-1)//2", "(self.encoder.minimum_distance-1)//2"))
            rep.shape(right, wrong, "SPECIAL-CASE", fi, construct, "the search stops only within the unique-decoding radius (d - 1) // 2", "the search stops as soon as a codeword closer than the minimum distance d is found: such a codeword is unique only within t = (d - 1) // 2, so a codeword at distance t+1 .. d-1 met first is returned although the transmitted one (at distance <= t) has not been examined yet - the decision is not the nearest codeword and depends on the enumeration order", node=br)
        elif zero:
            rep.ok("SPECIAL-CASE", fi, construct, "stops at an exact match (distance 0 cannot be improved)", node=br, nontrivial=False)
        else:
            rep.ok("SPECIAL-CASE", fi, construct, "the exit does not depend on a distance bound (not judged)", node=br, nontrivial=False)
    return n


def rule_special_cases(repo: Repo, rep: Report) -> int:
    n = 0
    targets = [
        (SL, "SyndromeLookupDecoder", ["forward", "_build_syndrome_table", "_generate_error_patterns", "_syndrome_to_int"]),
        (ML, "BruteForceMLDecoder", ["forward", "_decode_batch", "_generate_codebook", "_hamming_distance"]),
        (BM, "BerlekampMasseyDecoder", ["forward", "berlekamp_massey_algorithm", "_find_error_locations"]),
        (RMD, "ReedMullerDecoder", ["forward"]),
        (HAM, "HammingCodeEncoder", ["inverse_encode", "_syndrome_to_error_position"]),
        (RME, "ReedMullerCodeEncoder", ["inverse_encode"]),
    ]
    for file, cname, methods in targets:
        ci = repo.cls(file, cname)
        for m in methods:
            fi = repo.method(ci, m)
            extra = ["self.field.m", "self.code_length", "self.field.size"] if cname == "BerlekampMasseyDecoder" else []
            lint_value_keyed(rep, fi, rule="SPECIAL-CASE", allowed_literals={0, 1, -1, 2}, extra_sources=extra)
            n += 1
            n += batch_index_taint(rep, fi)
            # a search carried out slab by slab must offset the slab-local position of its minimum
            from ..speciallint import lint_chunk_local_index

            n += lint_chunk_local_index(rep, fi, "SPECIAL-CASE")
            n += lint_search_early_exit(rep, fi)
    return n


def syndrome_table_evaluated(ci, fi: FuncInfo):
    """_build_syndrome_table run (own arithmetic) for a (6,3) code of distance 3 and the (7,4) Hamming code, with the encoder's
    syndrome and the pattern generator supplied by the checker (all patterns of a weight, in lexicographic order): the
    table must hold every one of the 2^r syndromes, each with an error pattern of that syndrome and of minimum weight."""
    import itertools

    from ..constfold import PySeq, Unfoldable
    from ..frag import FragRaise, FragReturn, run_fragment

    codes = [
        [[1, 1, 0, 1, 0, 0], [0, 1, 1, 0, 1, 0], [1, 0, 1, 0, 0, 1]],
        [[1, 1, 0, 1, 1, 0, 0], [1, 0, 1, 1, 0, 1, 0], [0, 1, 1, 1, 0, 0, 1]],
        [[1, 1, 1, 0], [1, 0, 0, 1]],
    ]
    funcs = {f"self.{nm}": f_.node for nm, f_ in ci.methods.items() if nm in ("_syndrome_to_int",)}
    count = 0
    for H in codes:
        r_, nn = len(H), len(H[0])

        def syn(e, H=H):
            e = e[0] if e and isinstance(e[0], list) else e
            return [sum(H[i][j] * int(e[j]) for j in range(len(e))) % 2 for i in range(len(H))]

        def patterns(w, nn=nn):
            return [[1 if j in c else 0 for j in range(nn)] for c in itertools.combinations(range(nn), int(w))]

        attrs = {"self.code_length": nn, "self.redundancy": r_, "self.code_dimension": nn - r_}
        try:
            run_fragment(fi.body, {}, attrs, funcs=funcs, ctors={"self.encoder.calculate_syndrome": syn, "self._generate_error_patterns": patterns}, materialise=True, max_steps=400000)
            return None, "no value returned"
        except FragReturn as ret:
            tab = ret.value
        except (Unfoldable, FragRaise, TypeError, IndexError, ValueError) as exc:
            return None, str(exc)
        if not isinstance(tab, dict):
            return None, "result is not a dictionary"
        # the integer key of a syndrome is the decoder's own convention: it is taken from the decoder's own conversion
        from ..constfold import Folder

        def key_of(sbits):
            f_ = Folder({"__s": [float(b) for b in sbits]}, attrs)
            f_.funcs = funcs
            return f_.fold(ast.parse("self._syndrome_to_int(__s)", mode="eval").body)

        # reference: minimum weight per syndrome
        best: Dict[tuple, int] = {}
        for w in range(nn + 1):
            for e in patterns(w):
                best.setdefault(tuple(syn(e)), w)
        try:
            keys = {key_of(sb): sb for sb in best}
        except Unfoldable as exc:
            return None, f"syndrome -> key conversion not evaluable ({exc})"
        if len(keys) != len(best):
            return VIOLATION, f"({nn},{nn - r_}) code: the syndrome -> integer conversion maps two syndromes to one key"
        if sorted(tab) != sorted(keys):
            return VIOLATION, f"({nn},{nn - r_}) code: the table has the keys {sorted(tab)}; all {2 ** r_} syndromes (keys {sorted(keys)}) must have a coset leader"
        for k_, e in tab.items():
            if not (isinstance(e, list) and len(e) == nn and all(x in (0, 1, 0.0, 1.0) for x in e)):
                return None, "a table entry is not a 0/1 pattern"
            sb = tuple(syn(e))
            if keys[k_] != sb:
                return VIOLATION, f"({nn},{nn - r_}) code: the pattern {[int(x) for x in e]} stored under the key of syndrome {list(keys[k_])} has syndrome {list(sb)}"
            if sum(int(x) for x in e) != best[sb]:
                return VIOLATION, f"({nn},{nn - r_}) code: syndrome {list(sb)} is given the leader {[int(x) for x in e]} of weight {sum(int(x) for x in e)}; its coset contains a pattern of weight {best[sb]}: the decoder does not return the nearest codeword (not maximum likelihood on the BSC)"
            count += 1
    return OK, f"every syndrome has a coset leader of minimum weight ({count} cosets of three small codes; patterns supplied in ascending weight)"


def rule_syndrome_table(repo: Repo, rep: Report) -> int:
    ci = repo.cls(SL, "SyndromeLookupDecoder")
    fi = repo.method(ci, "_build_syndrome_table")
    n = 0
    loops = [s for s in fi.body if isinstance(s, ast.For)]
    # unlisted spellings of the table construction are decided by running it
    body_txt = statement_texts(fi)
    listed = len(loops) == 1 and any("syndrome_int not in table" in t_ for t_ in body_txt) and any(t_ == "syndrome = self.encoder.calculate_syndrome(error_pattern)" for t_ in body_txt)
    if not listed:
        est, edetail = syndrome_table_evaluated(ci, fi)
        if est is not None:
            rep.add("COSET-LEADER", fi, "_build_syndrome_table evaluated on three small codes", est, edetail, node=fi.node)
            return 4 + rule_syndrome_rest(repo, rep, ci)
    if len(loops) != 1:
        rep.undecided("COSET-LEADER", fi, "weight loop", f"{len(loops)} top-level loops")
        return 1
    lp = loops[0]
    it = unparse(lp.iter)
    if it == "range(1, self.code_length + 1)":
        rep.ok("COSET-LEADER", fi, f"for {unparse(lp.target)} in {it}", "error weights visited in ascending order up to n")
    elif it.startswith("range(") or it.startswith("reversed(") or it.startswith("sorted("):
        rep.violation("COSET-LEADER", fi, f"for {unparse(lp.target)} in {it}", "weights are not visited in ascending order from 1 to n: a heavier pattern can be stored as coset leader (not minimum weight => not nearest codeword)", node=lp)
    else:
        rep.undecided("COSET-LEADER", fi, f"for {unparse(lp.target)} in {it}", "weight order not recognised")
    inner = [s for s in lp.body if isinstance(s, ast.For)]
    ok_in = len(inner) == 1 and unparse(inner[0].iter) == f"self._generate_error_patterns({unparse(lp.target)})"
    rep.expect(ok_in, "COSET-LEADER", fi, f"inner loop over {unparse(inner[0].iter) if inner else '?'}", "all patterns of the current weight", "patterns of the current weight are not enumerated by _generate_error_patterns(weight)")
    n += 2
    if inner:
        ifs = [s for s in inner[0].body if isinstance(s, ast.If)]
        stores = [s for s in stmts_of(inner[0].body) if isinstance(s, ast.Assign) and isinstance(s.targets[0], ast.Subscript) and unparse(s.targets[0].value) == "table"]
        guarded = any(unparse(i.test) == "syndrome_int not in table" and any(st in list(stmts_of(i.body)) for st in stores) for i in ifs)
        if stores and not guarded:
            rep.violation("COSET-LEADER", fi, f"table store: {unparse(stores[0])}", "entries are overwritten by later (heavier or equal-weight) patterns: the leader must be the FIRST pattern found for a syndrome (`if syndrome_int not in table`)", node=stores[0])
        else:
            rep.expect(guarded, "COSET-LEADER", fi, "table[syndrome_int] = error_pattern only `if syndrome_int not in table`", "first-come insertion in ascending weight order: minimum-weight coset leaders", "insertion guard not recognised")
        syn = [s for s in stmts_of(inner[0].body) if isinstance(s, ast.Assign) and unparse(s.targets[0]) == "syndrome"]
        rep.expect(len(syn) == 1 and unparse(syn[0].value) == "self.encoder.calculate_syndrome(error_pattern)", "COSET-LEADER", fi, f"syndrome of the pattern: {unparse(syn[0].value) if syn else '?'}", "computed with the encoder's own check matrix", "pattern syndromes are not computed by the encoder")
        n += 2
    return n + rule_syndrome_rest(repo, rep, ci)


def syndrome_forward_evaluated(repo: Repo, ci):
    """SyndromeLookupDecoder.forward (class helpers and the block-wise utility followed; the encoder's syndrome and message
    extraction replaced by the checker's own for the systematic (7,4) Hamming code, the table by the checker's
    coset leaders) evaluated on all 16 codewords without and with each single error - as single words, as one batch, and
    with return_errors=True: the message of the transmitted codeword (and the flipped position) must come back."""
    from ..constfold import PySeq, Unfoldable
    from ..frag import FragRaise, FragReturn, coverage_scope, run_fragment

    fwd = repo.method(ci, "forward")
    H = [[1, 1, 0, 1, 1, 0, 0], [1, 0, 1, 1, 0, 1, 0], [0, 1, 1, 1, 0, 0, 1]]
    n_, k_ = 7, 4

    def syn(w):
        return [sum(h * int(round(float(x))) for h, x in zip(r, w)) % 2 for r in H]

    def s2i(sv):
        return int("".join(str(int(b)) for b in sv), 2)

    def calc(w, *a, **kw):
        if isinstance(w, list) and w and isinstance(w[0], list):
            return [[float(v) for v in syn(r)] for r in w]
        return [float(v) for v in syn(w)]

    def extract(w, *a, **kw):
        if isinstance(w, list) and w and isinstance(w[0], list):
            return [list(r[:k_]) for r in w]
        return list(w[:k_])

    funcs = {f"self.{nm}": m.node for nm, m in ci.methods.items() if nm not in ("forward", "__init__", "_build_syndrome_table", "_generate_error_patterns")}
    for mi_ in repo.modules.values():
        if mi_.relpath == "kaira/models/fec/utils.py":
            funcs.update({nm: f.node for nm, f in mi_.functions.items()})
    # the decoder's own key conversion decides how the table is keyed
    key_fi = ci.methods.get("_syndrome_to_int")
    table = {}
    for pat in [[0] * n_] + [[1 if j == i else 0 for j in range(n_)] for i in range(n_)]:
        if key_fi is None:
            return None, "_syndrome_to_int not found"
        try:
            run_fragment(key_fi.body, {[p for p in key_fi.params if p != "self"][0]: [float(v) for v in syn(pat)]}, {}, max_steps=20000)
            return None, "key conversion returns nothing"
        except FragReturn as ret:
            key = ret.value
        except (Unfoldable, FragRaise, TypeError, IndexError, ValueError) as exc:
            return None, f"key conversion not evaluable ({exc})"
        if isinstance(key, list) or key in table:
            return None, "key conversion is not an injective integer"
        table[key] = [int(v) for v in pat]
    gens = [[1, 0, 0, 0, 1, 1, 0], [0, 1, 0, 0, 1, 0, 1], [0, 0, 1, 0, 0, 1, 1], [0, 0, 0, 1, 1, 1, 1]]
    words, wants, errs = [], [], []
    for mval in range(16):
        msg = [(mval >> (3 - t)) & 1 for t in range(4)]
        cw = [sum(msg[i] * gens[i][j] for i in range(4)) % 2 for j in range(n_)]
        assert syn(cw) == [0, 0, 0]
        for e in [None] + list(range(n_)):
            w = [float(b ^ (1 if j == e else 0)) for j, b in enumerate(cw)]
            words.append(w)
            wants.append([float(b) for b in msg])
            errs.append([1.0 if j == e else 0.0 for j in range(n_)])
    attrs0 = {"self.code_length": n_, "self.code_dimension": k_, "self._syndrome_table": table}
    ctors = {"self.encoder.calculate_syndrome": calc, "self.encoder.extract_message": extract}
    scope = coverage_scope()
    scope.__enter__()
    try:
        runs = [("single word", w, wt, er, {}) for w, wt, er in list(zip(words, wants, errs))[:24:5]] + [("batch of 128 words", words, wants, errs, {}), ("batch, return_errors=True", words[:16], wants[:16], errs[:16], {"return_errors": True}), ("single word, return_errors=True", words[3], wants[3], errs[3], {"return_errors": True})]
        for what, rec, want, err, kw in runs:
            try:
                run_fragment(fwd.body, {"received": rec, "args": PySeq([]), "kwargs": dict(kw)}, dict(attrs0), funcs=funcs, ctors=ctors, materialise=True, max_steps=4000000, attrs_live=True)
                return None, "no value returned"
            except FragReturn as ret:
                got = ret.value
            except (Unfoldable, FragRaise, TypeError, IndexError, ValueError, KeyError) as exc:
                return None, f"{what}: {exc}"
            got_err = None
            if kw.get("return_errors"):
                if not (isinstance(got, list) and len(got) == 2):
                    return None, f"{what}: the result is not a (messages, errors) pair"
                got, got_err = got[0], got[1]

            def num(z):
                return [num(t) for t in z] if isinstance(z, list) else float(z)

            try:
                g_, e_ = num(got), (num(got_err) if got_err is not None else None)
            except (TypeError, ValueError):
                return None, f"{what}: the result is not numeric"
            if g_ != want:
                i_ = next((i for i, (a_, b_) in enumerate(zip(g_, want)) if a_ != b_), 0) if isinstance(want[0], list) else 0
                r_, w_, x_ = (rec[i_], want[i_], g_[i_] if isinstance(g_, list) and i_ < len(g_) else g_) if isinstance(want[0], list) else (rec, want, g_)
                return VIOLATION, f"{what}: the received word {[int(v) for v in r_]} (a codeword of the (7,4) Hamming code with at most one flipped bit) is decoded to {x_}; the transmitted message is {[int(v) for v in w_]}"
            if e_ is not None and e_ != err:
                return VIOLATION, f"{what}: the reported error patterns differ from the flipped positions"
    finally:
        scope.__exit__()
    # the tail after the block-wise call only re-arranges (messages, errors) for multi-block input with return_errors=True: not covered here
    bw = [c_.lineno for c_ in ast.walk(fwd.node) if isinstance(c_, ast.Call) and (call_name(c_) or "") == "apply_blockwise"]
    tail_from = min(bw) if bw else 10**9
    miss = [(st_, fl_) for st_, fl_ in scope.missed([fwd.node]) if st_.lineno <= tail_from]
    if miss:
        st_, fl_ = miss[0]
        return None, f"branches never reached by the samples (line {st_.lineno})"
    return OK, "128 words (16 codewords x no / one flipped bit), single words and batches, with and without error patterns: the transmitted message (and the flipped position) is returned (the re-arrangement for multi-block input with return_errors=True is not covered)"


def error_patterns_evaluated(gp: FuncInfo):
    """_generate_error_patterns(weight) evaluated (own arithmetic, the recursive closure followed with the enclosing scratch
    buffer and result list shared) for n = 4, 5, 6 and every weight: the rows must be exactly the C(n, w) distinct 0/1
    words of weight w.  Returns (status, detail) or (None, reason)."""
    from itertools import combinations as _comb

    from ..constfold import Unfoldable
    from ..frag import FragRaise, FragReturn, run_fragment

    params = [p_ for p_ in gp.params if p_ != "self"]
    if len(params) != 1:
        return None, "unexpected signature"
    cases = 0
    for n_ in (4, 5, 6):
        for w in range(1, n_ + 1):
            try:
                run_fragment(gp.body, {params[0]: w}, {"self.code_length": n_}, materialise=True, max_steps=400000)
                return None, "no value returned"
            except FragReturn as ret:
                got = ret.value
            except (Unfoldable, FragRaise, TypeError, IndexError, ValueError, RecursionError) as exc:
                return None, str(exc)
            if not (isinstance(got, list) and all(isinstance(r, list) and len(r) == n_ and all(isinstance(v, (int, float)) and not isinstance(v, bool) and v in (0, 1) for v in r) for r in got)):
                return None, f"n = {n_}, weight {w}: the result is not a 0/1 matrix with {n_} columns"
            rows = sorted(tuple(int(v) for v in r) for r in got)
            want = sorted(tuple(1 if i in c_ else 0 for i in range(n_)) for c_ in _comb(range(n_), w))
            if rows != want:
                missing = [r for r in want if r not in rows]
                extra = [r for r in rows if r not in want]
                return VIOLATION, f"n = {n_}, weight {w}: {len(got)} patterns are generated, the C({n_},{w}) = {len(want)} words of weight {w} are required" + (f"; missing {list(missing[0])}" if missing else "") + (f"; not of weight {w} / repeated: {list(extra[0])}" if extra else (" (a word is repeated)" if len(rows) != len(set(rows)) else "")) + ": a correctable error pattern is never tried (its coset gets a heavier leader) or the table is filled with wrong words"
            cases += 1
    return OK, f"{cases} (n, weight) pairs: exactly the C(n, w) distinct words of weight w"


def rule_syndrome_rest(repo: Repo, rep: Report, ci) -> int:
    """pattern generator and the correction step of forward (the part of the syndrome-lookup rule that does not depend on
    how the table is filled)"""
    n = 0
    # exhaustive pattern generator
    gp = repo.method(ci, "_generate_error_patterns")
    rec = gp.nested("generate_recursive")
    pst_, pd_ = error_patterns_evaluated(gp)
    if pst_ is not None:
        rep.add("COSET-LEADER", gp, "_generate_error_patterns evaluated for n = 4, 5, 6 and every weight 1 .. n", pst_, pd_, node=gp.node)
        n += 3
        rec = False
    if rec is False:
        pass
    elif rec is None:
        rep.undecided("COSET-LEADER", gp, "generate_recursive", "closure not found")
    else:
        fl = [s for s in rec.body if isinstance(s, ast.For)]
        it2 = unparse(fl[0].iter) if fl else "?"
        if it2 == "range(start_pos, self.code_length - ones_left + 1)":
            rep.ok("COSET-LEADER", gp, f"positions: for pos in {it2}", "every C(n, w) support is generated exactly once")
        elif fl and it2.startswith("range(start_pos"):
            rep.violation("COSET-LEADER", gp, f"positions: for pos in {it2}", "the recursion bound must be n - ones_left + 1: another bound drops supports that end at the last positions (or generates short patterns)", node=fl[0])
        else:
            rep.undecided("COSET-LEADER", gp, f"positions: {it2}", "shape not recognised")
        body = statement_texts(rec)
        ok = "current[pos] = 1" in body and "generate_recursive(current, ones_left - 1, pos + 1)" in body and "current[pos] = 0" in body and "patterns.append(current.clone())" in body
        rep.expect(ok, "COSET-LEADER", gp, "set bit, recurse with (ones_left - 1, pos + 1), clear bit; a clone is stored at ones_left == 0", "backtracking enumeration of all supports", "pattern enumeration changed")
        n += 2
    if rec is not False:
        w1 = [s for s in stmts_of(gp.body) if isinstance(s, ast.Assign) and unparse(s) == "patterns[i, i] = 1"]
        rep.expect(len(w1) == 1, "COSET-LEADER", gp, "weight-1 patterns: identity rows", "all n single-error patterns", "weight-1 patterns changed")
        n += 1
    # forward: XOR the leader, extract with the encoder
    fwd = repo.method(ci, "forward")
    fst_, fd_ = syndrome_forward_evaluated(repo, ci)
    if fst_ is not None:
        rep.add("COSET-LEADER", fwd, "forward evaluated on every codeword of the (7,4) Hamming code with no and with one error: single words, a batch, error patterns requested", fst_, fd_, node=fwd.node)
        n += 4
    corr = [] if fst_ is not None else [s for s in ast.walk(fwd.node) if isinstance(s, ast.Assign) and unparse(s.targets[0]) == "corrected"]
    from .c12 import _tt_eval

    for s_ in corr:
        names = sorted({x.id for x in ast.walk(s_.value) if isinstance(x, ast.Name)} - {"torch"})
        table = None
        if len(names) == 2:
            table = [_tt_eval(s_.value, {names[0]: a, names[1]: b}) for a in (0, 1) for b in (0, 1)]
        if table is None or any(t is None for t in table):
            rep.undecided("COSET-LEADER", fwd, f"correction: {unparse(s_)}", "not evaluable over {0,1}^2")
        elif [int(t) for t in table] == [0, 1, 1, 0]:
            rep.ok("COSET-LEADER", fwd, f"correction: {unparse(s_)}", "truth table is XOR: received word plus coset leader over GF(2)")
        else:
            rep.violation("COSET-LEADER", fwd, f"correction: {unparse(s_)}", f"truth table over (bit, error) is {table}, not XOR [0,1,1,0]: the leader is not added over GF(2)", node=s_)
        n += 1
    if fst_ is None:
        rep.floor("syndrome-lookup correction sites", len(corr), 2)
        ext = [c for c in ast.walk(fwd.node) if isinstance(c, ast.Call) and attr_chain(c.func) == "self.encoder.extract_message"]
        rep.expect(len(ext) == 2 and all(unparse(c.args[0]) == "corrected" for c in ext), "COSET-LEADER", fwd, "message = self.encoder.extract_message(corrected)", "the encoder's own extraction of the corrected word", "the message is not extracted from the corrected word by the encoder")
        look = [c for c in ast.walk(fwd.node) if isinstance(c, ast.Call) and attr_chain(c.func) == "self._syndrome_table.get"]
        rep.expect(len(look) == 2 and all(unparse(c.args[0]) == "syndrome_int" for c in look), "COSET-LEADER", fwd, "leader = self._syndrome_table.get(syndrome_int, zeros)", "lookup by the received word's own syndrome", "table lookup changed")
    # the table belongs to this decoder's encoder: built in __init__ from self.encoder, not shared
    init = repo.method(ci, "__init__")
    tb = [s for s in stmts_of(init.body) if isinstance(s, ast.Assign) and attr_chain(s.targets[0]) == "self._syndrome_table"]
    ok = len(tb) == 1 and unparse(tb[0].value) == "self._build_syndrome_table()"
    if tb and not ok:
        rep.violation("COSET-LEADER", init, f"self._syndrome_table = {unparse(tb[0].value)}", "the coset-leader table must be built from this decoder's own encoder; a table obtained from anywhere else (a shared cache keyed by less than the check matrix) can belong to a different code", node=tb[0])
    else:
        rep.expect(ok, "COSET-LEADER", init, "self._syndrome_table = self._build_syndrome_table()", "one table per decoder, derived from its own encoder", "table construction site not found")
    return n + 3


def rule_ml(repo: Repo, rep: Report) -> int:
    ci = repo.cls(ML, "BruteForceMLDecoder")
    n = 0
    gc = repo.method(ci, "_generate_codebook")
    body = statement_texts(gc)
    ok = "num_messages = 2 ** k" in body and "k = self.code_dimension" in body and any(b == "codewords[i] = self.encoder(messages[i].unsqueeze(0)).squeeze(0)" for b in body) and "messages[i, k - j - 1] = float(i >> j & 1)" in body
    loops = [unparse(s.iter) for s in stmts_of(gc.body) if isinstance(s, ast.For)]
    ok = ok and loops.count("range(num_messages)") == 2
    # the enumeration index runs up to 2^k - 1: created in an 8- or 16-bit integer dtype it wraps around (uint8: modulo 256), and
    # the upper message bits are never set - not visible to the evaluation below (k <= 4, untyped integers)
    NARROW = {"torch.uint8": 8, "torch.int8": 7, "torch.int16": 15, "torch.short": 15, "torch.bool": 1}
    ldt = {}
    for s_ in ast.walk(gc.node):
        if isinstance(s_, ast.Assign) and len(s_.targets) == 1 and isinstance(s_.targets[0], ast.Name) and isinstance(s_.value, ast.Call):
            d_ = next((unparse(k_.value) for k_ in s_.value.keywords if k_.arg == "dtype"), None)
            if d_ in NARROW:
                ldt[s_.targets[0].id] = d_
    for c_ in ast.walk(gc.node):
        if isinstance(c_, ast.Call) and (call_name(c_) or "") in ("torch.arange", "torch.tensor", "torch.as_tensor") and c_.args:
            d_ = next((unparse(k_.value) for k_ in c_.keywords if k_.arg == "dtype"), None)
            if d_ is not None and d_.endswith(".dtype") and d_[:-6] in ldt:
                d_ = ldt[d_[:-6]]
            big = any(isinstance(x_, ast.Name) and x_.id in ("num_messages",) for x_ in ast.walk(c_.args[-1] if (call_name(c_) or "") == "torch.arange" else c_.args[0])) or any(isinstance(x_, ast.BinOp) and isinstance(x_.op, ast.Pow) for x_ in ast.walk(c_.args[0]))
            if d_ in NARROW and big:
                rep.violation("ML", gc, f"message index enumerated in {d_}", f"`{unparse(c_)[:80]}` holds the message numbers 0 .. 2^k - 1 in a {NARROW[d_]}-bit dtype: for k > {NARROW[d_]} the numbers wrap around, the upper message bits are always 0 and the codebook contains only 2^{NARROW[d_]} distinct code words - the decoder is not maximum-likelihood for such codes", node=c_)
                n += 1
    cst, cdet = (OK, "") if ok else codebook_evaluated(gc)
    if not ok and cst in (OK, VIOLATION):
        rep.add("ML", gc, "codebook evaluated with a model encoder (k = 1..4)", cst, cdet, node=gc.node)
        n += 2
    else:
        rep.expect(ok, "ML", gc, "codebook: all 2^k messages (binary expansion of i), each encoded by self.encoder", "the complete code, produced by the encoder itself", "the codebook is not the encoder's image of all 2^k messages")
        r = returns_of(gc.node)
        rep.expect(len(r) == 1 and unparse(r[0].value) == "(codewords, messages)", "ML", gc, "returns (codewords, messages) index-aligned", "codeword i belongs to message i", "codebook / message map alignment changed")
        n += 2
    db = repo.method(ci, "_decode_batch")
    args = [c for c in ast.walk(db.node) if isinstance(c, ast.Call) and call_name(c) in ("torch.argmin", "torch.argmax")]
    if len(args) != 1:
        rep.undecided("ML", db, "decision", f"{len(args)} argmin/argmax sites")
    else:
        which = call_name(args[0])
        if which == "torch.argmax":
            rep.violation("ML", db, f"decision: {unparse(args[0])}", "argmax of the Hamming distances selects a FARTHEST codeword", node=args[0])
        else:
            rep.expect(unparse(args[0].args[0]) == "distances", "ML", db, f"decision: {unparse(args[0])}", "a codeword at minimum Hamming distance", "decision metric changed")
    n += 1
    dist = [s for s in stmts_of(db.body) if isinstance(s, ast.Assign) and unparse(s.targets[0]) == "distances"]
    rep.expect(len(dist) == 1 and unparse(dist[0].value) == "self._hamming_distance(r.unsqueeze(0).expand(codebook.shape[0], -1), codebook)", "ML", db, f"distances = {unparse(dist[0].value) if dist else '?'}", "distance from the received word to EVERY codeword", "distances are not computed against the whole codebook")
    same = [unparse(s) for s in stmts_of(db.body)]
    rep.expect("decoded[i] = message_map[min_idx]" in same and "closest_codeword = codebook[min_idx]" in same, "ML", db, "decoded[i] = message_map[min_idx]; closest_codeword = codebook[min_idx]", "message and codeword taken at the same winning index", "the returned message is not the one of the winning codeword")
    n += 2
    hd = repo.method(ci, "_hamming_distance")
    r = returns_of(hd.node)
    e = Inliner(hd).inline(r[-1].value) if r else None
    st, d, _ = classify(e, ["torch.sum((x != y).to(x.dtype), dim=-1)", "(x != y).sum(dim=-1)", "torch.sum(x != y, dim=-1)"]) if e is not None else (UNDECIDED, "", None)
    rep.add("ML", hd, f"Hamming distance: {unparse(e) if e is not None else '?'}", st, d or "number of differing positions")
    n += 1
    # cached codebook is per instance (built from self.encoder)
    init = repo.method(ci, "__init__")
    cb = [s for s in stmts_of(init.body) if isinstance(s, ast.Assign) and unparse(s.targets[0]) in ("codebook, message_map", "(codebook, message_map)")]
    rep.expect(len(cb) == 1 and unparse(cb[0].value) == "self._generate_codebook()", "ML", init, "pre-computed codebook = self._generate_codebook()", "per decoder, from its own encoder", "codebook source changed")
    return n + 1


def codebook_evaluated(gc: FuncInfo):
    """Unlisted spelling of the codebook construction: run it (own arithmetic) with a model encoder (message -> message
    followed by its parity and its first bit, an injective map) for k = 1..4: the message table must contain every one of
    the 2^k messages once, and row i of the codeword table must be the encoding of row i of the message table."""
    from itertools import product

    from ..constfold import Unfoldable
    from ..frag import FragRaise, FragReturn, run_fragment
    from ..gf2 import EvalObj

    class Enc(EvalObj):
        def __call__(self, x):
            rows = x if x and isinstance(x[0], list) else [x]
            out = [[int(b) for b in r_] + [sum(int(b) for b in r_) % 2, int(r_[0])] for r_ in rows]
            return out if x and isinstance(x[0], list) else out[0]

    for k in (1, 2, 3, 4):
        try:
            run_fragment(gc.body, {}, {"self.code_dimension": k, "self.code_length": k + 2, "self.encoder": Enc()}, max_steps=400000, materialise=True)
            return UNDECIDED, "no value returned"
        except FragReturn as r:
            res = r.value
        except (Unfoldable, FragRaise, TypeError, IndexError) as exc:
            return UNDECIDED, f"not evaluable ({exc})"
        if not (isinstance(res, list) and len(res) == 2):
            return UNDECIDED, "result is not a pair of tables"
        cw, ms = res
        try:
            msgs = [tuple(int(b) for b in r_) for r_ in ms]
            cws = [[int(b) for b in r_] for r_ in cw]
        except (TypeError, ValueError):
            return UNDECIDED, "tables are not 0/1 matrices"
        if sorted(msgs) != sorted(product((0, 1), repeat=k)):
            return VIOLATION, f"for k = {k} the message table {msgs[:6]}... is not the set of all 2^k messages, each once: some codewords are missing from the search, so the decoder is not maximum likelihood"
        for i, m_ in enumerate(msgs):
            if cws[i] != list(m_) + [sum(m_) % 2, m_[0]]:
                return VIOLATION, f"for k = {k} row {i} of the codeword table is not the encoding of row {i} of the message table: the decoder returns the message of another codeword"
    return OK, "all 2^k messages once, codeword i = encoder(message i) (model encoder, k = 1..4)"


def bm_evaluated(alg: FuncInfo):
    """Run berlekamp_massey_algorithm on the syndromes of every error pattern of weight <= t for t = 1, 2, 3 over GF(16)
    (n = 15; all patterns of weight 1 and 2, a spread of weight 3, and patterns with a vanishing intermediate discrepancy):
    the returned locator must be prod (1 + alpha^p x), coefficient by coefficient, lowest degree first."""
    from itertools import combinations

    from ..constfold import PySeq, Unfoldable
    from ..frag import FragRaise, FragReturn, run_fragment
    from .. import gf2

    field = gf2.FieldModel(4, 0b10011)
    alpha = field(2)
    runs = 0
    for t_ in (1, 2, 3):
        supports = [()] + [(p,) for p in range(15)]
        if t_ >= 2:
            supports += list(combinations(range(15), 2))
        if t_ >= 3:
            supports += [c for i, c in enumerate(combinations(range(15), 3)) if i % 5 == 0]
        for supp in supports:
            if len(supp) > t_:
                continue
            synd = []
            for i in range(1, 2 * t_ + 1):
                acc = field.zero
                for j in supp:
                    acc = acc + (alpha ** (i * j))
                synd.append(acc)
            want = [field.one]
            for p_ in supp:
                loc = alpha**p_
                nxt = [field.zero] * (len(want) + 1)
                for i, c in enumerate(want):
                    nxt[i] = nxt[i] + c
                    nxt[i + 1] = nxt[i + 1] + c * loc
                want = nxt
            try:
                run_fragment(alg.body, {"syndrome": PySeq(synd)}, {"self.field": field, "self.t": t_}, max_steps=400000)
                return UNDECIDED, "no value returned"
            except FragReturn as r:
                got = r.value
            except (Unfoldable, FragRaise, TypeError, IndexError, KeyError, ZeroDivisionError) as exc:
                return UNDECIDED, f"not evaluable ({exc})"
            if not (isinstance(got, list) and all(isinstance(x, gf2.FieldElem) for x in got)):
                return UNDECIDED, f"result {str(got)[:40]} is not a list of field elements"
            gv = [x.value for x in got]
            while len(gv) > 1 and gv[-1] == 0:
                gv.pop()
            if gv != [x.value for x in want]:
                return VIOLATION, f"for t = {t_} and errors at positions {list(supp)} (n = 15, GF(16)) the synthesised locator is {gv}; the error locator prod (1 + alpha^p x) is {[x.value for x in want]}: its roots are not the error positions, so wrong bits are flipped for a pattern of weight <= t"
            runs += 1
    return OK, f"locator = prod (1 + alpha^p x) for {runs} error patterns of weight <= t, t = 1, 2, 3"


def syndromes_evaluated(rep: Report, sp: FuncInfo) -> int:
    """S_i = r(alpha^i), i = 1..2t: the syndrome routine is run (own GF(16) arithmetic, model objects for field and
    elements) for t = 7 on received words of weight 1..3 and compared with the definition - every one of the 2t values,
    including the even-index ones a conjugate shortcut would derive from S_odd."""
    from ..constfold import Unfoldable
    from ..frag import FragRaise, FragReturn, run_fragment
    from .. import gf2

    field = gf2.FieldModel(4, 0b10011)
    alpha = field(2)
    t_, nn = 7, 15
    what = "syndromes S_1 .. S_2t of a received word"
    for supp in ([0], [1], [5], [14], [2, 9], [0, 7, 13], [3, 4, 5]):
        received = [field.one if j in supp else field.zero for j in range(nn)]
        want = []
        for i in range(1, 2 * t_ + 1):
            acc = field.zero
            for j in supp:
                acc = acc + (alpha ** (i * j))
            want.append(acc.value)
        try:
            run_fragment(sp.body, {"received": received}, {"self._alpha": alpha, "self._field": field, "self._error_correction_capability": t_, "self._length": nn, "self.field": field}, max_steps=400000)
            rep.undecided("BM", sp, what, "no value returned")
            return 1
        except FragReturn as r:
            got = r.value
        except (Unfoldable, FragRaise, TypeError, IndexError) as exc:
            rep.undecided("BM", sp, what, f"not evaluable ({exc})")
            return 1
        gv = [x.value if isinstance(x, gf2.FieldElem) else x for x in got] if isinstance(got, list) else got
        if gv != want:
            k = next((i for i, (a, b) in enumerate(zip(gv, want)) if a != b), 0) if isinstance(gv, list) and len(gv) == len(want) else None
            rep.violation("BM", sp, what, (f"for a received word with ones at positions {supp} (n = 15, t = 7, GF(16)) S_{k + 1} is computed as {gv[k]:#06b}; r(alpha^{k + 1}) is {want[k]:#06b}" if k is not None else f"for ones at {supp} the routine returns {len(gv) if isinstance(gv, list) else gv} values instead of {len(want)}") + ": Berlekamp-Massey is fed a wrong syndrome for every code whose t reaches that index", node=sp.node)
            return 1
    rep.ok("BM", sp, what, "equal to r(alpha^i) for i = 1..14 on 7 received words over GF(16)", node=sp.node)
    return 1


def chien_evaluated(rep: Report, fe: FuncInfo) -> None:
    """An unlisted spelling of the root search is run (own GF(2^4) arithmetic, frag evaluator) on error locators
    sigma(x) = prod (1 + alpha^p x) built from known position sets; it must return exactly those positions."""
    from ..constfold import Unfoldable
    from ..frag import FragRaise, FragReturn, run_fragment
    from ..gf2 import GFE

    mod, nn = 0b10011, 15
    one, zero, alpha = GFE(1, mod), GFE(0, mod), GFE(2, mod)
    what = "Chien search: positions returned for sigma(x) = prod (1 + alpha^p x)"
    for positions in ([0], [3], [14], [0, 7], [2, 5, 11], [0, 1, 14], []):
        sigma = [one]
        for p_ in positions:
            loc = alpha ** p_
            nxt = [zero] * (len(sigma) + 1)
            for i, c in enumerate(sigma):
                nxt[i] = nxt[i] + c
                nxt[i + 1] = nxt[i + 1] + c * loc
            sigma = nxt
        try:
            run_fragment(fe.body, {"error_locator_poly": sigma}, {"self.field.primitive_element()": alpha, "self.field.one": one, "self.field.zero": zero, "self.code_length": nn, "self.field.alpha": alpha}, max_steps=200000)
            rep.undecided("BM", fe, what, "no value returned")
            return
        except FragReturn as r:
            got = r.value
        except (Unfoldable, FragRaise, TypeError) as exc:
            rep.undecided("BM", fe, what, f"root search outside the evaluator ({exc})")
            return
        if not isinstance(got, list) or sorted(got) != sorted(positions):
            rep.violation("BM", fe, what, f"for errors at positions {positions} (n = 15, GF(16)) the search returns {got}: a located error is reported at the wrong position (and dropped or mis-corrected by the caller)", node=fe.node)
            return
    rep.ok("BM", fe, what, "unlisted spelling; returns exactly the error positions on 7 position sets over GF(16)")


def rule_bm(repo: Repo, rep: Report) -> int:
    ci = repo.cls(BM, "BerlekampMasseyDecoder")
    n = 0
    init = repo.method(ci, "__init__")
    vals = {attr_chain(s.targets[0]): unparse(s.value) for s in stmts_of(init.body) if isinstance(s, ast.Assign) and attr_chain(s.targets[0])}
    rep.expect(vals.get("self.t") == "encoder.error_correction_capability" and vals.get("self.field") == "encoder._field", "BM", init, f"t = {vals.get('self.t')}, field = {vals.get('self.field')}", "capability and field of the encoder", "decoder parameters are not taken from the encoder")
    sp = repo.func(BCH, "BCHCodeEncoder.calculate_syndrome_polynomial")
    n += syndromes_evaluated(rep, sp)
    loops = [s for s in sp.body if isinstance(s, ast.For)]
    it = unparse(loops[0].iter) if loops else "?"
    if it == "range(1, 2 * self._error_correction_capability + 1)":
        rep.ok("BM", sp, f"syndromes S_i for i in {it}", "S_1 .. S_2t at alpha^1 .. alpha^2t")
    elif loops and it.startswith("range("):
        rep.violation("BM", sp, f"syndromes S_i for i in {it}", "the 2t syndromes must be evaluated at alpha^1 .. alpha^(2t)", node=loops[0])
    else:
        rep.undecided("BM", sp, f"syndrome loop {it}", "not recognised")
    body = statement_texts(sp)
    rep.expect("alpha_i = self._alpha ** i" in body and "eval_result = eval_result + alpha_i ** j" in body and any(b.startswith("for (j, bit) in enumerate(received)") or b.startswith("for j, bit in enumerate(received)") for b in [unparse(s).split(":")[0] for s in stmts_of(sp.body) if isinstance(s, ast.For)]), "BM", sp, "S_i = sum over set positions j of (alpha^i)^j", "evaluation of the received polynomial at alpha^i (position j = degree j)", "syndrome evaluation changed")
    n += 3
    fe = repo.method(ci, "_find_error_locations")
    loops = [s for s in fe.body if isinstance(s, ast.For)]
    it = unparse(loops[0].iter) if loops else "?"
    body = statement_texts(fe)
    listed = "x = alpha ** (n - j) if j > 0 else self.field.one" in body and "result = result + coef * x ** i" in body and "error_positions.append(j)" in body and any(unparse(s.test) == "result == self.field.zero" for s in stmts_of(fe.body) if isinstance(s, ast.If))
    if listed and it == "range(n)":
        rep.ok("BM", fe, f"Chien search: for j in {it}", "every position is tested")
        rep.ok("BM", fe, "position j is in error iff sigma(alpha^-j) = 0", "roots of the error locator are the inverse locators")
    elif listed and loops and it.startswith("range("):
        rep.violation("BM", fe, f"Chien search: for j in {it}", "the root search must cover all n positions", node=loops[0])
    else:
        chien_evaluated(rep, fe)
    n += 2
    fwd = repo.method(ci, "forward")
    cl = fwd.nested("decode_block")
    wst_, wd_ = bm_forward_evaluated(repo, ci)
    if wst_ is not None:
        # the whole decoding chain run on words of the (15,7) two-error-correcting BCH code: supersedes the recognition of its statements
        rep.add("BM", fwd, "forward evaluated over GF(16) on codewords of the (15,7) BCH code with 0, 1 and 2 flipped bits", wst_, wd_, node=fwd.node)
        n += 2
        cl = False
    if cl is False:
        pass
    elif cl is None:
        rep.undecided("BM", fwd, "decode_block", "closure not found")
        return n + 1
    body = statement_texts(cl) if cl else []
    if cl:
      rep.expect("corrected[pos] = 1.0 - corrected[pos]" in body and "error_positions = self._find_error_locations(error_locator)" in body and "error_locator = self.berlekamp_massey_algorithm(syndrome)" in body and "syndrome = self.encoder.calculate_syndrome_polynomial(r_field)" in body and "decoded[i] = self.encoder.extract_message(corrected)" in body, "BM", cl, "syndrome -> locator -> Chien positions -> flip exactly those bits -> encoder.extract_message", "the decoding chain", "decoding chain changed")
    zero = [s for s in stmts_of(cl.body) if isinstance(s, ast.If) and unparse(s.test) == "all((s == self.field.zero for s in syndrome))"] if cl else []
    if not cl:
        pass
    elif len(zero) != 1:
        # another spelling of the shortcut's test: it is evaluated on syndrome vectors over GF(16) (own field model): it
        # may hold for the all-zero vector only - field addition is XOR, so "the components sum to zero" is NOT that test
        zst, zd = zero_syndrome_test_evaluated(cl)
        if zst is None:
            rep.undecided("BM", cl, "zero syndrome: the word is returned uncorrected", f"zero-syndrome shortcut changed ({zd})")
        else:
            rep.add("BM", cl, "zero-syndrome shortcut: its test evaluated on syndrome vectors over GF(16)", zst, zd)
    else:
        rep.ok("BM", cl, "zero syndrome: the word is returned uncorrected", "codewords are not modified")
    n += 2 if cl else 0
    alg = repo.method(ci, "berlekamp_massey_algorithm")
    est_, ed_ = bm_evaluated(alg)
    if est_ in (OK, VIOLATION):
        # the synthesis is a pure function of the 2t syndromes over a finite field: decided by running it (own GF(16)
        # arithmetic) - this supersedes the recognition of its individual statements
        rep.add("BM", alg, "Berlekamp-Massey synthesis evaluated over GF(16)", est_, ed_, node=alg.node)
        return n + 1
    body = statement_texts(alg)
    need = ["coefficient = discrepancy[j] * inv_discrepancy_k", "sigma[j + 1] = [fst[i] + snd[i] * coefficient for i in range(degree[j + 1] + 1)]", "degree[j + 1] = max(degree[j], degree[k] + j - k)", "discrepancy[j + 1] += sigma[j + 1][i + 1] * syndrome[j - i]", "inv_discrepancy_k = discrepancy[k].inverse()"]
    for t in need:
        rep.expect(t in body, "BM", alg, f"LFSR synthesis step `{t}`", "Berlekamp-Massey update", "a step of the LFSR synthesis changed")
        n += 1
    # the auxiliary iteration k: Massey's rule picks, among the earlier iterations with non-zero discrepancy, the one
    # maximising i - degree[i]; a choice that does not look at the LFSR lengths yields a non-minimal locator
    kdefs = [s for s in ast.walk(alg.node) if isinstance(s, ast.Assign) and any(isinstance(x, ast.Name) and x.id == "k" and isinstance(x.ctx, ast.Store) for t in s.targets for x in ast.walk(t))]
    ksel = [s for s in ast.walk(alg.node) if isinstance(s, ast.If) and any(d in list(ast.walk(s)) for d in kdefs)]
    crit_ok = any(unparse(s.test) in ("discrepancy[i] != field.zero and i - degree[i] > max_so_far", "discrepancy[i] != self.field.zero and i - degree[i] > max_so_far") for s in ksel) and any(unparse(d) == "k, max_so_far = (i, i - degree[i])" for d in kdefs) and any(isinstance(l, ast.For) and unparse(l.iter) == "range(-1, j)" for l in ast.walk(alg.node))
    uses_degree = any(any(isinstance(x, ast.Name) and x.id == "degree" for x in ast.walk(d.value)) for d in kdefs) or any(any(isinstance(x, ast.Name) and x.id == "degree" for x in ast.walk(s.test)) for s in ksel)
    reads_disc = any(any(isinstance(x, ast.Name) and x.id == "discrepancy" for x in ast.walk(d)) for d in kdefs) or bool(ksel)
    rep.shape(crit_ok, bool(kdefs) and reads_disc and not uses_degree, "BM", alg, f"auxiliary iteration k: {'; '.join(unparse(d)[:70] for d in kdefs)}", "k maximises i - degree[i] over earlier iterations with non-zero discrepancy (Massey)", "the auxiliary iteration is chosen without comparing i - degree[i]: when an earlier discrepancy was zero the synthesised register is not the shortest one and the locator has spurious roots (wrong bits are flipped for some patterns of weight <= t)")
    n += 1
    from ..fecrules import closed_definitions

    n += closed_definitions(rep, "BM", alg, {
        "sigma": ["sigma = {-1: [field.one], 0: [field.one]}", "sigma[j + 1] = sigma[j]", "sigma[j + 1] = [fst[i] + snd[i] * coefficient for i in range(degree[j + 1] + 1)]"],
        "degree": ["degree = {-1: 0, 0: 0}", "degree[j + 1] = degree[j]", "degree[j + 1] = max(degree[j], degree[k] + j - k)"],
        "discrepancy": ["discrepancy = {-1: field.one, 0: syndrome[0]}", "discrepancy[j + 1] = syndrome[j + 1]", "discrepancy[j + 1] += sigma[j + 1][i + 1] * syndrome[j - i]"],
        "fst": ["fst = [field.zero] * (degree[j + 1] + 1)", "fst[:degree[j] + 1] = sigma[j]"],
        "snd": ["snd = [field.zero] * (degree[j + 1] + 1)", "snd[j - k:degree[k] + j - k + 1] = sigma[k]"],
        "coefficient": ["coefficient = discrepancy[j] * inv_discrepancy_k"],
        "inv_discrepancy_k": ["inv_discrepancy_k = discrepancy[k].inverse()"],
    }, "the LFSR synthesis")
    loops = [s for s in alg.body if isinstance(s, ast.For)]
    rep.expect(bool(loops) and unparse(loops[0].iter) == "range(self.t * 2 - 1)" and any(unparse(r.value) == "sigma[self.t * 2 - 1]" for r in returns_of(alg.node)), "BM", alg, "2t - 1 iterations, result sigma[2t - 1]", "all 2t syndromes consumed", "iteration count changed")
    return n + 1


def hamming_position_evaluated(sp: FuncInfo):
    """_syndrome_to_error_position tabulated (own arithmetic): for the (7,4) and (15,11) Hamming codes laid out for the
    'left', the 'right' and two index-list information sets, the syndrome H[:, j] must give position j for every j, the
    zero syndrome must give no position (n)."""
    import itertools

    from ..constfold import Unfoldable
    from ..frag import FragRaise, FragReturn, run_fragment

    count = 0
    for mu in (3, 4):
        nn = 2**mu - 1
        k = nn - mu
        rows = [list(t_) for t_ in itertools.product((0, 1), repeat=mu) if sum(t_) >= 2][:k]
        layouts = [list(range(k)), list(range(nn - k, nn)), [(3 * i + 1) % nn for i in range(k)]]
        layouts.append(sorted(layouts[2], reverse=True))
        for info in layouts:
            if len(set(info)) != k:
                continue
            par = [j for j in range(nn) if j not in info]
            H = [[0] * nn for _ in range(mu)]
            for i, pos in enumerate(info):
                for r_ in range(mu):
                    H[r_][pos] = rows[i][r_]
            for j, pos in enumerate(par):
                H[j][pos] = 1
            attrs = {"self.check_matrix": [[float(x) for x in r_] for r_ in H], "self.code_length": nn, "self._length": nn, "self._dimension": k, "self.code_dimension": k, "self._redundancy": mu, "self.redundancy": mu, "self.parity_submatrix": [[float(x) for x in r_] for r_ in rows], "self.information_set": list(info), "self._information_set": list(info), "self.parity_set": list(par), "self._parity_set": list(par), "self.mu": mu, "self._mu": mu, "self.extended": False}
            for j in list(range(nn)) + [None]:
                syn = [float(H[r_][j]) for r_ in range(mu)] if j is not None else [0.0] * mu
                try:
                    run_fragment(sp.body, {sp.params[-1]: syn}, attrs, max_steps=100000, materialise=True)
                    return None, "no value returned"
                except FragReturn as ret:
                    got = ret.value
                except (Unfoldable, FragRaise, TypeError, IndexError, ValueError) as exc:
                    return None, str(exc)
                if isinstance(got, list) and len(got) == 1:
                    got = got[0]
                if isinstance(got, float) and got == int(got):
                    got = int(got)
                want = j if j is not None else nn
                if got != want:
                    return VIOLATION, f"({nn},{k}) Hamming code with information set {info}: the syndrome {[int(x) for x in syn]} is column {j} of the published H, so a single error there must be located at position {want}; the function returns {got!r} (a clean information bit is flipped instead of the corrupted one)" if j is not None else f"({nn},{k}) Hamming code: the zero syndrome is answered with position {got!r} instead of 'no error' ({nn})"
                count += 1
    return OK, f"position j for the syndrome H[:, j], n for the zero syndrome, on {count} (code, layout, column) cases"


def bm_forward_evaluated(repo: Repo, ci):
    """BerlekampMasseyDecoder.forward (class helpers and the block-wise utility followed; field and elements modelled by
    gf2.FieldModel over GF(16); the encoder's syndrome polynomial S_i = r(alpha^i), i = 1..2t, and its message extraction
    replaced by the checker's own) evaluated on three codewords of the (15,7) BCH code with generator 0b111010001, each
    unchanged, with every single flipped bit and with 24 pairs of flipped bits: the transmitted codeword's message must
    come back (and, with return_errors=True, the flipped positions)."""
    from .. import gf2
    from ..constfold import PySeq, Unfoldable
    from ..frag import FragRaise, FragReturn, run_fragment

    fwd = repo.method(ci, "forward")
    field = gf2.FieldModel(4, 0b10011)
    alpha = gf2.FieldElem(field, 2)
    n_, k_, t_ = 15, 7, 2
    g = 0b111010001
    pw = [gf2.FieldElem(field, 1)] + [alpha ** e for e in range(1, 15)]

    def synd(r_field, *a, **kw):
        out = []
        for i in range(1, 2 * t_ + 1):
            acc = gf2.FieldElem(field, 0)
            for j, b in enumerate(r_field):
                v = b.value if isinstance(b, gf2.FieldElem) else int(round(float(b)))
                if v & 1:
                    acc = acc + pw[(i * j) % 15]
            out.append(acc)
        return PySeq(out)

    def extract(w, *a, **kw):
        if isinstance(w, list) and w and isinstance(w[0], list):
            return [list(r[n_ - k_ :]) for r in w]
        return list(w[n_ - k_ :])

    funcs = {f"self.{nm}": m.node for nm, m in ci.methods.items() if nm not in ("forward", "__init__")}
    for mi_ in repo.modules.values():
        if mi_.relpath == "kaira/models/fec/utils.py":
            funcs.update({nm: f.node for nm, f in mi_.functions.items()})
    attrs0 = {"self.code_length": n_, "self.code_dimension": k_, "self.t": t_, "self.field": field, "self.field.primitive_element()": alpha}
    ctors = {"self.encoder.calculate_syndrome_polynomial": synd, "self.encoder.extract_message": extract}
    words, wants, errs = [], [], []
    pairs = [(0, 14), (0, 1), (7, 8), (3, 11), (13, 14), (2, 9), (5, 6), (1, 12)]
    for msg in (0b1011001, 0b0000001, 0b1111111):
        cwv = gf2.pmul(msg, g)
        cw = [(cwv >> j) & 1 for j in range(n_)]
        for flips in [()] + [(j,) for j in range(n_)] + pairs:
            words.append([float(b ^ (1 if j in flips else 0)) for j, b in enumerate(cw)])
            wants.append([float(b) for b in cw[n_ - k_ :]])
            errs.append([1.0 if j in flips else 0.0 for j in range(n_)])
    for what, rec, want, err, kw in (("batch of 72 words", words, wants, errs, {}), ("batch, return_errors=True", words[:24], wants[:24], errs[:24], {"return_errors": True})):
        try:
            run_fragment(fwd.body, {"received": rec, "args": PySeq([]), "kwargs": dict(kw)}, dict(attrs0), funcs=funcs, ctors=ctors, materialise=True, max_steps=20000000, attrs_live=True)
            return None, "no value returned"
        except FragReturn as ret:
            got = ret.value
        except (Unfoldable, FragRaise, TypeError, IndexError, ValueError, KeyError, ZeroDivisionError) as exc:
            return None, f"{what}: {exc}"
        got_err = None
        if kw:
            if not (isinstance(got, list) and len(got) == 2):
                return None, "the result is not a (messages, errors) pair"
            got, got_err = got

        def num(z):
            return [num(t) for t in z] if isinstance(z, list) else float(z)

        try:
            g_, e_ = num(got), (num(got_err) if got_err is not None else None)
        except (TypeError, ValueError):
            return None, "the result is not numeric"
        if not isinstance(g_, list) or len(g_) != len(want):
            return None, "the result has another layout"
        for i_, (a_, b_) in enumerate(zip(g_, want)):
            if a_ != b_:
                flips = [j for j, v in enumerate(err[i_]) if v]
                return VIOLATION, f"a codeword of the (15,7) BCH code (t = 2) with the bits {flips or 'none'} flipped is decoded to {a_}; the transmitted message part is {b_}: an error pattern of weight <= t is not corrected"
        if e_ is not None and e_ != err:
            return VIOLATION, "with return_errors=True the reported error patterns differ from the flipped positions"
    return OK, "72 words (3 codewords x none / every single / 8 pairs of flipped bits) are decoded to the transmitted message over GF(16); error patterns reported exactly"


def zero_syndrome_test_evaluated(cl: FuncInfo):
    """The `if` of decode_block that returns the received word unchanged: its test, evaluated with syndrome vectors of field
    elements (gf2.FieldModel over GF(16)), must be true for the all-zero vector and false for every other one - also for
    vectors whose components cancel under field addition."""
    from .. import gf2
    from ..constfold import Folder, PySeq, Unfoldable

    cands = []
    for st in stmts_of(cl.body):
        if isinstance(st, ast.If) and "syndrome" in unparse(st.test) and any(isinstance(x, (ast.Continue, ast.Return)) or (isinstance(x, ast.Assign) and "extract_message" in unparse(x)) for b_ in st.body for x in ast.walk(b_)):
            cands.append(st)
    if len(cands) != 1:
        return None, f"{len(cands)} candidate tests on the syndrome"
    test = cands[0].test
    field = gf2.FieldModel(4, 0b10011)
    el = lambda v: gf2.FieldElem(field, v)  # noqa: E731
    vectors = [([0, 0, 0, 0], True), ([5, 5, 0, 0], False), ([3, 0, 0, 3], False), ([1, 2, 3, 0], False), ([0, 0, 0, 9], False), ([7, 7, 7, 7], False), ([6, 9, 15, 0], False), ([0, 4, 0, 0], False)]
    for vals, want in vectors:
        f = Folder({"syndrome": PySeq([el(v) for v in vals])}, {"self.field": field})
        try:
            got = f.fold(test)
        except (Unfoldable, TypeError) as exc:
            return None, f"test not evaluable ({exc})"
        if isinstance(got, list):
            return None, "the test is tensor-valued"
        if bool(got) != want:
            if want:
                return VIOLATION, "the all-zero syndrome is not recognised as 'no error': codewords are sent through the correction"
            return VIOLATION, f"`{unparse(test)[:70]}` holds for the non-zero syndrome {vals} (its components cancel under field addition, which is XOR): a received word with errors is returned uncorrected - e.g. a single error at position 0 has syndrome components alpha^0 = 1 in every position"
    return OK, f"true for the all-zero vector only ({len(vectors)} vectors over GF(16), including ones whose components cancel)"


def rule_hamming(repo: Repo, rep: Report) -> int:
    ci = repo.cls(HAM, "HammingCodeEncoder")
    sp = repo.method(ci, "_syndrome_to_error_position")
    body = statement_texts(sp)
    loops = [s for s in sp.body if isinstance(s, ast.For)]
    ok = "H = self.check_matrix" in body and bool(loops) and unparse(loops[0].iter) == "range(self.code_length)" and "col = H[:, j].float()" in body and any(isinstance(s, ast.If) and unparse(s.test) == "torch.equal(col, syn)" for s in stmts_of(sp.body)) and any(unparse(r.value) == "j" for r in returns_of(sp.node)) and any(unparse(r.value) == "self.code_length" for r in returns_of(sp.node))
    if not ok:
        est, edetail = hamming_position_evaluated(sp)
        if est is None:
            rep.undecided("HAMMING", sp, "error position = index j of the check-matrix column equal to the syndrome (n if none)", f"code shape not recognised and not evaluable ({edetail})")
        else:
            rep.add("HAMMING", sp, "_syndrome_to_error_position tabulated over all columns of H for left / right / index-list information sets", est, edetail, node=sp.node)
    else:
        rep.ok("HAMMING", sp, "error position = index j of the check-matrix column equal to the syndrome (n if none)", "a single error at position j has syndrome H[:, j]: the published H decides")
    inv = repo.method(ci, "inverse_encode")
    body = statement_texts(inv)
    ok = "y_reshaped[i, p] = 1 - y_reshaped[i, p]" in body and "valid_errors = error_positions < self.code_length" in body and any(b.startswith("error_positions = torch.tensor([self._syndrome_to_error_position(s) for s in syndrome_reshaped]") for b in body) and "syndrome = self.calculate_syndrome(y)" in body
    rep.expect(ok, "HAMMING", inv, "flip exactly the located bit of each row with a matching column; syndrome from the encoder's calculate_syndrome", "single-error correction by the published H", "Hamming correction changed")
    # every row whose syndrome equals a column of H is corrected: the mask of corrected rows is never narrowed
    vdefs = [s for s in ast.walk(inv.node) if isinstance(s, (ast.Assign, ast.AugAssign)) and any(isinstance(x, ast.Name) and x.id == "valid_errors" and isinstance(x.ctx, ast.Store) for t in (s.targets if isinstance(s, ast.Assign) else [s.target]) for x in ast.walk(t))]
    narrowed = [s for s in vdefs if unparse(s) != "valid_errors = error_positions < self.code_length" and ((isinstance(s, ast.Assign) and isinstance(s.value, ast.BinOp) and isinstance(s.value.op, ast.BitAnd)) or (isinstance(s, ast.AugAssign) and isinstance(s.op, ast.BitAnd)) or (isinstance(s, ast.Assign) and "logical_and" in unparse(s.value)))]
    for s in narrowed:
        rep.violation("HAMMING", inv, s, "rows whose syndrome equals a column of the check matrix are excluded from correction by an additional condition: a single error at such a position is left uncorrected (the matching column IS the single-error explanation, for the extended code as well)", node=s)
    from ..fecrules import closed_definitions

    closed_definitions(rep, "HAMMING", inv, {
        "valid_errors": ["valid_errors = error_positions < self.code_length"] + [unparse(s) for s in narrowed],
        "error_positions": ["error_positions = torch.tensor([self._syndrome_to_error_position(s) for s in syndrome_reshaped], device=y.device)"],
        "y_reshaped": ["y_reshaped = y.reshape(-1, self.code_length).clone()", "y_reshaped[i, p] = 1 - y_reshaped[i, p]"],
        "pos": ["pos = error_positions[valid_errors]"],
        "batch_indices": ["batch_indices = torch.nonzero(valid_errors, as_tuple=True)[0]"],
        "syndrome": ["syndrome = self.calculate_syndrome(y)"],
        "syndrome_reshaped": ["syndrome_reshaped = syndrome.reshape(-1, self.redundancy)"],
        "decoded": ["decoded = y_reshaped[..., self.information_set]", "decoded = decoded.reshape(*original_dims, -1)"],
    }, "the Hamming single-error correction")
    return 4


def run(repo: Repo, rep: Report, tier: str) -> None:
    # a decoder answers every word from the same tables: no method modifies a stored table entry (a coset leader, a
    # codebook row) through a local alias (rule shared with C20)
    from .c20 import rule_state_alias

    rule_state_alias(repo, rep, [repo.cls(SL, "SyndromeLookupDecoder"), repo.cls(ML, "BruteForceMLDecoder"), repo.cls(BM, "BerlekampMasseyDecoder"), repo.cls(RMD, "ReedMullerDecoder")])
    # the Reed-Muller encoder's own inverse is a complete decoder: evaluated as a whole on RM(1,3) and RM(2,4) (shared with C04)
    from .c04 import rm_inverse_cached

    rm_ = repo.func(RME, "ReedMullerCodeEncoder.inverse_encode")
    st_, d_ = rm_inverse_cached(repo)
    if st_ is not None:
        rep.add("ML", rm_, "Reed-Muller inverse_encode evaluated: every single error (t = 1) on RM(1,3); RM(2,4) words from both halves of the enumeration", st_, d_, node=rm_.node)
    else:
        rep.ok("ML", rm_, "Reed-Muller inverse_encode not evaluable as a whole", f"left to the lints and to C04's shape rules ({d_[:80]})", node=rm_.node, nontrivial=False)
    if tier == "thorough":
        ci_ = repo.cls(HAM, "HammingCodeEncoder")
        sp_ = repo.method(ci_, "_syndrome_to_error_position")
        st_, d_ = hamming_position_evaluated(sp_)
        if st_ is not None:
            rep.add("HAMMING", sp_, "_syndrome_to_error_position tabulated over all columns and four layouts (thorough tier)", st_, d_, node=sp_.node)
        ci_ = repo.cls(SL, "SyndromeLookupDecoder")
        tb_ = repo.method(ci_, "_build_syndrome_table")
        st_, d_ = syndrome_table_evaluated(ci_, tb_)
        if st_ is not None:
            rep.add("COSET-LEADER", tb_, "_build_syndrome_table evaluated on three small codes (thorough tier)", st_, d_, node=tb_.node)
    n = rule_special_cases(repo, rep)
    n += rule_syndrome_table(repo, rep)
    n += rule_ml(repo, rep)
    n += rule_bm(repo, rep)
    n += rule_hamming(repo, rep)
    # the syndrome-table and Hamming decoders key their corrections by H e^T: the check matrix the encoders derive from a
    # generator must be orthogonal to the code (rule shared with C01)
    from .c01 import rule_null_space

    n += rule_null_space(repo, rep)
    rep.floor("C02 rule instances", n, 45)
    rep.decided_clauses += [
        "no value-, length-, field- or row-index-keyed special case in any hard-decision decoder or encoder inverse",
        "syndrome table: ascending weights, exhaustive supports, first-come insertion, per-decoder table; XOR correction; encoder's extraction",
        "brute-force ML: complete codebook from the encoder, argmin Hamming distance over all codewords, message at the winning index",
        "Berlekamp-Massey: t and field from the encoder, S_1..S_2t, Chien search over all positions, exact flips, LFSR update shape",
        "Hamming inverse: position = check-matrix column equal to the syndrome",
        "the check matrix computed from a generator (compute_null_space_matrix) is orthogonal to the code on sample matrices (shared with C01)",
    ]
    rep.undecided_clauses += ["that BM/Chien, the Reed majority logic and the syndrome table correct every pattern of weight <= t (algorithmic behaviour over field values)", "Reed-Muller majority decoder (placeholder partitions)"]
