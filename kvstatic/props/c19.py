"""C19 - DeepJSCC pipelines are differentiable end to end and keep their shape contract.

Decided statically (necessary structural conditions, not gradient values):

GRAD      engine D (gradflow) on every analog channel, power constraint and the AF module: every value
          returned by forward() is connected to the signal parameter by an unbroken autograd graph
          (no .item()/.detach()/.data/float()/torch.tensor()/numpy/no_grad on the signal path), is not
          piecewise constant, and no tensor that autograd saved for the backward pass - nor the
          caller's input - is modified in place afterwards.
PIPELINE  DeepJSCCModel hands [encoder, constraint, channel, decoder] to the sequential base class and
          the sequential forward threads the result through every stage differentiably.
CONV      layer arithmetic of the bundled image encoders/decoders from their constructor literals:
          stride-2 convolutions halve every even size exactly, transposed convolutions double it,
          stride-1 layers preserve it, the number of down-sampling steps of an encoder equals the
          number of up-sampling steps of its decoder, the simple chains agree on channel counts, and the
          decoders documented to produce images in [0, 1] end in a Sigmoid.
FILTERS   calculate_num_filters_factor_image = channels * 4**layers * ratio (* 2 if complex) on a grid.
"""
from __future__ import annotations

import ast
from typing import Dict, List, Optional, Tuple

from ..astutil import ancestors, attr_chain, call_name, set_parents, stmts_of
from ..constfold import Folder, Unfoldable
from ..core import AnalysisError, ClassInfo, FuncInfo, Repo, Report, unparse
from ..gradflow import GV, analyse

EXPLANATION = (
    "Unit tests run one forward pass per model and never call backward() through a channel or a constraint. "
    "The gradient-flow analysis follows the signal parameter through every statement of every channel / "
    "constraint forward (all branches: real/complex, snr/noise-power, batched/single, pre-generated noise) and "
    "reports the exact statement that severs the autograd graph or overwrites a tensor saved for backward; "
    "the layer arithmetic covers every even image size at once instead of the single tested shape."
)

AN = "kaira/channels/analog.py"
PW = "kaira/constraints/power.py"
ANT = "kaira/constraints/antenna.py"
AF = "kaira/models/components/afmodule.py"
DJ = "kaira/models/deepjscc.py"
SEQ = "kaira/models/generic/sequential.py"
UT = "kaira/utils/__init__.py"
IMG = "kaira/models/image/"

# (file, class or None, function, signal parameter)
GRAD_TARGETS: List[Tuple[str, Optional[str], str, str]] = [
    (AN, None, "_apply_noise", "x"),
    (AN, "AWGNChannel", "forward", "x"),
    (AN, "LaplacianChannel", "forward", "x"),
    (AN, "PhaseNoiseChannel", "forward", "x"),
    (AN, "FlatFadingChannel", "forward", "x"),
    (AN, "RayleighFadingChannel", "forward", "x"),
    (AN, "RicianFadingChannel", "forward", "x"),
    (AN, "LogNormalFadingChannel", "forward", "x"),
    (AN, "NonlinearChannel", "forward", "x"),
    (PW, "TotalPowerConstraint", "forward", "x"),
    (PW, "AveragePowerConstraint", "forward", "x"),
    (PW, "PAPRConstraint", "forward", "x"),
    (ANT, "PerAntennaPowerConstraint", "forward", "x"),
    (AF, "AFModule", "forward", "x"),
    (SEQ, "SequentialModel", "forward", "input_data"),
]


def rule_grad(repo: Repo, rep: Report) -> int:
    n = 0
    done = set()
    for file, cname, fname, sig in GRAD_TARGETS:
        if cname is None:
            ci = None
            fi = repo.func(file, fname)
        else:
            ci = repo.cls(file, cname)
            fi = ci.find_method(fname)
            if fi is None:
                raise AnalysisError(f"{cname}.{fname} not found")
        key = (fi.where(), cname if fi.cls is not ci else None)
        tag = f"{cname or ''}{'.' if cname else ''}{fname}"
        v = analyse(repo, fi, ci, sig)
        if not v.returns:
            rep.undecided("GRAD", fi, f"{tag}: no return reached", "the analysis found no return statement")
            continue
        n += 1
        inherited = ci is not None and fi.cls is not None and fi.cls.name != ci.name
        prefix = f"[as {cname}] " if inherited else ""
        for node, val, guarded in v.returns:
            c = f"{prefix}return {unparse(node.value)[:70] if node.value is not None else ''}"
            if val.kind == "D":
                rep.ok("GRAD", fi, c, f"connected to `{sig}` by an unbroken autograd graph", node=node)
            elif val.kind == "B":
                rep.violation("GRAD", fi, c, f"the returned value depends on `{sig}` through a severed graph ({val.why}): the gradient that reaches the input misses this dependence", node=node)
            elif val.kind == "M":
                rep.violation("GRAD", fi, c, f"the returned value is piecewise constant in `{sig}`: no gradient reaches the encoder", node=node)
            elif val.kind == "K" and guarded:
                rep.ok("GRAD", fi, c, "input-independent fallback under a signal-dependent guard (degenerate input)", node=node, nontrivial=False)
            else:
                rep.violation("GRAD", fi, c, f"the returned value does not depend on `{sig}` ({val.show()})", node=node)
        for node, how, site, f in v.conflicts:
            if site is None:
                rep.violation("GRAD", f, f"{prefix}{unparse(node)[:80]}", f"{how} writes into the storage of the input `{sig}`: the caller's tensor (an encoder output saved for backward, or a leaf) is modified in place", node=node)
            else:
                rep.violation("GRAD", f, f"{prefix}{unparse(node)[:80]}", f"{how} modifies a tensor that `{unparse(site)[:60]}` (line {getattr(site, 'lineno', '?')}) saved for the backward pass: backward() raises 'modified by an inplace operation'", node=node)
        # .view() of the incoming tensor (or of a plain second name for it) needs a contiguous layout: a permuted or
        # channels_last latent raises RuntimeError in forward, and no gradient reaches the encoder; reshape copies when needed
        in_names = {sig.split(".")[0].split("[")[0]}
        for st_ in ast.walk(fi.node):
            if isinstance(st_, ast.Assign) and len(st_.targets) == 1 and isinstance(st_.targets[0], ast.Name) and isinstance(st_.value, ast.Name) and st_.value.id in in_names:
                in_names.add(st_.targets[0].id)
        for c_ in ast.walk(fi.node):
            if isinstance(c_, ast.Call) and isinstance(c_.func, ast.Attribute) and c_.func.attr == "view" and isinstance(c_.func.value, ast.Name) and c_.func.value.id in in_names and c_.args and not (len(c_.args) == 1 and isinstance(c_.args[0], ast.Attribute) and unparse(c_.args[0]).startswith("torch.")):
                if id(c_) in done:
                    continue
                done.add(id(c_))
                rep.violation("GRAD", fi, f"{prefix}{unparse(c_)[:80]}", f"`.view(...)` of the incoming tensor `{c_.func.value.id}` requires a contiguous layout: for a permuted / channels_last / transposed latent forward raises RuntimeError, so the pipeline is not differentiable for that input (reshape returns a view when it can and copies when it must)", node=c_)
        for node, f in v.narrowing:
            rep.violation("GRAD", f, f"{prefix}{unparse(node)[:80]}", "the signal itself is cast to a fixed single-precision dtype: a float64 / complex128 input is rounded to float32 on the way, the output has another precision than the input, and the gradient no longer matches finite differences taken in the input's precision", node=node)
        for node, f in v.unguarded_div:
            rep.violation("GRAD", f, f"{prefix}{unparse(node)[:80]}", f"a signal-derived value is divided by a signal-derived quantity that is not bounded away from zero (`{unparse(node.right)[:50]}`): where it vanishes (zero samples, zero power) the quotient is 0/0 = NaN, and through torch.where / a zero factor the NaN reaches the input gradient even when the forward value is unaffected", node=node)
        for node, how in v.benign_inplace:
            if (id(node)) in done:
                continue
            done.add(id(node))
            rep.ok("GRAD", fi, f"{prefix}{unparse(node)[:80]}", f"{how}: the written tensor is neither the input nor saved for backward by any op feeding the result", node=node, nontrivial=False)
    rep.floor("GRAD entry points", n, 15)
    return n


def rule_root_at_zero(repo: Repo, rep: Report) -> int:
    """The power constraints treat an all-zero batch item explicitly (zero_mask / torch.where), so such items are inside their
    inputs.  A square root taken of the item's power *before* any positive offset has an infinite derivative there; the
    backward pass multiplies it by the zero gradient coming through torch.where (which does not protect the unselected
    arm) and every element of that item gets a NaN gradient.  sqrt(c / (P + eps)) is fine, c / (sqrt(P) + eps) is not."""
    from ..astutil import Inliner

    n = 0

    defs_holder: Dict[str, list] = {}

    def may_vanish(e: ast.AST, depth=0) -> bool:
        if isinstance(e, ast.Name) and depth < 6 and e.id in defs_holder:
            return any(may_vanish(d_, depth + 1) for d_ in defs_holder[e.id])
        if isinstance(e, ast.BinOp) and isinstance(e.op, ast.Add):
            # a positive literal / eps offset bounds the value away from zero
            for side in (e.left, e.right):
                if isinstance(side, ast.Constant) and isinstance(side.value, (int, float)) and side.value > 0:
                    return False
                if isinstance(side, ast.Name) and "eps" in side.id.lower():
                    return False
            return may_vanish(e.left, depth + 1) and may_vanish(e.right, depth + 1)
        if isinstance(e, ast.BinOp) and isinstance(e.op, ast.Div):
            return may_vanish(e.left, depth + 1)
        if isinstance(e, ast.BinOp) and isinstance(e.op, ast.Mult):
            return may_vanish(e.left, depth + 1) or may_vanish(e.right, depth + 1)
        if isinstance(e, ast.BinOp) and isinstance(e.op, ast.Pow):
            return any(isinstance(x, ast.Name) and x.id in ("x", "x_reshaped", "x_flat") for x in ast.walk(e.left)) or may_vanish(e.left, depth + 1)
        if isinstance(e, ast.Call):
            short = (call_name(e) or "").split(".")[-1]
            if short in ("clamp", "clip", "clamp_min") and (any(k.arg == "min" for k in e.keywords) or len(e.args) >= 2):
                return False
            if short in ("sum", "mean", "abs", "square", "norm", "real"):
                args = list(e.args) + ([e.func.value] if isinstance(e.func, ast.Attribute) and not (call_name(e) or "").startswith("torch.") else [])
                return any(may_vanish(a, depth + 1) or any(isinstance(x, ast.Name) and x.id in ("x", "x_reshaped", "x_flat") for x in ast.walk(a)) for a in args)
        return False

    for file, cname in ((PW, "TotalPowerConstraint"), (PW, "AveragePowerConstraint")):
        ci = repo.cls(file, cname)
        for mname in ("forward", "_apply_constraint_to_single_item"):
            fi = ci.methods.get(mname)
            if fi is None:
                continue
            handles_zero = any(isinstance(x, ast.Name) and x.id == "zero_mask" for x in ast.walk(fi.node)) or any(isinstance(c, ast.Compare) and isinstance(c.ops[0], ast.Lt) and isinstance(c.comparators[0], ast.Constant) and isinstance(c.comparators[0].value, float) and c.comparators[0].value < 1e-6 for c in ast.walk(fi.node))
            if not handles_zero:
                continue
            inl = Inliner(fi)
            defs_holder.clear()
            for s_ in ast.walk(fi.node):
                if isinstance(s_, ast.Assign) and len(s_.targets) == 1 and isinstance(s_.targets[0], ast.Name) and s_.targets[0].id not in ("x", "x_reshaped"):
                    defs_holder.setdefault(s_.targets[0].id, []).append(s_.value)
            for c in ast.walk(fi.node):
                root = None
                if isinstance(c, ast.Call) and (call_name(c) or "").split(".")[-1] in ("sqrt", "rsqrt") and (c.args or isinstance(c.func, ast.Attribute)):
                    root = c.args[0] if c.args else c.func.value
                elif isinstance(c, ast.BinOp) and isinstance(c.op, ast.Pow) and isinstance(c.right, ast.Constant) and c.right.value in (0.5, -0.5):
                    root = c.left
                if root is None:
                    continue
                n += 1
                arg = inl.inline(root)
                if may_vanish(arg):
                    rep.violation("GRAD", fi, f"{cname}.{mname}: {unparse(c)[:70]}", f"the root is taken of `{unparse(arg)[:60]}`, which is exactly 0 for an all-zero batch item (a case this method handles explicitly): its derivative is infinite there, and 0 * inf in the backward pass gives NaN gradients for every element of that item (torch.where does not shield the unselected arm) - put the offset inside the root: sqrt(c / (P + eps))", node=c)
                else:
                    rep.ok("GRAD", fi, f"{cname}.{mname}: {unparse(c)[:70]}", "the argument of the root is bounded away from zero (or independent of the signal)", node=c, nontrivial=False)
    return n


def rule_where_guard(repo: Repo, rep: Report) -> int:
    """`torch.where(q > 0, f(q), c)` does not protect the backward pass: the arm that is not selected is still differentiated,
    and where f has a singularity (a division by q, a root, a logarithm or a negative power of q) its derivative is infinite
    at q = 0, 0 * inf = NaN, and every parameter upstream gets a NaN gradient.  Constraints and channels sit between encoder
    and decoder, and an exactly-zero stream (a switched-off antenna, zero padding, a dead filter) is an ordinary input."""
    from ..astutil import Inliner

    n = 0
    mods = [mi for mi in repo.modules.values() if mi.relpath.startswith("kaira/constraints/") or mi.relpath == "kaira/channels/analog.py"]
    for mi in mods:
        funcs = list(mi.functions.values()) + [m_ for c_ in mi.classes.values() for m_ in c_.methods.values()]
        for fi in funcs:
            wheres = [c for c in ast.walk(fi.node) if isinstance(c, ast.Call) and (call_name(c) or "") == "torch.where" and len(c.args) == 3]
            if not wheres:
                continue
            inl = Inliner(fi)
            for w in wheres:
                try:
                    cond, arm_t, arm_f = inl.inline(w.args[0]), inl.inline(w.args[1]), inl.inline(w.args[2])
                except Exception:
                    continue
                # guarded quantity: q in `q > 0`, `q != 0`, `q > eps`, `q >= eps` (and the arm selected where it holds)
                guards = []
                for cmp_ in ast.walk(cond):
                    if isinstance(cmp_, ast.Compare) and len(cmp_.ops) == 1 and isinstance(cmp_.comparators[0], (ast.Constant, ast.Name)):
                        rhs = cmp_.comparators[0]
                        small = (isinstance(rhs, ast.Constant) and isinstance(rhs.value, (int, float)) and not isinstance(rhs.value, bool) and 0 <= rhs.value <= 1e-3) or (isinstance(rhs, ast.Name) and "eps" in rhs.id.lower())
                        if small and isinstance(cmp_.ops[0], (ast.Gt, ast.GtE, ast.NotEq)):
                            guards.append((unparse(cmp_.left), arm_t))
                        elif small and isinstance(cmp_.ops[0], (ast.Lt, ast.LtE, ast.Eq)):
                            guards.append((unparse(cmp_.left), arm_f))
                for q, arm in guards:
                    hit = None
                    for x in ast.walk(arm):
                        if isinstance(x, ast.BinOp) and isinstance(x.op, ast.Div) and unparse(x.right) == q:
                            hit = x
                        elif isinstance(x, ast.Call) and (call_name(x) or unparse(x.func)).split(".")[-1] in ("sqrt", "rsqrt", "log", "log2", "log10", "reciprocal") and (q in unparse(x)):
                            inner = x.args[0] if x.args else (x.func.value if isinstance(x.func, ast.Attribute) else None)
                            if inner is not None and not any(isinstance(b, ast.BinOp) and isinstance(b.op, ast.Add) and any(isinstance(o, ast.Constant) and isinstance(o.value, (int, float)) and o.value > 0 for o in (b.left, b.right)) for b in ast.walk(inner)):
                                hit = x
                        elif isinstance(x, ast.BinOp) and isinstance(x.op, ast.Pow) and unparse(x.left) == q and isinstance(x.right, (ast.Constant, ast.UnaryOp)) and unparse(x.right).startswith("-"):
                            hit = x
                        if hit is not None:
                            break
                    n += 1
                    if hit is not None:
                        rep.violation("GRAD", fi, f"{fi.name}: {unparse(w)[:80]}", f"`{unparse(hit)[:60]}` is singular where `{q}` is 0, and `torch.where` only masks the VALUE there: the unselected arm is still differentiated, its derivative is infinite, and 0 * inf = NaN reaches every parameter upstream whenever a stream is exactly zero (keep the offset inside: `/ ({q} + eps)`)", node=w)
                        break
                    rep.ok("GRAD", fi, f"{fi.name}: {unparse(w)[:80]}", f"the arm selected where `{q}` is positive has no singularity at 0", node=w, nontrivial=False)
    return n


def rule_shared_flags(repo: Repo, rep: Report) -> int:
    """Multi-user image models choose `self.<parts>[0]` (one shared module) or `self.<parts>[i]` (one per device) by the flag
    `self.shared_<part>`; selecting the encoders by the decoders' flag (or vice versa) sends every device through module 0
    whenever the two flags differ, and the other modules' parameters never receive a gradient (`grad is None`)."""
    n = 0
    mi = repo.module(IMG + "yilmaz2023_deepjscc_noma.py")
    for ci in mi.classes.values():
        for m, fi in ci.methods.items():
            for x in ast.walk(fi.node):
                if not isinstance(x, ast.IfExp):
                    continue
                b, o = x.body, x.orelse
                if not (isinstance(b, ast.Subscript) and isinstance(o, ast.Subscript) and attr_chain(b.value) == attr_chain(o.value) and (attr_chain(b.value) or "").startswith("self.")):
                    continue
                lst = attr_chain(b.value)[5:]
                if not lst.endswith("s"):
                    continue
                flags = [attr_chain(a) for a in ast.walk(x.test) if isinstance(a, ast.Attribute) and (attr_chain(a) or "").startswith("self.shared_")]
                if not flags:
                    continue
                n += 1
                want = f"self.shared_{lst[:-1]}"
                if flags == [want] and isinstance(b.slice, ast.Constant) and b.slice.value == 0:
                    rep.ok("CONV", fi, f"{ci.name}.{m}: {unparse(x)}", f"module 0 of `{lst}` for every device iff {want}", node=x, nontrivial=False)
                elif want not in flags:
                    rep.violation("CONV", fi, f"{ci.name}.{m}: {unparse(x)}", f"`self.{lst}` is selected by `{flags[0]}` instead of `{want}`: when the two flags differ every device goes through `self.{lst}[0]`, the per-device modules are never applied and their parameters get no gradient (`grad is None`)", node=x)
                else:
                    rep.undecided("CONV", fi, f"{ci.name}.{m}: {unparse(x)}", "selection shape not recognised", node=x)
    rep.floor("shared / per-device module selections", n, 2)
    return n


def rule_pipeline(repo: Repo, rep: Report) -> int:
    from .c17 import rule_stage_lists

    return rule_stage_lists(repo, rep, only=("DeepJSCCModel",), rule="PIPELINE")


# ---------------------------------------------------------------------------
# CONV
# ---------------------------------------------------------------------------
SAME_BLOCKS = {"ResidualBlock", "AttentionBlock", "GDN", "AFModule", "PReLU", "Sigmoid", "ReLU", "LeakyReLU", "Tanh", "BatchNorm2d", "Identity", "GELU"}


class Layer:
    def __init__(self, node: ast.Call, kind: str, factor: str, cin: Optional[str], cout: Optional[str], detail: str, ok: Optional[bool], act: Optional[str] = None):
        self.node, self.kind, self.factor, self.cin, self.cout, self.detail, self.ok, self.act = node, kind, factor, cin, cout, detail, ok, act


def _arg(call: ast.Call, pos: int, names: Tuple[str, ...], default=None):
    for k in call.keywords:
        if k.arg in names:
            return k.value
    if pos is not None and len(call.args) > pos:
        return call.args[pos]
    return default


def _int(e) -> Optional[int]:
    if e is None:
        return None
    try:
        v = Folder().fold(e)
    except Unfoldable:
        return None
    if isinstance(v, (list, tuple)):
        return v[0] if len(set(v)) == 1 and isinstance(v[0], int) else None
    return v if isinstance(v, int) else None


def _txt(e) -> Optional[str]:
    return None if e is None else unparse(e).replace(" ", "")


def conv_spec(call: ast.Call, short: str) -> Layer:
    """nn.Conv2d / nn.ConvTranspose2d with literal geometry."""
    cin, cout = _txt(_arg(call, 0, ("in_channels",))), _txt(_arg(call, 1, ("out_channels",)))
    k = _int(_arg(call, 2, ("kernel_size",)))
    s = _int(_arg(call, 3, ("stride",), ast.Constant(1)))
    p = _int(_arg(call, 4, ("padding",), ast.Constant(0)))
    d = _int(_arg(call, 7 if short == "Conv2d" else 8, ("dilation",), ast.Constant(1)))
    if short == "Conv2d":
        if None in (k, s, p, d) or d != 1:
            return Layer(call, "conv", "?", cin, cout, "geometry is not literal", None)
        # out = floor((H + 2p - k)/s) + 1
        if s == 1:
            ok = 2 * p == k - 1
            return Layer(call, "conv", "same", cin, cout, f"k={k} s=1 p={p}: H -> H + {2 * p - k + 1}", ok)
        if s == 2:
            ok = (k - 2 * p) in (1, 2)
            return Layer(call, "conv", "down", cin, cout, f"k={k} s=2 p={p}: even H -> floor((H + {2 * p - k})/2) + 1" + (" = H/2" if ok else " != H/2"), ok)
        return Layer(call, "conv", "?", cin, cout, f"stride {s} is outside the summarised cases", None)
    op = _int(_arg(call, 5, ("output_padding",), ast.Constant(0)))
    if None in (k, s, p, op, d) or d != 1:
        return Layer(call, "tconv", "?", cin, cout, "geometry is not literal", None)
    # out = (H-1)s - 2p + k + op
    extra = k - 2 * p + op - s
    if s == 1:
        return Layer(call, "tconv", "same", cin, cout, f"k={k} s=1 p={p} op={op}: H -> H + {extra}", extra == 0)
    if s == 2:
        return Layer(call, "tconv", "up", cin, cout, f"k={k} s=2 p={p} op={op}: H -> 2H + {extra}", extra == 0)
    return Layer(call, "tconv", "?", cin, cout, f"stride {s} is outside the summarised cases", None)


def resolve_layer(repo: Repo, mod, call: ast.Call, depth: int = 0) -> Optional[Layer]:
    name = call_name(call) or ""
    short = name.split(".")[-1]
    if short in ("Conv2d", "ConvTranspose2d"):
        return conv_spec(call, short)
    if short == "ResidualBlockWithStride":
        s = _int(_arg(call, 2, ("stride",), ast.Constant(2)))
        return Layer(call, "block", "down" if s == 2 else ("same" if s == 1 else "?"), _txt(_arg(call, 0, ("in_ch",))), _txt(_arg(call, 1, ("out_ch",))), f"compressai strided residual block, stride={s}", True if s in (1, 2) else None)
    if short == "ResidualBlockUpsample":
        s = _int(_arg(call, 2, ("upsample",), ast.Constant(2)))
        return Layer(call, "block", "up" if s == 2 else ("same" if s == 1 else "?"), _txt(_arg(call, 0, ("in_ch",))), _txt(_arg(call, 1, ("out_ch",))), f"compressai sub-pixel upsampling block, upsample={s}", True if s in (1, 2) else None)
    if short == "ResidualBlock":
        return Layer(call, "block", "same", _txt(_arg(call, 0, ("in_ch",))), _txt(_arg(call, 1, ("out_ch",))), "size-preserving residual block", True)
    if short in ("AttentionBlock", "GDN"):
        c = _txt(_arg(call, 0, ("N", "in_channels")))
        return Layer(call, "block", "same", c, c, f"size-preserving {short}", True)
    if short == "AFModule":
        c = _txt(_arg(call, 0, ("N",)))
        return Layer(call, "af", "same", c, c, "size-preserving attention-feature module", True)
    if short in SAME_BLOCKS:
        return Layer(call, "act", "same", None, None, f"pointwise {short}", True, act=short)
    # a wrapper class of the same module: one conv built from its constructor parameters
    if depth < 2 and name and "." not in name:
        try:
            tgt = repo.resolve_name(mod, name)
        except Exception:
            tgt = None
        if isinstance(tgt, ClassInfo):
            init = tgt.find_method("__init__")
            if init is None:
                return None
            convs = [c for c in ast.walk(init.node) if isinstance(c, ast.Call) and (call_name(c) or "").split(".")[-1] in ("Conv2d", "ConvTranspose2d")]
            if len(convs) != 1:
                return None
            inner = convs[0]
            # bind the wrapper's parameters from the call site
            params = [a.arg for a in init.node.args.args][1:]
            defaults = dict(zip(reversed(params), reversed(init.node.args.defaults)))
            bound: Dict[str, ast.AST] = {}
            for p_, a_ in zip(params, call.args):
                bound[p_] = a_
            for k_ in call.keywords:
                if k_.arg:
                    bound[k_.arg] = k_.value
            for p_ in params:
                if p_ not in bound and p_ in defaults:
                    bound[p_] = defaults[p_]

            class Sub(ast.NodeTransformer):
                def visit_Name(self, n):
                    return bound.get(n.id, n)

            import copy

            inner2 = Sub().visit(copy.deepcopy(inner))
            lay = resolve_layer(repo, tgt.module, inner2, depth + 1)
            if lay is None:
                return None
            lay.node = call
            # activation chosen by the wrapper: `activate` argument or its default
            act = bound.get("activate")
            if act is not None and isinstance(act, ast.Call):
                lay.act = (call_name(act) or "").split(".")[-1]
            else:
                acts = [c for c in ast.walk(init.node) if isinstance(c, ast.Call) and (call_name(c) or "").split(".")[-1] in SAME_BLOCKS]
                lay.act = (call_name(acts[0]) or "").split(".")[-1] if acts else None
            return lay
    return None


def layer_lists(ci: ClassInfo) -> Dict[str, Tuple[FuncInfo, List[ast.Call]]]:
    """self.<attr> = nn.ModuleList([...]) / nn.Sequential(...) in the class's own or inherited __init__."""
    out: Dict[str, Tuple[FuncInfo, List[ast.Call]]] = {}
    for c in ci.mro():
        init = c.methods.get("__init__")
        if init is None:
            continue
        _collect_lists(init, out)
        if out:
            break
    return out


def _collect_lists(init: FuncInfo, out: Dict[str, Tuple[FuncInfo, List[ast.Call]]]) -> None:
    for st in stmts_of(init.body):
        if not (isinstance(st, ast.Assign) and len(st.targets) == 1 and isinstance(st.value, ast.Call)):
            continue
        ch = attr_chain(st.targets[0])
        if not ch or not ch.startswith("self."):
            continue
        short = (call_name(st.value) or "").split(".")[-1]
        if short == "ModuleList" and st.value.args and isinstance(st.value.args[0], (ast.List, ast.Tuple)):
            elts = st.value.args[0].elts
        elif short == "Sequential":
            elts = st.value.args
        else:
            continue
        if all(isinstance(e, ast.Call) for e in elts) and elts:
            out[ch[5:]] = (init, list(elts))


SIMPLE_CHAINS = ("Bourtsoulatze2019DeepJSCC", "DeepJSCCFeedback", "Tung2022DeepJSCCQ")  # plain chains without side-information concatenation
SIGMOID_DECODERS = ("Bourtsoulatze2019DeepJSCCDecoder", "DeepJSCCFeedbackDecoder")


def _every_iteration_calls(loop: ast.For) -> bool:
    """Every path through one iteration of `for layer in self.<list>` calls the loop variable (the layer)."""
    tgt = loop.target
    if isinstance(tgt, ast.Tuple) and tgt.elts:
        tgt = tgt.elts[-1]
    if not isinstance(tgt, ast.Name):
        return True  # not the plain layer loop this rule is about
    var = tgt.id

    def calls(node) -> bool:
        return any(isinstance(c, ast.Call) and isinstance(c.func, ast.Name) and c.func.id == var for c in ast.walk(node))

    def may_exit(st) -> bool:
        return any(isinstance(x, (ast.Continue, ast.Break, ast.Return)) for x in ast.walk(st))

    def must(stmts) -> bool:
        for st in stmts:
            if isinstance(st, ast.If):
                if must(st.body) and st.orelse and must(st.orelse):
                    return True
                if may_exit(st):
                    return False
                continue
            if isinstance(st, (ast.For, ast.While, ast.Try, ast.With)):
                if may_exit(st):
                    return False
                continue
            if calls(st):
                return True
            if may_exit(st):
                return False
        return False

    if not calls(loop):
        return True  # the loop does not apply the layers at all (e.g. it collects them): other rules apply
    return must(loop.body)


def rule_conv(repo: Repo, rep: Report) -> int:
    n = 0
    files = ["bourtsoulatze2019_deepjscc.py", "tung2022_deepjscc_q.py", "kurka2020_deepjscc_feedback.py", "yilmaz2023_deepjscc_noma.py", "yilmaz2024_deepjscc_wz.py"]
    classes: Dict[str, ClassInfo] = {}
    for f in files:
        mod = repo.module(IMG + f)
        for cname, ci in mod.classes.items():
            if cname.endswith(("Encoder", "Decoder")):
                classes[cname] = ci
    counts: Dict[str, Dict[str, Tuple[int, int]]] = {}
    inherited: Dict[str, str] = {}
    n_layers = 0
    for cname, ci in sorted(classes.items()):
        lists = layer_lists(ci)
        if not lists:
            rep.undecided("CONV", ci, f"{cname}: layer list", "no nn.ModuleList([...]) / nn.Sequential(...) of constructor calls found")
            continue
        counts[cname] = {}
        owner = next(iter(lists.values()))[0].cls
        if owner is not None and owner.name != cname and owner.name in classes:
            rep.ok("CONV", ci, f"{cname} inherits its layer lists from {owner.name}", "analysed there", nontrivial=False)
            inherited[cname] = owner.name
            continue
        for attr, (init, elts) in lists.items():
            downs = ups = 0
            chain_ok = True
            prev_out: Optional[str] = None
            last_act = None
            unknown = False
            cur_ch: Optional[str] = None  # channel count (as written) the running tensor has, where known
            fwd_ = ci.find_method("forward")
            # lists whose forward concatenates side information between the layers are no plain chains
            plain_chain = fwd_ is not None and not any(isinstance(c_, ast.Call) and (call_name(c_) or "").split(".")[-1] in ("cat", "concat", "concatenate", "stack", "hstack") for c_ in ast.walk(fwd_.node))
            for e in elts:
                lay = resolve_layer(repo, init.module, e)
                if lay is None:
                    rep.undecided("CONV", init, f"{cname}.{attr}: {unparse(e)[:70]}", "layer type is not summarised", node=e)
                    unknown = True
                    cur_ch = None
                    continue
                # a channel-wise modulation module (AFModule) is built for the channel count of the tensor it receives: with
                # another width it silently pads / trims its mask, and part of its weights never gets a gradient
                if plain_chain and lay.kind == "af" and lay.cin is not None and cur_ch is not None and lay.cin != cur_ch:
                    rep.violation("CONV", init, f"{cname}.{attr}: {unparse(e)[:70]}", f"built for {lay.cin} channels but the layer before it produces {cur_ch}: the module pads / trims its channel mask silently, the shapes still fit, and the weights belonging to the surplus channels never receive a gradient", node=e)
                if lay.kind in ("block", "conv", "tconv") and lay.cout is not None:
                    cur_ch = lay.cout
                elif lay.kind not in ("af", "act"):
                    cur_ch = None
                n_layers += 1
                if lay.ok is None:
                    rep.undecided("CONV", init, f"{cname}.{attr}: {unparse(e)[:70]}", lay.detail, node=e)
                    unknown = True
                elif lay.ok is False:
                    want = {"down": "halve every even size exactly", "up": "double the size exactly", "same": "preserve the size"}.get(lay.factor, "")
                    rep.violation("CONV", init, f"{cname}.{attr}: {unparse(e)[:70]}", f"{lay.detail}; the layer must {want} so that the decoder returns a tensor of the input's shape for every admissible size", node=e)
                if lay.factor == "down":
                    downs += 1
                elif lay.factor == "up":
                    ups += 1
                if cname.startswith(SIMPLE_CHAINS) and not cname.startswith("Tung2022DeepJSCCQ2") and lay.cin is not None and lay.kind in ("conv", "tconv", "block"):
                    if prev_out is not None and lay.cin != prev_out:
                        chain_ok = False
                        rep.violation("CONV", init, f"{cname}.{attr}: {unparse(e)[:70]}", f"expects {lay.cin} input channels but the previous layer produces {prev_out}", node=e)
                    prev_out = lay.cout
                if lay.kind in ("conv", "tconv"):
                    last_act = lay.act
                elif lay.kind == "act":
                    last_act = lay.act
                elif lay.kind in ("block", "af"):
                    last_act = None
            counts[cname][attr] = (downs, ups)
            if not unknown:
                rep.ok("CONV", init, f"{cname}.{attr}: {len(elts)} layers, {downs} down / {ups} up", "every layer's size map is exact for even sizes" + ("; channel chain consistent" if chain_ok and cname.startswith(SIMPLE_CHAINS) and not cname.startswith("Tung2022DeepJSCCQ2") else ""), node=elts[0])
                n += 1
            if cname in SIGMOID_DECODERS and not unknown:
                rep.check(last_act == "Sigmoid", "CONV", init, f"{cname}.{attr}: final activation {last_act}", "output range [0, 1] as documented", "the documented output range [0, 1] needs a final Sigmoid", node=elts[-1])
                n += 1
    rep.floor("CONV layers summarised", n_layers, 150)
    for cname, owner in inherited.items():
        counts[cname] = counts.get(owner, {})
    # encoder / decoder balance
    for cname in sorted(counts):
        if not cname.endswith("Encoder"):
            continue
        dname = cname[: -len("Encoder")] + "Decoder"
        if dname not in counts or not counts[cname] or not counts[dname]:
            continue
        enc_main = next(iter(counts[cname].items()))
        dec_main = next(iter(counts[dname].items()))
        d_e, u_e = enc_main[1]
        d_d, u_d = dec_main[1]
        rep.check(d_e - u_e == u_d - d_d and d_e > 0, "CONV", classes[cname], f"{cname}.{enc_main[0]} reduces by 2^{d_e - u_e}, {dname}.{dec_main[0]} restores 2^{u_d - d_d}", "decoder restores the input size", "the decoder does not undo the encoder's down-sampling: the reconstruction has a different shape than the image")
        n += 1
        # side encoders inside a decoder/encoder (g_a2, g_a3) must down-sample like the main one where they meet the latent
        for attr, (dd, uu) in list(counts[cname].items())[1:]:
            rep.check(uu == 0 and dd in (d_e, d_e - 1), "CONV", classes[cname], f"{cname}.{attr}: {dd} down-sampling steps next to {enc_main[0]} with {d_e}", "auxiliary branch follows the main branch's resolution", "auxiliary branch resolution does not follow the main branch")
            n += 1
    # ModuleList forwards iterate the list itself, in order
    for cname, ci in sorted(classes.items()):
        fwd = ci.find_method("forward")
        if fwd is None:
            continue
        for attr in counts.get(cname, {}):
            loops = [l for l in ast.walk(fwd.node) if isinstance(l, ast.For) and attr_chain(l.iter) == f"self.{attr}"]
            enum = [l for l in ast.walk(fwd.node) if isinstance(l, ast.For) and isinstance(l.iter, ast.Call) and call_name(l.iter) == "enumerate" and l.iter.args and attr_chain(l.iter.args[0]) == f"self.{attr}"]
            direct = [c for c in ast.walk(fwd.node) if isinstance(c, ast.Call) and attr_chain(c.func) == f"self.{attr}"]
            rev = [c for c in ast.walk(fwd.node) if isinstance(c, ast.Call) and call_name(c) in ("reversed",) and c.args and attr_chain(c.args[0]) == f"self.{attr}"]
            skipping = [l for l in loops + enum if not _every_iteration_calls(l)]
            if rev:
                rep.violation("CONV", fwd, f"{cname}.forward: reversed(self.{attr})", "the layers are applied in reverse of the declared order", node=rev[0])
                n += 1
            elif skipping:
                l = skipping[0]
                rep.violation("CONV", fwd, f"{cname}.forward: for {unparse(l.target)} in {unparse(l.iter)}: a path through the body does not call the layer", "a declared layer can be skipped (continue / break / a conditional without a call on the other arm): for the inputs that take that path its parameters receive no gradient (grad is None) and the published architecture is not the one applied", node=l)
                n += 1
            elif loops or enum or direct:
                rep.ok("CONV", fwd, f"{cname}.forward applies self.{attr} in declared order", "for-loop over the list / direct call", node=(loops or enum or direct)[0], nontrivial=False)
    return n


# ---------------------------------------------------------------------------
# FILTERS
# ---------------------------------------------------------------------------

def _eval_fn(fi: FuncInfo, point: Dict[str, object]):
    names: Dict[str, object] = dict(point)

    def run(body):
        for st in body:
            if isinstance(st, ast.Expr):
                continue
            if isinstance(st, ast.Assert):
                continue
            if isinstance(st, ast.Assign) and len(st.targets) == 1 and isinstance(st.targets[0], ast.Name):
                names[st.targets[0].id] = Folder(names).fold(st.value)
            elif isinstance(st, ast.AugAssign) and isinstance(st.target, ast.Name):
                names[st.target.id] = Folder(names).fold(ast.BinOp(left=ast.Name(id=st.target.id, ctx=ast.Load()), op=st.op, right=st.value))
            elif isinstance(st, ast.If):
                t = st.test
                neg = isinstance(t, ast.UnaryOp) and isinstance(t.op, ast.Not)
                key = t.operand if neg else t
                if isinstance(key, ast.Name) and isinstance(names.get(key.id), bool):
                    truth = names[key.id] ^ neg
                    r = run(st.body if truth else st.orelse)
                    if r is not None:
                        return r
                else:
                    raise Unfoldable(f"condition {unparse(t)}")
            elif isinstance(st, ast.Return):
                return ("ret", Folder(names).fold(st.value))
            else:
                raise Unfoldable(f"statement {type(st).__name__}")
        return None

    r = run(fi.body)
    if r is None:
        raise Unfoldable("no return")
    return r[1]


def rule_filters(repo: Repo, rep: Report) -> int:
    fi = repo.func(UT, "calculate_num_filters_factor_image")
    grid = [{"num_strided_layers": L, "bw_ratio": r, "channels": c, "is_complex_transmission": cx} for L in (1, 2, 3, 4) for r in (1 / 6, 1 / 12, 1 / 3, 0.25) for c in (1, 3) for cx in (False, True)]
    bad = None
    try:
        for p in grid:
            want = p["channels"] * 4 ** p["num_strided_layers"] * p["bw_ratio"] * (2 if p["is_complex_transmission"] else 1)
            if abs(want - round(want)) > 1e-9:
                continue  # outside the function's domain (it asserts an integer filter count)
            got = _eval_fn(fi, p)
            if abs(float(got) - float(want)) > 1e-9 * max(1.0, abs(want)):
                bad = (p, got, want)
                break
    except Unfoldable as exc:
        rep.undecided("FILTERS", fi, "filter-count formula", f"not evaluable with literal arithmetic ({exc})")
        return 0
    if bad is None:
        rep.ok("FILTERS", fi, "filters = channels * 4**layers * ratio (* 2 if complex)", f"agrees with the bandwidth-ratio definition on {len(grid)} parameter points")
    else:
        rep.violation("FILTERS", fi, "filter-count formula", f"for {bad[0]} the function gives {bad[1]}; the bandwidth-ratio definition gives {bad[2]}")
    return 1


def run(repo: Repo, rep: Report, tier: str) -> None:
    n = rule_grad(repo, rep)
    n += rule_pipeline(repo, rep)
    n += rule_root_at_zero(repo, rep)
    n += rule_where_guard(repo, rep)
    n += rule_shared_flags(repo, rep)
    n += rule_conv(repo, rep)
    n += rule_filters(repo, rep)
    rep.floor("C19 rule instances", n, 30)
    rep.decided_clauses += [
        "analog channels (AWGN, Laplacian, phase noise, flat/Rayleigh/Rician/log-normal fading, nonlinear), total/average/PAPR/per-antenna power constraints and the AF module return a value connected to their input by an unbroken autograd graph on every path",
        "no tensor saved for the backward pass, and no caller-owned input, is modified in place on those paths",
        "DeepJSCCModel runs encoder -> constraint -> channel -> decoder through the sequential loop, which threads the result differentiably",
        "bundled image encoders/decoders: exact halving/doubling layer arithmetic for all even sizes, encoder/decoder step balance, channel chains of the plain architectures, final Sigmoid where [0,1] is documented",
        "calculate_num_filters_factor_image equals channels * 4**layers * ratio (* 2 if complex)",
    ]
    rep.undecided_clauses += [
        "numerical agreement of gradients with finite differences; non-vanishing of each parameter's gradient",
        "differentiability of user-supplied nonlinear functions and of third-party (compressai) blocks",
        "behaviour at clipping kinks and for odd image sizes",
    ]
