"""C12 - binary channels: Bernoulli idiom, transition structure, bipolar round trip, input purity."""
from __future__ import annotations

import ast
from typing import Dict, List, Optional

from ..astutil import Inliner, ancestors, attr_chain, call_name, match, returns_of, set_parents, stmts_of
from ..closedform import classify
from ..core import OK, UNDECIDED, VIOLATION, AnalysisError, FuncInfo, Repo, Report, unparse
from ..effects import input_writes

EXPLANATION = (
    "Structural/dataflow analysis of BinarySymmetricChannel, BinaryErasureChannel, BinaryZChannel. BERNOULLI: every flip/erase indicator is `U < p` with U drawn by rand/rand_like "
    "(values in [0,1)) and p the configured probability attribute: strictly increasing in p, never true at p = 0, always true at p = 1 (`<=`, a reversed comparison or another "
    "threshold is reported). TRANSITION: BSC output = (x + flips) % 2 on the {0,1} form; Z-channel stores into the output are masked by `x == 1` and write where(U < p, 0, old); "
    "BEC stores only the erasure symbol under the erase mask into a clone of the input. BIPOLAR: (x+1)/2 before and 2*y-1 after under one flag = (x == -1).any(). PURITY: a may-alias "
    "/ effect analysis shows that no store, augmented assignment, in-place method or out= argument writes through an alias of the input. The probability parameter is validated to "
    "lie in [0,1] and stored unchanged. Rates and independence as statistics are not decided."
)

DG = "kaira/channels/digital.py"
RAND = ("torch.rand_like", "torch.rand")


def rand_names(fi: FuncInfo) -> Dict[str, ast.AST]:
    out = {}
    for s in stmts_of(fi.body):
        if isinstance(s, ast.Assign) and isinstance(s.targets[0], ast.Name) and isinstance(s.value, ast.Call) and call_name(s.value) in RAND:
            out[s.targets[0].id] = s
    return out


def is_uniform(e: ast.AST, rn: Dict[str, ast.AST]) -> bool:
    if isinstance(e, ast.Call) and call_name(e) in RAND:
        return True
    return isinstance(e, ast.Name) and e.id in rn


WIDE = ("torch.float32", "torch.float64", "torch.float", "torch.double", "torch.get_default_dtype()")


def _is_wide_cast(e: ast.AST) -> bool:
    """`e` contains a conversion to single / double precision."""
    for c in ast.walk(e):
        if isinstance(c, ast.Call) and isinstance(c.func, ast.Attribute) and c.func.attr in ("float", "double") and not c.args:
            return True
        if isinstance(c, ast.Call) and isinstance(c.func, ast.Attribute) and c.func.attr in ("to", "type") and any(unparse(a) in WIDE for a in list(c.args) + [k.value for k in c.keywords]):
            return True
        if isinstance(c, ast.Call) and any(k.arg == "dtype" and unparse(k.value) in WIDE for k in c.keywords):
            return True
    return False


def lint_draw_dtype(rep: Report, fi: FuncInfo, rule: str = "BERNOULLI") -> int:
    """The uniform variate behind `U < p` has the resolution of its dtype: `torch.rand_like(t)` draws in t's dtype, and a
    half-precision U lives on a grid of 2^-8 (bfloat16) or 2^-11 (float16), so P(U < p) is p rounded to that grid - for an
    input in half precision the channel then flips / erases at another rate than the configured one (p = 0.999 becomes 1).
    The operand of every rand_like must therefore be single or double precision by construction: a cast in the operand, in
    the definition(s) of the operand's base name, or an explicit dtype= argument."""
    n = 0
    params = {a.arg for a in fi.node.args.args + fi.node.args.kwonlyargs}

    def wide(e: ast.AST, depth: int = 0) -> Optional[bool]:
        if _is_wide_cast(e):
            return True
        base = e
        while isinstance(base, (ast.Subscript, ast.Attribute)) or (isinstance(base, ast.Call) and isinstance(base.func, ast.Attribute) and base.func.attr in ("clone", "detach", "contiguous", "view", "reshape", "flatten")):
            base = base.value if not isinstance(base, ast.Call) else base.func.value
        if not isinstance(base, ast.Name) or depth > 4:
            return None
        defs = [s.value for s in ast.walk(fi.node) if isinstance(s, ast.Assign) and len(s.targets) == 1 and isinstance(s.targets[0], ast.Name) and s.targets[0].id == base.id]
        # a definition in terms of the name itself alone (`y = 2 * y - 1`) keeps the dtype
        defs = [d for d in defs if not ({x.id for x in ast.walk(d) if isinstance(x, ast.Name)} <= {base.id, "torch"} and not any(isinstance(x, ast.Call) for x in ast.walk(d)))]
        if not defs:
            return False if base.id in params else None
        res = [wide(d, depth + 1) for d in defs]
        if all(r is True for r in res) and base.id not in params:
            return True
        if any(r is False for r in res) or (base.id in params and not all(r is True for r in res)):
            return False
        return None

    for c in ast.walk(fi.node):
        if isinstance(c, ast.Call) and call_name(c) == "torch.rand_like" and c.args:
            n += 1
            if any(k.arg == "dtype" for k in c.keywords):
                w = any(k.arg == "dtype" and unparse(k.value) in WIDE for k in c.keywords)
            else:
                w = wide(c.args[0])
            # a lint: only the recognised wrong form (the operand is a parameter, or a view of one, never cast) is reported
            rep.shape(w is not False, w is False, rule, fi, f"draw precision: {unparse(c)}", "the variates are drawn in single / double precision whatever the input's dtype" if w else "the operand is not a bare function parameter (its dtype is set elsewhere; not judged)", "the variates are drawn in the dtype of the input: for a half-precision input U lies on a grid of 2^-8 / 2^-11, so the event U < p has the probability of p rounded to that grid, not the configured one (p = 0.999 on bfloat16 input flips / erases every symbol)", node=c)
    return n


def bernoulli_sites(rep: Report, fi: FuncInfo, prob_attr: str) -> int:
    """Check every comparison that involves a uniform draw; returns the number of sites."""
    n = 0
    # the draw may be made in a module-level helper called from here: its comparisons are judged with the helper's
    # parameters read as the caller's arguments
    sites = [(c, fi, {}, rand_names(fi)) for c in ast.walk(fi.node)]
    for call in [c for c in ast.walk(fi.node) if isinstance(c, ast.Call) and isinstance(c.func, ast.Name) and c.func.id in fi.module.functions]:
        hf = fi.module.functions[call.func.id]
        hp = [a.arg for a in hf.node.args.args]
        subst = {p_: a_ for p_, a_ in zip(hp, call.args)}
        subst.update({k.arg: k.value for k in call.keywords if k.arg in hp})
        hrn = rand_names(hf)
        sites += [(c, hf, subst, hrn) for c in ast.walk(hf.node)]
    for c, owner, subst, rn in sites:
        if not isinstance(c, ast.Compare) or len(c.ops) != 1:
            continue
        l, r, op = c.left, c.comparators[0], c.ops[0]
        if not (is_uniform(l, rn) or is_uniform(r, rn)):
            continue
        n += 1
        construct = f"indicator: {unparse(c)}" + (f" (in {owner.name})" if owner is not fi else "")
        u_left = is_uniform(l, rn)
        other = r if u_left else l
        good_op = isinstance(op, ast.Lt) if u_left else isinstance(op, ast.Gt)
        if isinstance(other, ast.Name) and other.id in subst:
            other = subst[other.id]
        if isinstance(other, ast.Name):
            # a local naming the probability (`p = self.error_prob`): its only definition decides
            ds_ = [s_.value for s_ in ast.walk(fi.node) if isinstance(s_, ast.Assign) and len(s_.targets) == 1 and isinstance(s_.targets[0], ast.Name) and s_.targets[0].id == other.id]
            if len(ds_) == 1 and other.id not in fi.params:
                other = ds_[0]
                while isinstance(other, ast.Call) and isinstance(other.func, ast.Attribute) and other.func.attr in ("to", "float", "double", "item") and not (call_name(other) or "").startswith("torch."):
                    other = other.func.value
        mentions_p = any(isinstance(a_, ast.Attribute) and attr_chain(a_) == prob_attr for a_ in ast.walk(other))
        compl = isinstance(other, ast.BinOp) and isinstance(other.op, ast.Sub) and isinstance(other.left, ast.Constant) and other.left.value in (1, 1.0) and attr_chain(other.right) == prob_attr
        if compl and (isinstance(op, ast.GtE) if u_left else isinstance(op, ast.LtE)):
            rep.ok("BERNOULLI", fi, construct, "U >= 1 - p: P(event) = p exactly for U in [0,1): never at p = 0, always at p = 1", node=c)
        elif attr_chain(other) != prob_attr and mentions_p:
            rep.undecided("BERNOULLI", fi, construct, f"the uniform draw is compared with `{unparse(other)[:60]}`, an expression of the configured probability that is not recognised", node=c)
        elif attr_chain(other) != prob_attr and isinstance(other, ast.Name):
            rep.undecided("BERNOULLI", fi, construct, f"the uniform draw is compared with the local `{other.id}` whose definition is not unique", node=c)
        elif attr_chain(other) != prob_attr:
            rep.violation("BERNOULLI", fi, construct, f"the uniform draw is compared with `{unparse(other)}` instead of the configured probability `{prob_attr}`", node=c)
        elif good_op:
            rep.ok("BERNOULLI", fi, construct, "P(event) = p exactly: U in [0,1) and strict `<`: never at p = 0, always at p = 1", node=c)
        elif isinstance(op, (ast.LtE,)) and u_left or isinstance(op, ast.GtE) and not u_left:
            rep.violation("BERNOULLI", fi, construct, "non-strict comparison: at p = 0 a draw U == 0 still triggers the event (probability 0 is not the identity)", node=c)
        else:
            rep.violation("BERNOULLI", fi, construct, "the event probability is 1 - p (or otherwise not increasing in p): comparison is reversed", node=c)
    # resolution of the uniform draws: a half-precision sampler has a grid of 2^-11 and extra mass on exact values,
    # so P(U < p) is not p for small p
    for c in ast.walk(fi.node):
        if isinstance(c, ast.Call) and (call_name(c) or "") in RAND:
            dt = next((k.value for k in c.keywords if k.arg == "dtype"), None)
            if dt is not None and attr_chain(dt) in ("torch.float16", "torch.half", "torch.bfloat16", "torch.float8_e4m3fn", "torch.float8_e5m2"):
                rep.violation("BERNOULLI", fi, f"uniform draw: {unparse(c)[:80]}", f"the uniform samples are drawn in {attr_chain(dt)}: their grid (2^-11 or coarser, with excess mass on exact grid points such as 0) makes P(U < p) differ from p - the flip/erasure rate is biased for small probabilities", node=c)
                n += 1
    # a store through reshape()/flatten()/contiguous() may hit a temporary copy (non-contiguous tensors): the event is lost
    from ..speciallint import lint_store_through_copy

    n += lint_store_through_copy(rep, fi, "TRANSITION")
    for c in ast.walk(fi.node):
        if isinstance(c, ast.Call) and call_name(c) == "torch.bernoulli":
            n += 1
            ok = c.args and (attr_chain(c.args[0]) == prob_attr or (isinstance(c.args[0], ast.Call) and any(attr_chain(a) == prob_attr for a in ast.walk(c.args[0]))))
            rep.check(bool(ok), "BERNOULLI", fi, f"indicator: {unparse(c)}", "Bernoulli(p) with the configured probability", "Bernoulli draw does not use the configured probability", node=c)
    return n


def params_evaluated(init: FuncInfo, param: str):
    """The constructor (module helpers inlined, `to_tensor` / `torch.tensor` as the identity) run for the probabilities
    -0.1, 0, 0.3, 1, 1.1: the admissible ones must be stored unchanged, the others rejected."""
    from ..constfold import PySeq, Unfoldable
    from ..frag import FragRaise, FragReturn, run_fragment

    funcs = {nm: f.node for nm, f in init.module.functions.items()}
    body = [st for st in init.body if not (isinstance(st, ast.Expr) and isinstance(st.value, ast.Call) and unparse(st.value.func) == "super().__init__")]
    for v, admissible in ((-0.1, False), (0.0, True), (0.3, True), (1.0, True), (1.1, False), (0, True), (1, True)):
        attrs: Dict[str, object] = {}
        names = {p_: None for p_ in init.params if p_ != "self"}
        names.update({param: v, "args": PySeq([]), "kwargs": {}})
        try:
            run_fragment(body, names, attrs, funcs=funcs, ctors={"to_tensor": lambda x, *a, **k: x}, max_steps=20000, attrs_live=True)
        except FragRaise:
            if admissible:
                return VIOLATION, f"the admissible probability {v} is rejected by the constructor"
            continue
        except FragReturn:
            pass
        except (Unfoldable, TypeError, ValueError) as exc:
            return None, str(exc)
        got = attrs.get(f"self.{param}")
        if isinstance(got, list) and len(got) == 1:
            got = got[0]
        if not isinstance(got, (int, float)) or isinstance(got, bool):
            return None, f"self.{param} is not a number after the constructor ({got!r})"
        if not admissible:
            return VIOLATION, f"the value {v}, which is not a probability, is accepted by the constructor"
        if abs(float(got) - float(v)) > 1e-12:
            return VIOLATION, f"configured probability {v} is stored as {got!r}"
    return OK, "probabilities 0, 0.3, 1 stored unchanged; -0.1 and 1.1 rejected"


def rule_params(repo: Repo, rep: Report, cname: str, param: str) -> int:
    init = repo.func(DG, f"{cname}.__init__")
    asg = [s for s in stmts_of(init.body) if isinstance(s, ast.Assign) and attr_chain(s.targets[0]) == f"self.{param}"]
    ok = len(asg) == 1 and (match(asg[0].value, f"to_tensor({param})") is not None or match(asg[0].value, param) is not None or match(asg[0].value, f"torch.tensor({param})") is not None)
    if not ok and len(asg) == 1 and isinstance(asg[0].value, ast.Call) and isinstance(asg[0].value.func, ast.Name) and asg[0].value.func.id in init.module.functions:
        # validation and conversion moved into a module-level helper: the constructor is evaluated on sample probabilities
        est, edetail = params_evaluated(init, param)
        if est is not None:
            rep.add("PARAM", init, f"self.{param} = {unparse(asg[0].value)} (constructor evaluated on -0.1, 0, 0.3, 1, 1.1)", est, edetail, node=asg[0])
            return 2
    wrong_p = len(asg) == 1 and any(isinstance(x, (ast.BinOp, ast.Constant)) for x in ast.walk(asg[0].value) if not (isinstance(x, ast.Constant) and isinstance(x.value, str)))
    rep.shape(ok, wrong_p, "PARAM", init, f"self.{param} = {unparse(asg[0].value) if asg else '?'}", "configured probability stored unchanged", "the stored probability is not the configured one", node=asg[0] if asg else init.node)
    val = [s for s in stmts_of(init.body) if isinstance(s, ast.If) and any(isinstance(x, ast.Raise) for x in s.body)]
    okv = any(unparse(s.test) in (f"not 0 <= {param} <= 1", f"{param} < 0 or {param} > 1", f"not 0.0 <= {param} <= 1.0") for s in val)
    # semantic evaluation of the validation test on sample values instead of a text match
    from ..constfold import Folder, Unfoldable

    def rejects(test, v):
        try:
            return bool(Folder({param: v}).fold(test))
        except Unfoldable:
            return None

    verdicts = []
    for s_ in val:
        rs = [rejects(s_.test, v) for v in (-0.1, 0.0, 0.3, 1.0, 1.1)]
        verdicts.append(rs)
    okv = okv or any(rs == [True, False, False, False, True] for rs in verdicts)
    wrong_v = (not okv) and any(None not in rs and rs != [True, False, False, False, True] for rs in verdicts) and bool(verdicts)
    helper_calls = [c for c in ast.walk(init.node) if isinstance(c, ast.Call) and any(isinstance(a, ast.Name) and a.id == param for a in c.args) and (call_name(c) or "").split(".")[-1] not in ("to_tensor", "tensor", "__init__", "register_buffer", "float", "as_tensor")]
    asserts = [a for a in ast.walk(init.node) if isinstance(a, ast.Assert) and param in unparse(a.test)]
    if not val and not helper_calls and not asserts:
        wrong_v = True
    rep.shape(okv, wrong_v, "PARAM", init, f"range check: {[unparse(s.test) for s in val]}", "probabilities outside [0, 1] are rejected", "the validation accepts a value outside [0, 1] or rejects an admissible one (evaluated on -0.1, 0, 0.3, 1, 1.1)")
    return 2




def format_guards(fi: FuncInfo):
    """`if neg_one_format: A else: B` / `if not neg_one_format: B else: A` -> (node, bipolar body A, binary body B)."""
    out = []
    for s2 in fi.body:
        if isinstance(s2, ast.If):
            t = unparse(s2.test)
            if t == "neg_one_format":
                out.append((s2, s2.body, s2.orelse))
            elif t == "not neg_one_format":
                out.append((s2, s2.orelse, s2.body))
    return out


def early_returns(rep: Report, fi: FuncInfo, guards) -> int:
    """No return between the conversion to the internal {0,1} form and the conversion back."""
    lo, hi = guards[0].lineno, guards[1].lineno
    n = 0
    for r in ast.walk(fi.node):
        if isinstance(r, ast.Return) and lo < r.lineno < hi:
            n += 1
            if r.value is not None and isinstance(r.value, ast.Name) and r.value.id == "x":
                rep.ok("BIPOLAR", fi, r, "the unconverted input is returned as is", node=r, nontrivial=False)
            else:
                rep.violation("BIPOLAR", fi, r, "a return between the conversion to the internal {0,1} form and the conversion back: for bipolar (-1/+1) inputs the result is delivered in the internal alphabet (0 instead of -1), outside the input's alphabet", node=r)
    if n == 0:
        rep.ok("BIPOLAR", fi, "no return between the two conversions", "every path delivers the output in the input's alphabet", nontrivial=False)
    return 1


def partial_any(e: ast.AST):
    """an any()/all() reduction over a proper subset of the axes (dim given): returns the call, else None"""
    for c in ast.walk(e):
        if isinstance(c, ast.Call) and (call_name(c) or "").split(".")[-1] in ("any", "all", "amax", "max"):
            is_fn = (call_name(c) or "").startswith("torch.")
            extra = c.args[1:] if is_fn else c.args
            if any(k.arg in ("dim", "axis") for k in c.keywords) or extra:
                return c
    return None


def rule_bipolar(rep: Report, fi: FuncInfo) -> int:
    """(x+1)/2 before, 2*y-1 after, both under the flag (x == -1).any()."""
    n = 0
    flag = [s for s in stmts_of(fi.body) if isinstance(s, ast.Assign) and isinstance(s.targets[0], ast.Name) and s.targets[0].id == "neg_one_format"]
    if len(flag) != 1:
        rep.undecided("BIPOLAR", fi, "format flag", f"{len(flag)} definitions of neg_one_format")
        return 1
    partial = partial_any(flag[0].value)
    if partial is not None:
        rep.violation("BIPOLAR", fi, f"format flag: {unparse(flag[0])}", f"`{unparse(partial)[:60]}` decides the input alphabet per row (a reduction over one axis only): the alphabet is a property of the whole input, so in a bipolar batch a row consisting of +1 only is handled as a {{0,1}} word and its symbols come out as 0 / 1 - outside the bipolar alphabet", node=flag[0])
        return n + 1
    s, d, _ = classify(flag[0].value, ["(x == -1).any()", "torch.any(x == -1)", "(x < 0).any()"])
    rep.add("BIPOLAR", fi, f"format flag: {unparse(flag[0])}", s, d or "bipolar input is recognised by the presence of -1", node=flag[0])
    n += 1
    fg = format_guards(fi)
    guards = [g[0] for g in fg]
    if len(guards) != 2:
        rep.shape(False, len(guards) == 1, "BIPOLAR", fi, f"{len(guards)} blocks guarded by neg_one_format", "the conversion to {0,1} and the conversion back must both be present, under the same flag", "one of the two alphabet conversions is missing")
        return n + 1
    n += early_returns(rep, fi, guards)
    to_bin = [x for x in fg[0][1] if isinstance(x, ast.Assign)]
    back = [x for x in fg[1][1] if isinstance(x, ast.Assign)]
    if len(to_bin) == 1 and len(back) == 1:
        conv_check(rep, fi, "to binary", to_bin[0].value, "x", {-1: 0, 1: 1}, to_bin[0])
        tgt = unparse(back[0].targets[0])
        conv_check(rep, fi, "back to bipolar", back[0].value, tgt, {0: -1, 1: 1}, back[0])
        n += 2
        # the back conversion is the last thing before the return
        idx = fi.body.index(guards[1])
        tail = [x for x in fi.body[idx + 1 :]]
        rep.shape(len(tail) == 1 and isinstance(tail[0], ast.Return) and unparse(tail[0].value) == tgt, False, "BIPOLAR", fi, f"return after conversion: {unparse(tail[0]) if tail else ''}", "converted output returned unchanged", "the output is modified after the conversion back")
        n += 1
    else:
        rep.undecided("BIPOLAR", fi, "conversion blocks", "unexpected shape")
        n += 1
    return n


def _tt_eval(e: ast.AST, env: Dict[str, int]):
    """Truth-table evaluation of a {0,1}-valued arithmetic expression (finite abstract domain); None = not evaluable."""
    if isinstance(e, ast.Constant) and isinstance(e.value, (int, float)) and not isinstance(e.value, bool):
        return e.value
    if isinstance(e, ast.Name):
        return env.get(e.id)
    if isinstance(e, ast.UnaryOp) and isinstance(e.op, ast.USub):
        v = _tt_eval(e.operand, env)
        return None if v is None else -v
    if isinstance(e, ast.BinOp):
        a, b = _tt_eval(e.left, env), _tt_eval(e.right, env)
        if a is None or b is None:
            return None
        try:
            return {ast.Add: a + b, ast.Sub: a - b, ast.Mult: a * b, ast.Div: (a / b if b else None), ast.FloorDiv: (a // b if b else None), ast.Mod: a % b if b else None, ast.BitXor: int(a) ^ int(b), ast.BitOr: int(a) | int(b), ast.BitAnd: int(a) & int(b)}.get(type(e.op))
        except Exception:
            return None
    if isinstance(e, ast.Compare) and len(e.ops) == 1:
        a, b = _tt_eval(e.left, env), _tt_eval(e.comparators[0], env)
        if a is None or b is None:
            return None
        return {ast.NotEq: int(a != b), ast.Eq: int(a == b), ast.Gt: int(a > b), ast.Lt: int(a < b), ast.GtE: int(a >= b), ast.LtE: int(a <= b)}.get(type(e.ops[0]))
    if isinstance(e, ast.Call):
        nm = (call_name(e) or "").split(".")[-1]
        is_m = isinstance(e.func, ast.Attribute) and not (call_name(e) or "").startswith("torch.")
        args = ([e.func.value] if is_m else []) + list(e.args)
        vals = [_tt_eval(a, env) for a in args]
        kws = {k.arg: _tt_eval(k.value, env) for k in e.keywords}
        if any(v is None for v in vals):
            return None
        if nm in ("float", "int", "long", "bool", "to", "type", "clone"):
            return vals[0]
        if nm in ("abs", "absolute"):
            return abs(vals[0])
        if nm in ("remainder", "fmod") and len(vals) == 2 and vals[1]:
            return vals[0] % vals[1]
        if nm in ("logical_xor",) and len(vals) == 2:
            return int(bool(vals[0]) != bool(vals[1]))
        if nm in ("logical_or",) and len(vals) == 2:
            return int(bool(vals[0]) or bool(vals[1]))
        if nm in ("clamp", "clip"):
            v = vals[0]
            lo = vals[1] if len(vals) > 1 else kws.get("min")
            hi = vals[2] if len(vals) > 2 else kws.get("max")
            if lo is not None:
                v = max(v, lo)
            if hi is not None:
                v = min(v, hi)
            return v
        if nm == "where" and len(vals) == 3:
            return vals[1] if vals[0] else vals[2]
    return None



def conv_check(rep: Report, fi: FuncInfo, what: str, expr: ast.AST, var: str, want: Dict[int, int], node) -> None:
    got = {k: _tt_eval(expr, {var: k}) for k in want}
    if any(v is None for v in got.values()):
        rep.undecided("BIPOLAR", fi, f"{what}: {unparse(expr)}", "conversion could not be evaluated on its two symbols", node=node)
    elif all(float(got[k]) == want[k] for k in want):
        rep.ok("BIPOLAR", fi, f"{what}: {unparse(expr)}", f"maps {want}", node=node)
    else:
        rep.violation("BIPOLAR", fi, f"{what}: {unparse(expr)}", f"maps {got} instead of {want}: the output alphabet / polarity is wrong for bipolar inputs", node=node)


#: the uniform draws handed to the evaluated forward (flip where the draw is below the probability 0.5) and its inputs
BSC_DRAWS = [[0.1, 0.9, 0.3, 0.7], [0.8, 0.2, 0.6, 0.4]]
BSC_INPUTS = ([[0, 1, 1, 0], [1, 0, 0, 1]], [[1, 1, 1, 1], [0, 0, 0, 0]], [[0, 0, 1, 1], [0, 1, 0, 1]], [[1, 1, 1, 1], [1, 1, 1, 1]], [[0, 0, 0, 0], [0, 0, 0, 0]])  # the last two: blocks of one symbol only


def bsc_evaluated(rep: Report, fi: FuncInfo) -> Optional[int]:
    """The whole forward evaluated (own arithmetic over nested lists) on {0,1} and on -1/+1 words with the uniform draws
    replaced by a fixed table: the output is the input with exactly the symbols at the drawn positions exchanged for the
    other symbol of the input's alphabet.  Returns the number of obligations, None when the evaluator cannot follow the code."""
    from ..constfold import Unfoldable
    from ..frag import FragReturn, run_fragment

    def shaped(t, **kw):
        if not (isinstance(t, list) and len(t) == 2 and all(isinstance(r, list) and len(r) == 4 for r in t)):
            raise ValueError("draws for another shape")
        return [list(r) for r in BSC_DRAWS]

    # a bool flip mask added arithmetically is a logical OR for bool-typed bits: outside the evaluator's (untyped) values
    for s_ in stmts_of(fi.body):
        if isinstance(s_, ast.Assign) and isinstance(s_.value, ast.Compare) and isinstance(s_.targets[0], ast.Name):
            nm = s_.targets[0].id
            if any(isinstance(b, ast.BinOp) and isinstance(b.op, (ast.Add, ast.Sub)) and any(isinstance(o, ast.Name) and o.id == nm for o in (b.left, b.right)) for b in ast.walk(fi.node)):
                return None
    bad = []
    from ..frag import coverage_scope

    scope = coverage_scope()
    scope.__enter__()
    for bits in BSC_INPUTS:
        for bipolar in (False, True):
            if bipolar and all(b == 1 for r in bits for b in r):
                continue  # a block of ones holds no -1: its only reading is {0,1}
            x = [[(2 * b - 1 if bipolar else b) * 1.0 for b in r] for r in bits]
            want = [[(b ^ (1 if d < 0.5 else 0)) for b, d in zip(r, dr)] for r, dr in zip(bits, BSC_DRAWS)]
            want = [[(2 * b - 1 if bipolar else b) for b in r] for r in want]
            try:
                run_fragment(fi.body, {"x": x}, {"self.crossover_prob": 0.5}, ctors={"torch.rand_like": shaped}, max_steps=40000)
                scope.__exit__()
                return None
            except FragReturn as ret:
                got = ret.value
            except Unfoldable:
                scope.__exit__()
                return None
            if not (isinstance(got, list) and len(got) == 2 and all(isinstance(r, list) and len(r) == 4 and all(isinstance(v, (int, float)) and not isinstance(v, bool) for v in r) for r in got)):
                scope.__exit__()
                return None
            if [[float(v) for v in r] for r in got] != [[float(v) for v in r] for r in want]:
                bad.append(f"x = {x[0]}..., flips drawn at {[[int(d < 0.5) for d in dr] for dr in BSC_DRAWS][0]}...: output {got[0]}... instead of {want[0]}...")
    scope.__exit__()
    construct = "forward evaluated on {0,1} and -1/+1 words with a fixed table of uniform draws"
    gap = scope.note([fi.node])
    if not bad and gap:
        return None
    if bad:
        rep.violation("TRANSITION", fi, construct, "the output is not the input with the drawn positions exchanged for the other symbol of the input's alphabet: " + "; ".join(bad[:2]), node=fi.node)
    else:
        rep.ok("TRANSITION", fi, construct, f"{2 * len(BSC_INPUTS) - 1} words: a symbol changes exactly where the draw is below the probability, and stays in the input's alphabet ({{0,1}} or {{-1,+1}})", node=fi.node)
    return 3


def rule_bsc(repo: Repo, rep: Report) -> int:
    fi = repo.func(DG, "BinarySymmetricChannel.forward")
    n = bernoulli_sites(rep, fi, "self.crossover_prob")
    rep.floor("BSC Bernoulli sites", n, 1)
    ne = history_first(repo, rep, fi, "BinarySymmetricChannel", "crossover_prob", "bsc")
    if ne is not None:
        return n + ne + rule_params(repo, rep, "BinarySymmetricChannel", "crossover_prob")
    inl = Inliner(fi)
    ys = [s for s in fi.body if isinstance(s, ast.Assign) and unparse(s.targets[0]) == "y"]
    flag_ = [s for s in stmts_of(fi.body) if isinstance(s, ast.Assign) and isinstance(s.targets[0], ast.Name) and s.targets[0].id == "neg_one_format"]
    if len(ys) != 1 or len(flag_) != 1:
        # another spelling than the recognised one: decided by evaluation of the whole method
        ne = bsc_evaluated(rep, fi)
        if ne is not None:
            return n + ne + rule_params(repo, rep, "BinarySymmetricChannel", "crossover_prob")
    if len(ys) != 1:
        rep.undecided("TRANSITION", fi, "y = ...", f"{len(ys)} top-level definitions of y")
    else:
        e = ys[0].value
        flips = [s for s in fi.body if isinstance(s, ast.Assign) and unparse(s.targets[0]) == "flips"]
        table = [_tt_eval(e, {"x": a, "flips": b}) for a in (0, 1) for b in (0, 1)]
        if any(t is None for t in table):
            s, d = UNDECIDED, "the output expression could not be evaluated over {0,1} x {0,1}"
        elif [int(t) for t in table] == [0, 1, 1, 0] and all(float(t) == int(t) for t in table):
            s, d = OK, "truth table over (x, flip) in {0,1}^2 is XOR: alphabet preserved, a bit changes exactly when the flip indicator is 1"
        else:
            s, d = VIOLATION, f"truth table over (x, flip) = (0,0),(0,1),(1,0),(1,1) is {table}, not XOR [0,1,1,0]: the channel is not symmetric or leaves the alphabet"
        rep.add("TRANSITION", fi, f"BSC output: {unparse(ys[0])}", s, d, node=ys[0])
        if flips:
            fe = inl.inline(flips[0].value)
            ok = isinstance(fe, ast.Call) and isinstance(fe.func, ast.Attribute) and fe.func.attr in ("float", "to", "int", "long", "type", "double") and isinstance(fe.func.value, ast.Compare)
            # a bare comparison is a bool tensor: `bool + bool` is a logical OR in torch, so for a bool-typed bit tensor a 1 is never flipped
            arith = [b for b in ast.walk(e) if isinstance(b, ast.BinOp) and isinstance(b.op, (ast.Add, ast.Sub)) and any(isinstance(o, ast.Name) and o.id == "flips" for o in (b.left, b.right))]
            logical = [b for b in ast.walk(e) if (isinstance(b, ast.BinOp) and isinstance(b.op, ast.BitXor)) or (isinstance(b, ast.Call) and (call_name(b) or "").endswith("logical_xor")) or (isinstance(b, ast.Compare) and isinstance(b.ops[0], ast.NotEq))]
            if isinstance(fe, ast.Compare) and logical and not arith:
                ok = True
            wrong = isinstance(fe, ast.Compare) and bool(arith)
            rep.shape(ok, wrong, "TRANSITION", fi, f"flip indicator: {unparse(fe)[:120]}", "0/1 indicator of the Bernoulli event", "the flip indicator is a bool mask added arithmetically to the bits: for a bool-typed bit tensor `x + flips` is a logical OR, so a transmitted 1 is never flipped (the channel is not symmetric)", node=flips[0])
        n += 2
    n += rule_bipolar(rep, fi)
    n += rule_params(repo, rep, "BinarySymmetricChannel", "crossover_prob")
    return n


def digital_history_evaluated(repo: Repo, cname: str, prob_param: str, kind: str):
    """forward of the Z / erasure channel, with the class's own helper methods followed and the attributes the constructor
    sets carried from call to call, evaluated (own arithmetic) on histories of two blocks on one channel object: every
    pairing of a {0,1} and a -1/+1 block, probabilities 0, 0.5 and 1, uniform draws from a fixed table.  Each output must
    be the block with exactly the drawn symbols replaced (Z: a 1 whose draw is below p becomes 0; erasure: a symbol
    whose draw is below p becomes the erasure symbol), in the block's own alphabet.
    Returns (status, detail, words) or (None, reason, 0)."""
    from ..constfold import Unfoldable
    from ..frag import FragRaise, FragReturn, coverage_scope, run_fragment

    ci = repo.cls(DG, cname)
    fi = repo.method(ci, "forward")
    init = repo.method(ci, "__init__")
    # a bool flip mask added arithmetically is a logical OR for bool-typed bits: outside the evaluator's (untyped) values
    for s_ in stmts_of(fi.body):
        if isinstance(s_, ast.Assign) and isinstance(s_.value, ast.Compare) and isinstance(s_.targets[0], ast.Name):
            nm_ = s_.targets[0].id
            if any(isinstance(b, ast.BinOp) and isinstance(b.op, (ast.Add, ast.Sub)) and any(isinstance(o, ast.Name) and o.id == nm_ for o in (b.left, b.right)) for b in ast.walk(fi.node)):
                return None, "a comparison result is used arithmetically (bool-typed arithmetic is not modelled)", 0
    funcs = {f"self.{nm}": m.node for nm, m in ci.methods.items() if nm not in ("forward", "__init__")}
    mod_funcs = {nm: f.node for nm, f in ci.module.functions.items()}  # module-level helpers the forward may call
    funcs.update(mod_funcs)
    flat_draws = [d for r in BSC_DRAWS for d in r]
    mode = []

    def shaped(t, **kw):
        if isinstance(t, list) and len(t) == 2 and all(isinstance(r, list) and len(r) == 4 for r in t):
            mode.append("full")
            return [list(r) for r in BSC_DRAWS]
        if isinstance(t, list) and all(not isinstance(v, list) for v in t) and len(t) <= len(flat_draws):
            mode.append("flat")
            return list(flat_draws[: len(t)])
        raise ValueError("draws for another shape")

    def state(p, sym):
        attrs = {}
        names = {prob_param: p, "erasure_symbol": sym, "args": [], "kwargs": {}}
        for st in stmts_of(init.body):
            if isinstance(st, ast.Assign) and len(st.targets) == 1 and (attr_chain(st.targets[0]) or "").startswith("self."):
                try:
                    run_fragment([st], dict(names), attrs, ctors={"to_tensor": lambda v, **kw: v}, attrs_live=True)
                except (Unfoldable, FragRaise, FragReturn):
                    return None
        return attrs

    bad, words = {"lt": [], "ge": []}, 0
    scope = coverage_scope()
    scope.__enter__()
    try:
        # the erasure channel is also fed integer-typed bits with a fractional erasure symbol: the symbol must reach the
        # output as configured (a symbol materialised in the input's integer dtype is truncated)
        for p, sym, as_int in ((0.5, -7.0, False), (0.0, -7.0, False), (1.0, -7.0, False)) + (((0.5, float("inf"), False), (0.5, 0.5, True), (1.0, -0.5, True)) if kind == "bec" else ()):
            # a block that holds only the symbol 1 has one reading, {0,1} (no -1 in it); a block of zeros is written in either alphabet
            for ia, ib, bips in ((0, 2, None), (1, 0, None), (2, 1, None), (3, 0, ((False, False), (False, True))), (4, 3, ((False, False), (True, False))), (0, 3, ((False, False), (True, False)))):
                for bip in bips or ((False, False), (False, True), (True, False), (True, True)):
                    attrs = state(p, sym)
                    if attrs is None:
                        return None, "the constructor's attribute assignments could not be evaluated", 0
                    hist = []
                    for bits, bipolar in ((BSC_INPUTS[ia], bip[0]), (BSC_INPUTS[ib], bip[1])):
                        x = [[(2 * b - 1 if bipolar else b) * (1 if as_int else 1.0) for b in r] for r in bits]
                        del mode[:]
                        try:
                            run_fragment(fi.body, {"x": [list(r) for r in x], "args": [], "kwargs": {}}, attrs, funcs=funcs, ctors={"torch.rand_like": shaped}, max_steps=60000, attrs_live=True)
                            return None, "no value returned", 0
                        except FragReturn as ret:
                            got = ret.value
                        except (Unfoldable, FragRaise, ValueError, TypeError, IndexError) as exc:
                            return None, str(exc), 0
                        if not (isinstance(got, list) and len(got) == 2 and all(isinstance(r, list) and len(r) == 4 and all(isinstance(v, (int, float)) and not isinstance(v, bool) for v in r) for r in got)):
                            return None, "the output is not a (2, 4) numeric block", 0
                        if len(set(mode)) > 1 or (p > 0 and not mode and kind in ("bec", "bsc")):
                            return None, "draws requested in more than one layout", 0
                        flat_bits = [b for r in bits for b in r]
                        gotf = [float(v) for r in got for v in r]
                        hist.append(("-1/+1" if bipolar else "{0,1}"))
                        words += 1
                        if kind in ("bec", "bsc") and mode and mode[0] == "flat":
                            return None, "draws taken for a subset of the positions", 0
                        if kind == "bsc" and not mode:
                            return None, "flip draws not taken for the whole block", 0
                        # the event "happens with probability p" may be spelt U < p or U >= 1 - p (both exact for U in [0, 1))
                        for conv, ev in (("lt", lambda d: d < p), ("ge", lambda d: d >= 1 - p)):
                            if kind == "z":
                                if mode and mode[0] == "flat":
                                    ones = [i for i, b in enumerate(flat_bits) if b == 1]
                                    hit = {i: ev(flat_draws[j]) for j, i in enumerate(ones)}
                                else:
                                    hit = {i: ev(flat_draws[i]) for i in range(8)}
                                want_bits = [0 if (b == 1 and hit.get(i, False)) else b for i, b in enumerate(flat_bits)]
                                want = [(2 * b - 1 if bipolar else b) * 1.0 for b in want_bits]
                            elif kind == "bsc":
                                want = [((b ^ 1) if ev(flat_draws[i]) else b) for i, b in enumerate(flat_bits)]
                                want = [(2 * b - 1 if bipolar else b) * 1.0 for b in want]
                            else:
                                want = [sym if ev(flat_draws[i]) else (2 * b - 1 if bipolar else b) * 1.0 for i, b in enumerate(flat_bits)]
                            if gotf != want or any(v != v for v in gotf):
                                bad[conv].append((f"erasure symbol {sym}, " if kind == "bec" else "") + f"p = {p}, blocks sent on one channel object: {' then '.join(hist)}; block {len(hist)} x = {x[0]}... gives {gotf[:4]}..., expected {want[:4]}...")
                        if bad["lt"] and bad["ge"]:
                            break
    finally:
        scope.__exit__()
    gap = scope.note([fi.node] + [f.node for nm, f in ci.methods.items() if f"self.{nm}" in funcs and any(isinstance(c, ast.Call) and attr_chain(c.func) == f"self.{nm}" for c in ast.walk(fi.node))] + [nd for nm, nd in mod_funcs.items() if any(isinstance(c, ast.Call) and isinstance(c.func, ast.Name) and c.func.id == nm for c in ast.walk(fi.node))])
    if bad["lt"] and bad["ge"]:
        first = bad["lt"] if len(bad["lt"]) <= len(bad["ge"]) else bad["ge"]
        return VIOLATION, {"z": "Z-channel", "bec": "erasure channel", "bsc": "symmetric channel"}[kind] + " output is not the block with exactly the drawn symbols replaced, in the block's own alphabet: " + "; ".join(first[:2]), words
    if gap:
        return None, f"branches never reached by the samples: {gap}", 0
    return OK, f"{words} blocks in two-block histories ({{0,1}} / -1,+1 in every order, p = 0, 0.5, 1): " + ("a 1 becomes 0 exactly where its draw is below p, a 0 never changes" if kind == "z" else "a symbol is exchanged for the other one exactly where its draw is below p" if kind == "bsc" else "a symbol becomes the erasure symbol exactly where its draw is below p, the others are unchanged") + "; the output stays in the block's own alphabet whatever was sent before", words


def history_first(repo: Repo, rep: Report, fi: FuncInfo, cname: str, prob_param: str, kind: str) -> Optional[int]:
    """The evaluated two-block histories decide the transition clause whatever the spelling; None when not evaluable."""
    st_, d_, _w = digital_history_evaluated(repo, cname, prob_param, kind)
    if st_ is None:
        return None
    rep.add("TRANSITION", fi, f"{cname}.forward evaluated on two-block histories ({{0,1}} and -1/+1 blocks in every order, fixed table of uniform draws)", st_, d_, node=fi.node)
    return 4


def rule_bec(repo: Repo, rep: Report) -> int:
    fi = repo.func(DG, "BinaryErasureChannel.forward")
    n = bernoulli_sites(rep, fi, "self.erasure_prob")
    rep.floor("BEC Bernoulli sites", n, 1)
    ne = history_first(repo, rep, fi, "BinaryErasureChannel", "erasure_prob", "bec")
    if ne is not None:
        return n + ne + rule_params(repo, rep, "BinaryErasureChannel", "erasure_prob")
    rets0 = returns_of(fi.node)
    out = unparse(rets0[0].value) if len(rets0) == 1 and isinstance(rets0[0].value, ast.Name) else "y"  # the name does not matter
    ys = [s for s in fi.body if isinstance(s, ast.Assign) and unparse(s.targets[0]) == out]
    for s in ys:
        st, d, _ = classify(Inliner(fi).inline(s.value), ["x.clone().float()", "x.float().clone()", "x.clone()", "x.detach().clone().float()"])
        rep.add("TRANSITION", fi, f"BEC output starts as: {unparse(s)}", st, d or "a copy of the input: unerased symbols unchanged", node=s)
        n += 1
    stores = [s for s in stmts_of(fi.body) if isinstance(s, (ast.Assign, ast.AugAssign)) and isinstance((s.targets[0] if isinstance(s, ast.Assign) else s.target), ast.Subscript)]
    for s in stores:
        tgt = s.targets[0] if isinstance(s, ast.Assign) else s.target
        inl = Inliner(fi)
        idx = inl.inline(tgt.slice)
        ok_idx = isinstance(idx, ast.Compare) and any(call_name(x) in RAND for x in ast.walk(idx) if isinstance(x, ast.Call))
        ok_val = isinstance(s, ast.Assign) and attr_chain(s.value) == "self.erasure_symbol" and unparse(tgt.value) == out
        wrong_store = isinstance(s, ast.AugAssign) or (isinstance(s, ast.Assign) and unparse(tgt.value) == out and attr_chain(s.value) != "self.erasure_symbol") or (ok_val and isinstance(idx, ast.UnaryOp))
        rep.shape(ok_idx and ok_val, wrong_store, "TRANSITION", fi, f"BEC store: {unparse(s)}", "only erased positions change, and only to the erasure symbol", "a store other than `out[erase_mask] = self.erasure_symbol`", node=s)
        n += 1
    rep.floor("BEC stores", len(stores), 1)
    rets = returns_of(fi.node)
    rep.shape(len(rets) == 1 and unparse(rets[0].value) == out and bool(ys), len(rets) == 1 and unparse(rets[0].value) == "x", "TRANSITION", fi, f"BEC returns {unparse(rets[0].value) if rets else '?'}", "the masked copy", "BEC does not return the masked copy")
    n += 1 + rule_params(repo, rep, "BinaryErasureChannel", "erasure_prob")
    return n


def rule_z(repo: Repo, rep: Report) -> int:
    fi = repo.func(DG, "BinaryZChannel.forward")
    set_parents(fi.node)
    n = bernoulli_sites(rep, fi, "self.error_prob")
    rep.floor("Z Bernoulli sites", n, 1)
    ne = history_first(repo, rep, fi, "BinaryZChannel", "error_prob", "z")
    if ne is not None:
        return n + ne + rule_params(repo, rep, "BinaryZChannel", "error_prob")
    inl = Inliner(fi, allow_loop_defs=True)
    stores = [s for s in stmts_of(fi.body) if isinstance(s, ast.Assign) and isinstance(s.targets[0], ast.Subscript)]
    for s in stores:
        tgt = s.targets[0]
        idx = inl.inline(tgt.slice)
        s1, d1, _ = classify(idx, ["x_binary == 1", "x_binary > 0", "x_binary == 1.0", "x_binary.bool()"])
        # x_binary itself may be inlined away: accept the inlined forms too
        if s1 != OK:
            s1b, _, _ = classify(tgt.slice, ["ones_mask"])
            om = [q for q in stmts_of(fi.body) if isinstance(q, ast.Assign) and unparse(q.targets[0]) == "ones_mask"]
            if s1b == OK and len(om) == 1:
                s1, d1, _ = classify(om[0].value, ["x_binary == 1", "x_binary > 0", "x_binary == 1.0"])
        rep.add("TRANSITION", fi, f"Z store mask: {unparse(tgt)} with mask {unparse(idx)[:80]}", s1, d1 or "only positions that carry a 1 can change (a 0 never becomes a 1)", node=s)
        n += 1
        v = s.value
        m = match(v, "torch.where(_C, _A, _B)")
        if m is None:
            rep.undecided("TRANSITION", fi, f"Z store value: {unparse(v)[:100]}", "not a torch.where")
        else:
            a_zero = isinstance(m["_A"], ast.Call) and call_name(m["_A"]) in ("torch.zeros_like", "torch.zeros") or (isinstance(m["_A"], ast.Constant) and m["_A"].value in (0, 0.0))
            b_inl = Inliner(fi, allow_loop_defs=True).inline(m["_B"])
            t_inl = Inliner(fi, allow_loop_defs=True).inline(tgt)
            b_old = unparse(m["_B"]) == unparse(tgt) or unparse(b_inl) == unparse(tgt) or unparse(b_inl) == unparse(t_inl)
            a_inl = Inliner(fi, allow_loop_defs=True).inline(m["_A"])
            a_zero = a_zero or (isinstance(a_inl, ast.Call) and call_name(a_inl) in ("torch.zeros_like", "torch.zeros"))
            a_one = isinstance(a_inl, ast.Call) and call_name(a_inl) in ("torch.ones_like", "torch.ones") or (isinstance(a_inl, ast.Constant) and a_inl.value in (1, 1.0))
            b_const = isinstance(b_inl, ast.Call) and call_name(b_inl) in ("torch.zeros_like", "torch.zeros", "torch.ones_like", "torch.ones")
            rep.shape(bool(a_zero and b_old), bool(a_one or b_const), "TRANSITION", fi, f"Z store value: where({unparse(m['_C'])}, {unparse(m['_A'])[:40]}, {unparse(m['_B'])})", "event -> 0, otherwise the old value (1 -> 0 with probability p)", "the Z-channel store does not write `0 where the event fires, else the old value`", node=s)
        n += 1
    rep.floor("Z stores", len(stores), 1)
    ys = [s for s in fi.body if isinstance(s, ast.Assign) and unparse(s.targets[0]) == "y" and not isinstance(s.value, ast.BinOp)]
    for s in ys:
        st, d, _ = classify(s.value, ["x_binary.clone().float()", "x_binary.float().clone()", "x_binary.clone()"])
        rep.add("TRANSITION", fi, f"Z output starts as: {unparse(s)}", st, d or "a copy of the {0,1} input", node=s)
        n += 1
    n += rule_bipolar_z(rep, fi)
    n += rule_params(repo, rep, "BinaryZChannel", "error_prob")
    return n


def rule_bipolar_z(rep: Report, fi: FuncInfo) -> int:
    n = 0
    flag = [s for s in stmts_of(fi.body) if isinstance(s, ast.Assign) and unparse(s.targets[0]) == "neg_one_format"]
    for f in flag:
        if partial_any(f.value) is not None:
            rep.violation("BIPOLAR", fi, f"format flag: {unparse(f)}", f"`{unparse(partial_any(f.value))[:60]}` decides the input alphabet per row: in a bipolar batch a row of +1 only is handled as a {{0,1}} word", node=f)
            n += 1
            continue
        s, d, _ = classify(f.value, ["(x == -1).any()", "torch.any(x == -1)", "(x < 0).any()"])
        rep.add("BIPOLAR", fi, f"format flag: {unparse(f)}", s, d or "bipolar input recognised by the presence of -1", node=f)
        n += 1
    fg = format_guards(fi)
    guards = [g[0] for g in fg]
    if len(guards) != 2:
        rep.shape(False, len(guards) == 1, "BIPOLAR", fi, f"{len(guards)} blocks guarded by neg_one_format", "conversion to {0,1} and back must both be present under the same flag", "one of the two alphabet conversions is missing")
        return n + 1
    n += early_returns(rep, fi, guards)
    tb = [x for x in fg[0][1] if isinstance(x, ast.Assign)]
    eb = [x for x in fg[0][2] if isinstance(x, ast.Assign)]
    if len(tb) == 1:
        conv_check(rep, fi, "to binary", tb[0].value, "x", {-1: 0, 1: 1}, tb[0])
        n += 1
    if len(eb) == 1:
        s1, d1, _ = classify(eb[0].value, ["x.clone()", "x"])
        rep.add("BIPOLAR", fi, f"binary input: {unparse(eb[0])}", s1, d1 or "used as is", node=eb[0])
        n += 1
    back = [x for x in fg[1][1] if isinstance(x, ast.Assign)]
    if len(back) == 1:
        tgt = unparse(back[0].targets[0])
        conv_check(rep, fi, "back to bipolar", back[0].value, tgt, {0: -1, 1: 1}, back[0])
        n += 1
    idx = fi.body.index(guards[1])
    tail = fi.body[idx + 1 :]
    rep.shape(len(tail) == 1 and isinstance(tail[0], ast.Return) and unparse(tail[0].value) == "y", False, "BIPOLAR", fi, "return y right after the conversion back", "converted output returned unchanged", "the output is modified after the conversion back")
    return n + 1


def rule_purity(repo: Repo, rep: Report) -> int:
    n = 0
    for cname in ("BinarySymmetricChannel", "BinaryErasureChannel", "BinaryZChannel"):
        ci = repo.cls(DG, cname)
        fi = repo.method(ci, "forward")
        ws = [w for w in input_writes(repo, fi, ci, tensor_params=["x"])]
        if ws:
            for node, how, who in ws:
                rep.violation("PURITY", fi, node, f"{how} writes through a value that may share storage with the input `{sorted(who)[0]}`: the caller's tensor is modified", node=node)
        else:
            rep.ok("PURITY", fi, f"{cname}.forward: no store / in-place operation reaches an alias of x", "input tensor is not modified")
        n += 1
    return n


def run(repo: Repo, rep: Report, tier: str) -> None:
    if tier == "thorough":
        fi_ = repo.func(DG, "BinarySymmetricChannel.forward")
        before_ = len(rep.obligations)
        if bsc_evaluated(rep, fi_) is None:
            del rep.obligations[before_:]
        for cname_, param_ in (("BinarySymmetricChannel", "crossover_prob"), ("BinaryErasureChannel", "erasure_prob"), ("BinaryZChannel", "error_prob")):
            init_ = repo.func(DG, f"{cname_}.__init__")
            st_, d_ = params_evaluated(init_, param_)
            if st_ is not None:
                rep.add("PARAM", init_, f"{cname_} constructor evaluated on -0.1, 0, 0.3, 1, 1.1 (thorough tier)", st_, d_, node=init_.node)
    n = rule_bsc(repo, rep)
    n += rule_bec(repo, rep)
    n += rule_z(repo, rep)
    n += rule_purity(repo, rep)
    # the errors of successive uses are independent: the variates come from the generator that advances across calls
    from ..speciallint import lint_falsy_default, lint_rng_discipline

    for cname in ("BinarySymmetricChannel", "BinaryErasureChannel", "BinaryZChannel"):
        n += lint_falsy_default(rep, repo.func(DG, f"{cname}.__init__"), "PARAM")
    for f_ in repo.module(DG).functions.values():
        n += lint_falsy_default(rep, f_, "PARAM")
    for cname in ("BinarySymmetricChannel", "BinaryErasureChannel", "BinaryZChannel"):
        ci_ = repo.cls(DG, cname)
        for m_ in ci_.methods.values():
            if m_.name == "forward" or m_.name.startswith("_") and m_.name != "__init__":
                n += lint_rng_discipline(rep, m_, "BERNOULLI")
    for f_ in repo.module(DG).functions.values():
        n += lint_rng_discipline(rep, f_, "BERNOULLI")
        n += lint_draw_dtype(rep, f_)
    for cname in ("BinarySymmetricChannel", "BinaryErasureChannel", "BinaryZChannel"):
        for m_ in repo.cls(DG, cname).methods.values():
            n += lint_draw_dtype(rep, m_)
    # a channel (or a helper of it) that works through the symbols block by block must visit every symbol: the tail left out
    # by a floor-divided block count never meets the transition law
    from .c20 import rule_chunk_cover

    cover_funcs = [(DG, f_) for f_ in repo.module(DG).functions.values()]
    for cname in ("BinarySymmetricChannel", "BinaryErasureChannel", "BinaryZChannel"):
        cover_funcs += [(cname, m_) for m_ in repo.cls(DG, cname).methods.values()]
    nc_ = rule_chunk_cover(repo, rep, [], funcs=cover_funcs, consequence="the symbols of the tail keep the initial (no event) value, so they are never flipped / erased whatever the configured probability - the transition law holds only on a prefix of a long input")
    rep.ok("CHUNK-COVER", DG, f"{len(cover_funcs)} functions of the binary channels scanned for block-by-block loops", f"{nc_} blocked loop(s) judged", nontrivial=False)
    rep.floor("C12 rule instances", n, 26)
    rep.decided_clauses += [
        "each flip/erase indicator is `U < p` with U in [0,1) and p the configured, validated probability",
        "BSC: (x + flips) % 2; Z: stores masked by x == 1 writing where(event, 0, old); BEC: only the erasure symbol under the erase mask into a clone",
        "bipolar <-> binary conversions are mutually inverse and under one flag",
        "no write through an alias of the input",
    ]
    rep.undecided_clauses += ["rates and independence as statistics"]
