"""C13 - flat fading: y = h*x + n with block-constant, normalised coefficients."""
from __future__ import annotations

import ast
from fractions import Fraction
from typing import Dict, List, Optional

from ..astutil import Inliner, attr_chain, call_name, match, returns_of, stmts_of
from ..closedform import classify
from ..core import OK, UNDECIDED, VIOLATION, AnalysisError, FuncInfo, Repo, Report, unparse
from ..scaling import NONE_V, ONE, Mono, SV, Scaling
from ..terms import Terms, single
from .c07 import rule_fading_noise
from .c15 import tv_eval

EXPLANATION = (
    "FlatFadingChannel. GAIN: the coefficient generator is interpreted over the exact monomial domain: Rayleigh Var(re)+Var(im) = 1; Rician |LOS|^2*(K+1) = K and "
    "Var(scatter)*(K+1) = 1 with (K+1) an opaque atom (hence unit mean-square gain and LOS/scatter ratio K). BLOCKS: num_blocks = ceil(L/T) as (L+T-1)//T, coefficients are drawn "
    "with shape (batch, num_blocks) (one draw per block and item), the expansion index is arange(L) // T (floor division by the coherence time), each batch row is expanded from "
    "its own coefficients. FORWARD: a free-term interpreter derives the returned value: with csi and noise supplied it is exactly csi*x + noise (reshaped to the original shape on the "
    "1-D, 2-D and >2-D paths); otherwise h comes from generate -> expand. The noise stage (power / SNR calibrated on the faded signal, per-component split) is decided by the C07 "
    "scaling-law rule on the same function. Independence and gain statistics are not decided."
)

AN = "kaira/channels/analog.py"


def cfg(atoms):
    return lambda test, env: tv_eval(test, atoms)


def rule_gain(repo: Repo, rep: Report) -> int:
    fi = repo.func(AN, "FlatFadingChannel._generate_fading_coefficients")
    n = 0
    K = Mono.sym("K")
    for ftype in ("rayleigh", "rician"):
        atoms = {f"self.fading_type == '{t}'": (t == ftype) for t in ("rayleigh", "rician", "lognormal")}
        atoms["self.k_factor is None"] = False
        it = Scaling(fi, repo, config=cfg(atoms), attr_values={"self.k_factor": SV("det", K)})
        it.atom_sums = True
        # complex(los, zeros) + scattered : a deterministic mean plus a random part
        orig_binop = it.binop

        def binop(op, a, b, node, _o=orig_binop):
            if isinstance(op, ast.Add):
                for x, y in ((a, b), (b, a)):
                    if isinstance(x, SV) and x.kind == "det" and isinstance(y, SV) and y.kind == "rnd":
                        return SV("rician", x.m, y.m)
            return _o(op, a, b, node)

        it.binop = binop  # type: ignore[assignment]
        it.run({"batch_size": NONE_V, "seq_length": NONE_V, "device": NONE_V})
        rets_ = [(v, r) for v, r, _ in it.returns if v is not None]
        if not rets_:
            rep.undecided("GAIN", fi, f"{ftype}: coefficient law", "no returned value")
            n += 1
            continue
        seen_r = set()
        for v, rnode in rets_:
            if id(rnode) in seen_r:
                continue
            seen_r.add(id(rnode))
            from ..astutil import ancestors as _anc, set_parents as _sp

            _sp(fi.node)
            k0 = any(isinstance(a_, ast.If) and unparse(a_.test) in ("self.k_factor == 0", "self.k_factor == 0.0", "k == 0") and any(rnode is x for b_ in a_.body for x in ast.walk(b_)) for a_ in _anc(rnode))
            construct = f"{ftype} coefficients (line {rnode.lineno}): {v.show() if v.kind != 'rician' else 'LOS ' + v.m.show() + ' + scatter var ' + v.var.show()}"
            if ftype == "rayleigh":
                if v.kind == "rnd" and v.m == ONE:
                    rep.ok("GAIN", fi, construct, "zero-mean complex Gaussian with Var(re)+Var(im) = 1: unit mean-square gain", node=rnode)
                elif v.kind == "rnd":
                    rep.violation("GAIN", fi, construct, f"mean-square gain is {v.m.show()} instead of 1", node=rnode)
                else:
                    rep.undecided("GAIN", fi, construct, f"law not derived ({v.why})", node=rnode)
                n += 1
            elif v.kind == "rnd":
                # a path without line-of-sight term: only the K = 0 member of the family, and still unit gain
                n += 1
                if not k0:
                    rep.violation("GAIN", fi, construct, "a Rician path returns a zero-mean coefficient although K may be positive: the line-of-sight power K/(K+1) is missing", node=rnode)
                elif v.m == ONE:
                    rep.ok("GAIN", fi, construct + " under K == 0", "K = 0: pure scatter with unit mean-square gain", node=rnode)
                else:
                    rep.violation("GAIN", fi, construct + " under K == 0", f"for K = 0 the scattered power must be 1/(K+1) = 1; this path has mean-square gain {v.m.show()}", node=rnode)
            else:
                if v.kind != "rician":
                    rep.undecided("GAIN", fi, construct, f"law not derived ({getattr(v, 'why', '')})", node=rnode)
                    n += 1
                    continue
                A = Mono.sym("(K+1)")
                los2 = v.m.pow(2) * A
                sc = v.var * A
                rep.check(los2 == K, "GAIN", fi, f"rician |LOS|^2 * (K+1) = {los2.show()}", "line-of-sight power K/(K+1)", f"line-of-sight power times (K+1) must equal K, found {los2.show()}", node=rnode)
                rep.check(sc == ONE, "GAIN", fi, f"rician Var(scatter) * (K+1) = {sc.show()}", "scattered power 1/(K+1): total gain (K+1)/(K+1) = 1 and LOS/scatter = K", f"scattered power times (K+1) must equal 1, found {sc.show()}", node=rnode)
                n += 2
    # one draw per (item, block)
    draws = [c for c in ast.walk(fi.node) if isinstance(c, ast.Call) and call_name(c) == "torch.randn"]
    for c in draws:
        ok = len(c.args) >= 2 and unparse(c.args[0]) == "batch_size" and unparse(c.args[1]) == "num_blocks"
        rep.shape(ok, len(c.args) >= 2 and (unparse(c.args[0]) in ("1", "num_blocks") or unparse(c.args[1]) in ("1", "seq_length", "batch_size")), "BLOCKS", fi, f"draw: {unparse(c)}", "one independent draw per batch item and coherence block", "coefficients are not drawn with shape (batch_size, num_blocks)", node=c)
        n += 1
    rep.floor("fading draws", len(draws), 3)
    nb = [s for s in stmts_of(fi.body) if isinstance(s, ast.Assign) and unparse(s.targets[0]) == "num_blocks"]
    for s in nb:
        st, d, _ = classify(s.value, ["(seq_length + self.coherence_time - 1) // self.coherence_time", "-(-seq_length // self.coherence_time)", "math.ceil(seq_length / self.coherence_time)"], int_context=False)
        if st == UNDECIDED:
            w, _, _ = classify(s.value, ["seq_length // self.coherence_time", "int(seq_length / self.coherence_time)", "round(seq_length / self.coherence_time)", "seq_length // self.coherence_time + 1"])
            if w == OK:
                st, d = VIOLATION, "not ceil(L / T): a trailing partial block has no coefficient (or an unused extra block is drawn)"
        rep.add("BLOCKS", fi, f"num_blocks = {unparse(s.value)}", st, d or "ceil(L / T): also covers a trailing partial block", node=s)
        n += 1
    rep.floor("num_blocks definitions", len(nb), 1)
    return n


def expand_evaluated(fi: FuncInfo):
    """Run _expand_coefficients (own arithmetic) on labelled block tables for sequence lengths / coherence times that
    divide, do not divide, and exceed each other: sample i of item b must carry coefficient h[b][i // T]."""
    from ..constfold import Unfoldable
    from ..frag import FragRaise, FragReturn, run_fragment

    for L, T in ((6, 2), (7, 3), (5, 5), (5, 8), (4, 1), (9, 4)):
        nb = -(-L // T)
        for B in (1, 3):
            h = [[100 * b + j for j in range(nb)] for b in range(B)]
            try:
                run_fragment(fi.body, {"h": h, "seq_length": L}, {"self.coherence_time": T}, max_steps=20000, materialise=True)
                return UNDECIDED, "no value returned"
            except FragReturn as r:
                got = r.value
            except (Unfoldable, FragRaise, TypeError, IndexError) as exc:
                return UNDECIDED, f"not evaluable ({exc})"
            want = [[h[b][i // T] for i in range(L)] for b in range(B)]
            if got != want:
                return VIOLATION, f"for {B} item(s), sequence length {L} and coherence time {T} the expansion of the block table {h} is {got}; sample i of item b must carry h[b][i // T] = {want} (constant within each coherence block, every item from its own coefficients)"
    return OK, "sample i of item b carries h[b][i // T] for 6 (length, coherence time) pairs incl. non-divisors and T >= L, 1 and 3 items"


def rule_expand(repo: Repo, rep: Report) -> int:
    fi = repo.func(AN, "FlatFadingChannel._expand_coefficients")
    n = 0
    est_, ed_ = expand_evaluated(fi)
    if est_ in (OK, VIOLATION):
        rep.add("BLOCKS", fi, "_expand_coefficients evaluated on labelled block tables", est_, ed_, node=fi.node)
        return 1
    bi = [s for s in stmts_of(fi.body) if isinstance(s, ast.Assign) and unparse(s.targets[0]) == "block_indices"]
    for s in bi:
        st, d, _ = classify(s.value, ["torch.arange(seq_length, device=device) // self.coherence_time", "torch.arange(seq_length) // self.coherence_time", "torch.div(torch.arange(seq_length, device=device), self.coherence_time, rounding_mode='floor')"])
        rep.add("BLOCKS", fi, f"block_indices = {unparse(s.value)}", st, d or "sample i uses coefficient floor(i / T): constant within each coherence block", node=s)
        n += 1
    inl = Inliner(fi, allow_loop_defs=True)
    stores = [s for s in stmts_of(fi.body) if isinstance(s, ast.Assign) and isinstance(s.targets[0], ast.Subscript)]
    if stores:
        for s in stores:
            ok = match(s, "h_expanded[_B] = h[_B, block_indices]") is not None
            rep.shape(ok, match(s, "h_expanded[_B] = h[_C, block_indices]") is not None, "BLOCKS", fi, f"expansion: {unparse(s)}", "each batch item is expanded from its own coefficients", "a row is not expanded from its own coefficients by block index", node=s)
            n += 1
        loops = [s for s in stmts_of(fi.body) if isinstance(s, ast.For)]
        for lp in loops:
            rep.shape(unparse(lp.iter) in ("range(batch_size)", "range(h.shape[0])", "range(h.size(0))"), isinstance(lp.iter, ast.Call) and call_name(lp.iter) == "range" and (len(lp.iter.args) != 1 or isinstance(lp.iter.args[0], (ast.BinOp, ast.Constant))), "BLOCKS", fi, f"for {unparse(lp.target)} in {unparse(lp.iter)}", "all batch items", "not all batch items are expanded", node=lp)
            n += 1
    else:
        rets = returns_of(fi.node)
        for r in rets:
            e = inl.inline(r.value)
            st, d, _ = classify(e, ["h[:, torch.arange(seq_length, device=h.device) // self.coherence_time]", "h[:, torch.arange(seq_length, device=device) // self.coherence_time]", "torch.repeat_interleave(h, self.coherence_time, dim=1)[:, :seq_length]", "h.repeat_interleave(self.coherence_time, dim=1)[:, :seq_length]", "torch.repeat_interleave(h, self.coherence_time, dim=1)[:, 0:seq_length]"])
            if st != OK:
                m_ = match(e, "torch.repeat_interleave(h, self.coherence_time, dim=1)[:, _S]") or match(e, "h.repeat_interleave(self.coherence_time, dim=1)[:, _S]")
                if m_ is not None and isinstance(m_["_S"], ast.Slice):
                    sl_ = m_["_S"]
                    if sl_.lower is not None and unparse(sl_.lower) not in ("0",):
                        st, d = VIOLATION, f"every coefficient is repeated T times, but the sequence is cut out starting at `{unparse(sl_.lower)}` instead of at 0: when the length is not a multiple of the coherence time the block boundaries are shifted, sample i no longer uses coefficient floor(i / T)"
            rep.add("BLOCKS", fi, f"expansion: {unparse(e)[:120]}", st, d, node=r)
            n += 1
    rep.floor("block index definitions or vectorised expansion", len(bi) + (0 if stores else 1), 1)
    rets = returns_of(fi.node)
    rep.shape(len(rets) == 1 and unparse(rets[0].value) in ("h_expanded",) or not stores, len(rets) == 1 and unparse(rets[0].value) == "h", "BLOCKS", fi, f"returns {unparse(rets[0].value) if rets else '?'}", "the expanded coefficients", "expansion result is not returned")
    return n + 1


def forward_evaluated(repo: Repo):
    """FlatFadingChannel.forward (class helpers followed, attributes carried from call to call) evaluated with own arithmetic
    on a sequence of calls on one channel object - 4-D, 1-D, 2-D complex and 2-D real inputs - with the channel state
    and the noise supplied by the caller, and once more with the state generated (the two coefficient methods replaced
    by recording stand-ins).  Returns ({"supplied": (status, detail), "generated": (status, detail)}) or None."""
    from ..constfold import Unfoldable
    from ..frag import FragRaise, FragReturn, run_fragment

    ci = repo.cls(AN, "FlatFadingChannel")
    fi = repo.method(ci, "forward")

    def val(i):
        return complex(1 + i, 0.5 * i - 1)

    def flat(z):
        return [y for t in z for y in flat(t)] if isinstance(z, list) else [z]

    def shape(z):
        return [len(z)] + shape(z[0]) if isinstance(z, list) and z else ([0] if isinstance(z, list) else [])

    inputs = [
        ("(2,1,2,2) complex", [[[[val(0), val(1)], [val(2), val(3)]]], [[[val(4), val(5)], [val(6), val(7)]]]], 2, 4),
        ("(4,) complex", [val(i) for i in range(4)], 1, 4),
        ("(2,3) complex", [[val(i) for i in range(3)], [val(i + 5) for i in range(3)]], 2, 3),
        ("(2,3) real", [[1.0, 2.0, 3.0], [4.0, 5.0, 6.0]], 2, 3),
        ("(3,) real", [0.5, -1.0, 2.0], 1, 3),
        ("(1,) complex", [val(3)], 1, 1),
        ("(1,1) real", [[-2.0]], 1, 1),
        ("(1,1,1) complex", [[[val(2)]]], 1, 1),
    ]
    out = {}
    for mode in ("supplied", "generated"):
        attrs = {"self.snr_db": None, "self.avg_noise_power": 0.1, "self.coherence_time": 2}
        calls = []
        funcs = {f"self.{nm}": m.node for nm, m in ci.methods.items() if nm not in ("forward", "__init__", "_generate_fading_coefficients", "_expand_coefficients")}
        res = None
        for what, x, B, L in inputs:
            csi = [[complex(0.5 + b, 0.25 * l_) for l_ in range(L)] for b in range(B)]
            noise = [[complex(0.01 * l_, -0.02 * b) for l_ in range(L)] for b in range(B)]
            blocks = [[complex(2 + b, k_) for k_ in range((L + 1) // 2)] for b in range(B)]
            ctors = {}
            if mode == "generated":

                def gen(*a, _blocks=blocks, **kw):
                    calls.append(("generate", a[:2]))
                    return [list(r) for r in _blocks]

                def expand(*a, _csi=csi, _blocks=blocks, **kw):
                    calls.append(("expand", (a[0] == _blocks, a[1] if len(a) > 1 else kw.get("seq_length"))))
                    return [list(r) for r in _csi]

                ctors = {"self._generate_fading_coefficients": gen, "self._expand_coefficients": expand}
                del calls[:]
            try:
                run_fragment(fi.body, {"x": x, "csi": csi if mode == "supplied" else None, "noise": noise, "args": [], "kwargs": {}}, attrs, funcs=funcs, ctors=ctors, materialise=True, max_steps=400000, attrs_live=True)
                return None
            except FragReturn as ret:
                got = ret.value
            except (Unfoldable, FragRaise, TypeError, IndexError, ValueError):
                return None
            xf = flat(x)
            want = [csi[i // L][i % L] * complex(xf[i]) + noise[i // L][i % L] for i in range(B * L)]
            gf = flat(got) if isinstance(got, list) else None
            if gf is None or not all(isinstance(v, (int, float, complex)) and not isinstance(v, bool) for v in gf):
                return None
            if mode == "generated" and calls != [("generate", (B, L)), ("expand", (True, L))]:
                res = (VIOLATION, f"input {what}: the coefficients are obtained by {calls}; they must be generated for the input's own batch size and length ({B}, {L}) and expanded to that length")
                break
            if shape(got) != shape(x) or len(gf) != len(want) or any(abs(complex(a) - b) > 1e-9 for a, b in zip(gf, want)):
                res = (VIOLATION, f"call with input {what} (after {[w for w, *_ in inputs[: [w for w, *_ in inputs].index(what)]] or 'no'} earlier calls on the same object): the output has shape {shape(got)} and starts {str(gf[:3])[:80]}; h*x + n in the input's shape {shape(x)} starts {str(want[:3])[:80]}")
                break
        out[mode] = res or (OK, f"{len(inputs)} successive calls on one object (4-D, 1-D, 2-D complex; 2-D and 1-D real; single-sample inputs of rank 1, 2, 3): each output is h*x + n element by element, in the shape of its own input" + ("; coefficients generated for the input's own (batch, length) and expanded to that length" if mode == "generated" else ""))
    return out


def rule_forward(repo: Repo, rep: Report) -> int:
    fi = repo.func(AN, "FlatFadingChannel.forward")
    n = 0
    ev = forward_evaluated(repo)
    if ev is not None:
        rep.add("FORWARD", fi, "forward evaluated on successive calls of different shapes, channel state and noise supplied", ev["supplied"][0], ev["supplied"][1], node=fi.node)
        rep.add("FORWARD", fi, "forward evaluated with generated channel state (coefficient methods replaced by recording stand-ins)", ev["generated"][0], ev["generated"][1], node=fi.node)
        return 5
    for shape, atoms_shape, wrap in (
        ("2-D", {"is_1d": False, "len(x.shape) > 2": False, "len(original_shape) > 2": False}, "{}"),
        ("1-D", {"is_1d": True, "len(x.shape) > 2": False, "len(original_shape) > 2": False}, "{}.squeeze(0)"),
        (">2-D", {"is_1d": False, "len(x.shape) > 2": True, "len(original_shape) > 2": True}, "{}.reshape(x.shape)"),
    ):
        atoms = dict(atoms_shape)
        atoms.update({"csi is not None": True, "noise is not None": True, "not torch.is_complex(x)": False})
        t = Terms(fi, repo, config=cfg(atoms), erase_casts=False)
        t.run({"x": single("x"), "csi": single("csi"), "noise": single("noise")})
        got = set()
        for v, r, _ in t.returns:
            got |= set(v or ())
        xin = {"2-D": "x", "1-D": "x.unsqueeze(0)", ">2-D": "x.reshape(x.shape[0],(-1))"}[shape]
        core = f"((csi * {xin}) + noise)"
        want = {"2-D": core, "1-D": f"{core}.squeeze(0)", ">2-D": f"{core}.reshape(x.shape)"}[shape]
        alts = {want, want.replace(f"(csi * {xin})", f"({xin} * csi)")}
        ok = bool(got) and got <= alts
        if not ok and got & alts:
            rep.undecided("FORWARD", fi, f"{shape} input, csi and noise supplied: returns {' | '.join(sorted(got))[:200]}", "alternatives of branches this configuration does not separate (the required form is among them)", node=fi.node)
        else:
            rep.check(ok, "FORWARD", fi, f"{shape} input, csi and noise supplied: returns {' | '.join(sorted(got))[:200]}", "exactly h*x + n, restored to the input's shape", f"with caller-supplied channel state and noise the output must be {want}", node=fi.node)
        n += 1
    # real inputs are promoted to complex with zero imaginary part
    prom = [s for s in stmts_of(fi.body) if isinstance(s, ast.If) and len(s.body) == 1 and match(s.body[0], "x = torch.complex(x, torch.zeros_like(x))") is not None]
    from .c15 import tv_eval as _tv

    def _real_test(t):
        if unparse(t) == "not torch.is_complex(x)":
            return True
        if isinstance(t, ast.Name):
            d_ = [s_.value for s_ in stmts_of(fi.body) if isinstance(s_, ast.Assign) and len(s_.targets) == 1 and isinstance(s_.targets[0], ast.Name) and s_.targets[0].id == t.id]
            return len(d_) == 1 and unparse(d_[0]) == "not torch.is_complex(x)"
        return False

    okp = len(prom) == 1 and _real_test(prom[0].test)
    rep.shape(okp, False, "FORWARD", fi, f"real input promotion: {unparse(prom[0].body[0]) if prom else '(none)'}", "real signal becomes x + 0j", "real inputs are not promoted as x + 0j", node=prom[0] if prom else fi.node)
    n += 1
    # generated path: h = expand(generate(batch, L, device), L)
    atoms = {"is_1d": False, "len(x.shape) > 2": False, "len(original_shape) > 2": False, "csi is not None": False, "noise is not None": True, "not torch.is_complex(x)": False}
    t = Terms(fi, repo, config=cfg(atoms), erase_casts=False, opaque_methods={"_generate_fading_coefficients", "_expand_coefficients"})
    t.run({"x": single("x"), "csi": single("None"), "noise": single("noise")})
    got = set()
    for v, r, _ in t.returns:
        got |= set(v or ())
    want = "((self._expand_coefficients(self._generate_fading_coefficients(x.shape.0,x.shape.1,x.device),x.shape.1) * x) + noise)"
    ok = got == {want}
    if not ok and any(g_.startswith(want[:-1]) or want in g_ for g_ in got):
        rep.undecided("FORWARD", fi, f"generated fading: returns {' | '.join(sorted(got))[:260]}", "alternatives of branches this configuration does not separate (the required form is among them)", node=fi.node)
        return n + 1
    rep.check(ok, "FORWARD", fi, f"generated fading: returns {' | '.join(sorted(got))[:260]}", "h = expand(generate(batch, L), L) with the input's own batch size and length", f"generated path must be {want}", node=fi.node)
    n += 1
    return n


REDUCTIONS = {"mean", "sum", "norm", "std", "var", "max", "min", "amax", "amin", "median", "cumsum", "cumprod", "sort", "prod", "logsumexp", "vector_norm", "softmax", "fft", "matmul", "mm", "einsum", "cummax"}
DRAWS = {"randn", "rand", "randn_like", "rand_like", "normal", "exponential", "sample", "rsample", "rayleigh"}


def rule_block_independence(repo: Repo, rep: Report) -> int:
    """Coefficients are drawn independently across blocks and batch items: in `_generate_fading_coefficients` every
    coefficient may depend on its own random draws only.  A reduction (or any operation mixing positions) applied to a
    tensor derived from the draws makes one block's coefficient a function of the other blocks' draws (per-realisation
    power normalisation is the typical case: with two blocks per item the block gains become perfectly anti-correlated
    and the marginal law is no longer Rayleigh / Rician)."""
    fi = repo.func(AN, "FlatFadingChannel._generate_fading_coefficients")
    tainted = set()
    changed = True

    ci = repo.cls(AN, "FlatFadingChannel")

    def is_draw(c):
        if not isinstance(c, ast.Call):
            return False
        if (call_name(c) or "").split(".")[-1] in DRAWS:
            return True
        ch = attr_chain(c.func) or ""
        if ch.startswith("self.") and ch.count(".") == 1:
            m = ci.find_method(ch.split(".")[1])
            return m is not None and m is not fi and any(isinstance(x, ast.Call) and (call_name(x) or "").split(".")[-1] in DRAWS for x in ast.walk(m.node))
        return False

    def mentions(e):
        return any(is_draw(x) or (isinstance(x, ast.Name) and x.id in tainted) for x in ast.walk(e))

    assigns = [s_ for s_ in ast.walk(fi.node) if isinstance(s_, (ast.Assign, ast.AugAssign))]
    while changed:
        changed = False
        for s_ in assigns:
            tg = s_.targets if isinstance(s_, ast.Assign) else [s_.target]
            if mentions(s_.value):
                for t in tg:
                    for x in ast.walk(t):
                        if isinstance(x, ast.Name) and x.id not in tainted:
                            tainted.add(x.id)
                            changed = True
    n_draws = sum(1 for c in ast.walk(fi.node) if is_draw(c))
    rep.floor("random draws in _generate_fading_coefficients", n_draws, 2)
    mixing = []
    for c in ast.walk(fi.node):
        if isinstance(c, ast.Call):
            short = (call_name(c) or "").split(".")[-1]
            if short in REDUCTIONS:
                operands = list(c.args) + [k.value for k in c.keywords] + ([c.func.value] if isinstance(c.func, ast.Attribute) and not (call_name(c) or "").startswith("torch.") else [])
                if any(mentions(o) for o in operands):
                    mixing.append(c)
    if mixing:
        rep.violation("BLOCK-INDEP", fi, f"coefficients mixed across positions: {unparse(mixing[0])[:100]}", "a statistic over the drawn coefficients enters the coefficients themselves: blocks (and batch items) are no longer independent and the marginal law is no longer the configured one (with one block per item |h| becomes exactly 1)", node=mixing[0])
    else:
        rep.ok("BLOCK-INDEP", fi, f"{n_draws} draw sites, {len(tainted)} derived names", "every coefficient is an element-wise function of its own draws: no reduction or position-mixing operation touches a drawn tensor")
    return 1


def run(repo: Repo, rep: Report, tier: str) -> None:
    n = rule_gain(repo, rep)
    n += rule_block_independence(repo, rep)
    n += rule_expand(repo, rep)
    n += rule_forward(repo, rep)
    n += rule_fading_noise(repo, rep)
    from ..speciallint import lint_falsy_default, lint_rng_discipline

    for cname_ in ("FlatFadingChannel", "RayleighFadingChannel", "RicianFadingChannel", "LogNormalFadingChannel"):
        ci2_ = repo.module(AN).classes.get(cname_)
        if ci2_ is not None and ci2_.methods.get("__init__") is not None:
            n += lint_falsy_default(rep, ci2_.methods["__init__"], "GAIN")
    for cname in ("FlatFadingChannel",):
        ci_ = repo.cls(AN, cname)
        for m_ in ci_.methods.values():
            if m_.name != "__init__":
                n += lint_rng_discipline(rep, m_, "BLOCK-INDEP")
    rep.floor("C13 rule instances", n, 19)
    rep.decided_clauses += [
        "unit mean-square gain for Rayleigh and Rician; Rician LOS/scatter power ratio K",
        "ceil(L/T) blocks, one draw per item and block, expansion by floor(i/T) per batch row",
        "forward = h*x + n; supplied csi/noise used verbatim; output shape restored on 1-D/2-D/>2-D paths; noise calibrated on the faded signal",
    ]
    rep.decided_clauses += ["independence across blocks / items as a dataflow fact: no position-mixing operation on the drawn coefficients"]
    rep.undecided_clauses += ["statistical independence of the generator's draws and gain statistics as numbers", "log-normal shadowing gain (excluded by the statement)"]
